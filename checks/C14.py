"""C14 - strconv parses and formats numbers consistently with the standard library.

P  spec/strconv/Numeric.tla       property-level definitions over decimal digit strings (judge): documented syntaxes,
                                  longest prefix, exact integers / (0,0), float tolerance on the first 15 significant
                                  digits, AppendInt text, AppendFloat / AppendDecimal literal + sign + digits,
                                  AppendNumber -> ParseNumber round trip, prefix preservation
   spec/strconv/Digits.tla        arithmetic on digit strings (TLC has 32-bit integers and no floats)
G  spec/strconv/NumericGen.tla    TLC enumerates every symbol string up to a length, boundary families and formatting
                                  arguments, each with the expectation computed from Numeric.tla
T  spec/strconv/NumericTrace.tla  validates calls recorded from the real code (replayed cases and seeded random calls)
"""
import json
import re

SUB, TMOD, TCFG = "strconv", "NumericTrace", "NumericTrace.cfg"


def _txt(v):
    return bytes(x for x in v if 0 <= x < 256)


def _show(v):
    return "".join(chr(x) if 32 <= x < 127 else ("<G>" if x == 300 else "<D>" if x == 301 else "\\x%02x" % (x & 0xFF)) for x in v)


def _eff(p):
    return 17 if p < 0 or p > 17 else p


def sig_of(ev):
    """Mechanism signature of a rejected event: a label computed from what was logged (never a verdict)."""
    call = ev.get("ev")
    if ev.get("out") == "panic":
        return "numeric/%s/panic" % call
    if call in ("ParseInt", "ParseUint"):
        return "numeric/%s/%s/wrong-result" % (call, "n=0" if ev.get("n") == 0 else "n>0")
    if call in ("ParseFloat", "ParseDecimal"):
        b = _txt(ev.get("b", []))
        m = re.match(rb"[+-]?(\d*)(?:\.(\d*))?(?:[eE]([+-]?)(\d+))?" if call == "ParseFloat" else rb"-?(\d*)(?:\.(\d*))?()()", b)
        ip, fp, es, ed = (m.group(1) or b""), (m.group(2) or b""), (m.group(3) or b""), (m.group(4) or b"")
        if call == "ParseFloat" and len(ed.lstrip(b"0")) >= 19:
            return "numeric/ParseFloat/exponent-beyond-int64"
        ex = int(ed) if ed and call == "ParseFloat" else 0
        if es == b"-":
            ex = -ex
        if ex < -308 or len(fp) > 308 or ex - len(fp) < -308:
            return "numeric/%s/pow10-below-1e-308/wrong-value" % call
        if ev.get("n", 0) != m.end():
            return "numeric/%s/wrong-length" % call
        return "numeric/%s/wrong-value" % call
    if call == "AppendInt":
        return "numeric/AppendInt/wrong-result"
    if not ev.get("pk", True):
        return "numeric/%s/prefix-not-preserved" % call
    o = ev.get("o", [])
    if call == "AppendNumber":
        if 0 in o and ev.get("gl", 1) > 1 and ev.get("gs", 0) > 0:
            return "numeric/AppendNumber/size/multibyte-group-symbol"
        return "numeric/AppendNumber/wrong-result"
    cls, e = ev.get("cls"), ev.get("e", 0)
    if cls in ("nan", "inf"):
        return "numeric/%s/%s-appends" % (call, cls)
    if call == "AppendDecimal":
        if cls == "fin" and (e + 1 if e >= 0 else 0) + _eff(ev.get("dec", 0)) >= 19:
            return "numeric/AppendDecimal/int64-overflow"
        if ev.get("neg") and 45 not in o and o and all(x == 46 or 48 <= x <= 57 for x in o):
            return "numeric/AppendDecimal/sign-lost"
        return "numeric/AppendDecimal/wrong-result"
    if call == "AppendFloat":
        if cls == "fin" and _eff(ev.get("prec", 0)) - e >= 309:
            return "numeric/AppendFloat/tiny/pow10-overflow"
        if 46 in o and 101 not in o and 69 not in o and o and o[-1] == 48:
            return "numeric/AppendFloat/exponent-zeros-after-dot"
        return "numeric/AppendFloat/wrong-result"
    return "numeric/%s/wrong-result" % call


def describe(ev):
    call = ev.get("ev")
    if call.startswith("Parse"):
        s = "%s(%r) = (n=%s" % (call, _txt(ev.get("b", [])), ev.get("n"))
        if "cls" in ev:
            s += ", %s%s %s e%s; strconv.ParseFloat of the prefix: %s %s%s %s e%s)" % (
                "-" if ev.get("neg") else "", ev.get("cls"), "".join(map(str, ev.get("m", []))), ev.get("e"), ev.get("rerr"),
                "-" if ev.get("rneg") else "", ev.get("rcls"), "".join(map(str, ev.get("rm", []))), ev.get("re"))
        else:
            s += ", %s%s)" % ("-" if ev.get("neg") else "", "".join(map(str, ev.get("d", []))))
        return s
    arg = ""
    if call in ("AppendFloat", "AppendDecimal"):
        arg = "%s%s %s e%s" % ("-" if ev.get("neg") else "", ev.get("cls"), "".join(map(str, ev.get("m", []))), ev.get("e"))
        if ev.get("short"):
            arg += " (= %s%se-%s)" % ("-" if ev.get("neg") else "", "".join(map(str, ev.get("sd", []))), ev.get("ss"))
        arg += ", %s" % ev.get("prec", ev.get("dec"))
    else:
        arg = "%s%s" % ("-" if ev.get("neg") else "", "".join(map(str, ev.get("d", []))))
        if call == "AppendNumber":
            arg += ", dec=%s, groupSize=%s, groupSym=U+%04X, decSym=U+%04X" % (ev.get("dec"), ev.get("gs"), ev.get("gr", 0), ev.get("dr", 0))
    s = "%s(dst[spare=%s], %s) appended \"%s\"" % (call, ev.get("spare"), arg, _show(ev.get("o", [])))
    if call == "AppendNumber":
        s += " (%s bytes); ParseNumber of it = (%s%s, %s, %s)" % (ev.get("olen"), "-" if ev.get("pneg") else "",
                                                              "".join(map(str, ev.get("pd", []))), ev.get("pdec"), ev.get("pn"))
    if call == "AppendInt":
        s += ", strconv.AppendInt \"%s\", LenInt %s" % (_show(ev.get("std", [])), ev.get("len"))
    if not ev.get("pk", True):
        s += "; bytes already in dst were changed"
    return s


def _event(f):
    return next((x for x in f["trace"] if x["i"] == f["i"]), {})


def judge(ck, fails, origin):
    """Group rejected events by signature; re-execute one representative per new signature (all in one harness run and
    one TLC run) and report those that are rejected again."""
    fresh = {}
    for f in fails:
        ev = _event(f)
        sig = sig_of(ev)
        if sig in ck.violations or sig in ck.known_hits or sig in fresh:
            if sig in fresh:
                fresh[sig][2] += 1
            else:
                ck.violation(sig, "", {})   # counted, not re-examined
            continue
        fresh[sig] = [f, ev, 0]
    if not fresh:
        return
    sigs = list(fresh)
    tp = ck.path("rerun-in.json")
    json.dump([fresh[s][0]["trace"] for s in sigs], open(tp, "w"))
    ck.drive("numeric", "rerun", "-trace", tp, "-out", ck.path("rerun.ndjson"))
    before = ck.cov["traces_validated_against_impl"]
    again = {f["t"] for f in ck.validate(SUB, TMOD, TCFG, ck.path("rerun.ndjson"), shards=1)}
    ck.cov["traces_validated_against_impl"] = before
    for k, sig in enumerate(sigs):
        f, ev, more = fresh[sig]
        if (k + 1) not in again:
            ck.fatal("rejected trace did not reproduce: %s: %s" % (sig, describe(ev)))
        ck.violation(sig, "%s: rejected by Numeric.tla" % describe(ev),
                     {"suite": "numeric", "origin": origin, "trace": f["trace"], "rejected_event_index": f["i"],
                      "how": "bin/check C14 --replay <this file> re-executes the call of 'trace' on /repo and validates it with spec/strconv/NumericTrace.tla"})
        for _ in range(more):
            ck.violation(sig, "", {})


def run(ck):
    thorough = ck.tier == "thorough"
    cfg = "MC_thorough.cfg" if thorough else "MC_quick.cfg"
    cases = ck.path("cases.ndjson")
    ck.tlc(SUB, "NumericGen", cfg, label="enumeration of inputs with the expectations of Numeric.tla", env={"VERIF_CASES": cases},
           timeout=3000, heap="8g")
    ck.cov["exhaustive"] = True
    ck.cov["constants"] = {"cfg": cfg, "Symbols": "+ - 0 1 5 9 . e E x", "MaxLen": 6 if thorough else 5,
                           "FmtDigits": [0, 1, 2, 4, 5, 6, 9] if thorough else [0, 1, 5, 9], "FmtMaxLen": 4, "FmtScales": "0..6",
                           "dec/prec": "-1..18", "GroupSizes": "0..6", "SymLens": "1..4"}
    s1 = ck.drive("numeric", "replay", "-cases", cases, "-out", ck.path("replay.ndjson"), "-outm", ck.path("replay-diff.ndjson"),
                  "-sample", 60 if thorough else 25, "-spellings", 3, "-cap", 12, "-seed", ck.seed)
    if s1["cases"] == 0 or s1["by_kind"].get("parse", 0) == 0:
        ck.fatal("generator produced no cases")
    ck.log("replayed %d cases, %d executions, %d differ from the generated expectation (%d classes)" % (
        s1["cases"], s1["executions"], s1["mismatches"], s1.get("mismatch_classes", 0)))
    n = 60000 if thorough else 4000
    s2 = ck.drive("numeric", "record", "-n", n, "-seed", ck.seed, "-out", ck.path("record.ndjson"))
    ck.cov["evaluations"] = s1["executions"] + s2["executions"]
    ck.cov["distinct_nontrivial"] = s1["distinct_nontrivial"] + s2["distinct_nontrivial"]
    ck.cov["rule"] = ("replay: every case TLC emitted (all symbol strings up to MaxLen, boundary families, formatting arguments) run on the "
                      "code, strings containing x in 3 seeded spellings, each against all four parsers; non-trivial = distinct abstract "
                      "case in which some parser consumes a number / the formatted text has more than one byte. record: seeded random "
                      "calls; non-trivial = distinct (call, arguments), parsers only when a number was consumed")
    ck.cov["samples"] = (s1.get("samples") or [])[:2] + (s2.get("samples") or [])[:1]
    ck.cov["by_call"] = {"replay": s1.get("by_call"), "record": s2.get("by_call")}
    if s1["mismatches"]:
        ck.cov["model_drift"] = (s1.get("drift_samples") or [])[:3]
    judge(ck, ck.validate(SUB, TMOD, TCFG, ck.path("replay-diff.ndjson"), shards=8), "replayed generator case that differs from the expectation")
    judge(ck, ck.validate(SUB, TMOD, TCFG, ck.path("replay.ndjson"), shards=ck.cores), "replayed generator case (sample)")
    judge(ck, ck.validate(SUB, TMOD, TCFG, ck.path("record.ndjson"), shards=64 if thorough else 16), "recorded random call")
    ck.assumptions += [
        "alphabet of the exhaustive part: + - 0 1 5 9 . e E and x (any other byte, concretised from 20 spellings by the seed)",
        "ParseFloat/ParseDecimal: the 1e-14 clause is decided as |A-B| <= (first digit of B)+2 on the first 15 significant digits "
        "(sound: never rejects a result within 1e-14; rejects every relative error above 1.2e-13); reference = strconv.ParseFloat "
        "of the consumed prefix, and the exact decimal value where its float64 is certainly normal (1e-300..1e300)",
        "ParseDecimal: nothing is demanded for inputs that do not begin with a decimal number (e.g. '+1', '-', '.')",
        "AppendFloat: 'within the requested number of digits' is read as agreement on the first min(prec,15) significant digits "
        "(the code documents prec+1 digits but emits one fewer for arguments whose leading digit is 8 or 9, e.g. AppendFloat(98.7654321, 2) "
        "= \"98\"; that is not claimed as a violation)",
        "AppendDecimal: value decided exactly for short decimals whose scaled value has at most 15 digits, with one unit per further "
        "digit beyond (float64 cannot distinguish more); ties only when exactly representable in binary; for random float64 the "
        "17-digit projection is compared with a tolerance of one unit of the requested decimals",
        "AppendNumber: only the round trip through ParseNumber and the prefix are demanded (the layout the generator computes is "
        "compared too, but a different layout that round-trips would be reported as model drift, not as a violation); group and "
        "decimal symbols are never digits or '-'",
    ]


def replay(ck, path):
    obj = json.load(open(path))
    tp = ck.path("rerun-in.json")
    json.dump(obj["trace"], open(tp, "w"))
    ck.drive("numeric", "rerun", "-trace", tp, "-out", ck.path("rerun.ndjson"))
    fails = ck.validate(SUB, TMOD, TCFG, ck.path("rerun.ndjson"), shards=1)
    ck.cov["samples"] = [obj["trace"][:3]]
    ck.cov["evaluations"] = 1
    for f in fails:
        ev = _event(f)
        ck.violation(sig_of(ev), "replayed call rejected: %s" % describe(ev), {"suite": "numeric", "trace": f["trace"], "rejected_event_index": f["i"]})
