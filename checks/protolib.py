"""Shared steps of C01 (NextProtocol) and C02 (TokenStream): both judge the traces of harness/suites/lexers."""
import json
import os


def record_all(ck, thorough):
    """TLC enumerates all class strings; the harness runs them and the harvested test literals; returns trace paths."""
    cfg = "AllStrings_thorough.cfg" if thorough else "AllStrings_quick.cfg"
    cases = ck.path("strings.ndjson")
    ck.tlc("proto", "AllStrings", cfg, label="generator: all class strings per language family", env={"VERIF_CASES": cases}, timeout=1800)
    ck.cov["exhaustive"] = True
    ck.cov["constants"]["AllStrings"] = cfg
    s1 = ck.drive("lexers", "classes", "-cases", cases, "-out", ck.path("classes.ndjson"), "-seed", ck.seed, timeout=3000)
    if s1["cases"] == 0:
        ck.fatal("generator produced no strings")
    s2 = ck.drive("lexers", "harvest", "-out", ck.path("harvest.ndjson"), "-seed", ck.seed, "-per", 600 if thorough else 120,
                  "-muts", 10 if thorough else 5, timeout=3000)
    ck.cov["evaluations"] += s1["executions"] + s2["executions"]
    ck.cov["distinct_nontrivial"] += s1["distinct_nontrivial"] + s2["distinct_nontrivial"]
    ck.cov["samples"] += (s1.get("samples") or [])[:2] + (s2.get("samples") or [])[:1]
    ck.cov["rule"] += ("classes: every string of character classes up to the bound (TLC, AllStrings.tla), concretised by seed, through every "
                       "entry point of its family (css lexer/parser/inline parser, html + 6 template dialects, xml, json, js lexer with and "
                       "without RegExp(), js.Parse x 4 Options), the caller continuing after errors and after the end; harvest: string literals "
                       "of the repository's *_test.go files plus seeded truncations/substitutions/insertions; non-trivial = distinct "
                       "(entry point, input) that produced at least two non-error reports. ")
    return [ck.path("classes.ndjson"), ck.path("harvest.ndjson")]


def input_of(trace):
    o = trace[0]
    return o.get("lang"), o.get("input")


def reproduce(ck, trace, module, cfg):
    """Re-run the input of a rejected trace; True if it is rejected again."""
    lang, inp = input_of(trace)
    if inp is None:
        return None
    p = ck.path("rerun-in.ndjson")
    with open(p, "w") as f:
        f.write(json.dumps({"lang": lang, "input": inp}) + "\n")
    ck.drive("lexers", "file", "-in", p, "-out", ck.path("rerun.ndjson"))
    again = ck.validate("proto", module, cfg, ck.path("rerun.ndjson"), shards=1)
    ck.cov["traces_validated_against_impl"] -= 1
    return bool(again)


def as_text(inp):
    if inp is None:
        return None
    try:
        return bytes(inp).decode("utf-8")
    except Exception:
        return repr(bytes(inp))
