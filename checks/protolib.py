"""Shared steps of C01 (NextProtocol) and C02 (TokenStream): both judge the traces of harness/suites/lexers."""
import json
import os


def record_all(ck, thorough):
    """TLC enumerates all class strings; the harness runs them and the harvested test literals; returns trace paths."""
    cfg = "AllStrings_thorough.cfg" if thorough else "AllStrings_quick.cfg"
    cases = ck.path("strings.ndjson")
    ck.tlc("proto", "AllStrings", cfg, label="generator: all class strings per language family", env={"VERIF_CASES": cases}, timeout=1800)
    ck.cov["exhaustive"] = True
    ck.cov["constants"]["AllStrings"] = cfg
    s1 = ck.drive("lexers", "classes", "-cases", cases, "-out", ck.path("classes.ndjson"), "-seed", ck.seed, timeout=3000)
    if s1["cases"] == 0:
        ck.fatal("generator produced no strings")
    s2 = ck.drive("lexers", "harvest", "-out", ck.path("harvest.ndjson"), "-seed", ck.seed, "-per", 600 if thorough else 120,
                  "-muts", 10 if thorough else 5, timeout=3000)
    ck.cov["evaluations"] += s1["executions"] + s2["executions"]
    ck.cov["distinct_nontrivial"] += s1["distinct_nontrivial"] + s2["distinct_nontrivial"]
    ck.cov["samples"] += (s1.get("samples") or [])[:2] + (s2.get("samples") or [])[:1]
    ck.cov["rule"] += ("classes: every string of character classes up to the bound (TLC, AllStrings.tla), concretised by seed, through every "
                       "entry point of its family (css lexer/parser/inline parser, html + 6 template dialects, xml, json, js lexer with and "
                       "without RegExp(), js.Parse x 4 Options), the caller continuing after errors and after the end; harvest: string literals "
                       "of the repository's *_test.go files plus seeded truncations/substitutions/insertions; non-trivial = distinct "
                       "(entry point, input) that produced at least two non-error reports. ")
    paths = [ck.path("classes.ndjson"), ck.path("harvest.ndjson")]
    paths += generator_documents(ck, thorough)
    return paths


# (suite, spec dir, module, quick cfg, thorough cfg, extra flags of `<suite> inputs`)
GENERATORS = [
    ("csstok", "css", "CssTokensGen", "Gen_seps.cfg", "Gen_pairs.cfg", ["-every", "3"]),
    ("jstok", "js", "JsTokensGen", None, "Gen_seps.cfg", ["-every", "3"]),      # slow generator: thorough tier only
    ("htmldoc", "html", "HtmlDoc", "Gen_html_quick.cfg", "Gen_html_thorough.cfg", []),
    ("htmldoc", "html", "HtmlDoc", "Gen_tmpl_quick.cfg", "Gen_tmpl_thorough.cfg", []),
    ("xmldoc", "xml", "XmlDoc", "Gen_quick.cfg", "Gen_thorough.cfg", []),
    ("jsgram", "js", "JsGrammar", "G_stmt1.cfg", "G_stmt2.cfg", []),
]


def generator_documents(ck, thorough):
    """Documents of the token / document grammar generators (with their seeded truncations and substitutions) through every
    entry point of their family.  A generator that is not there (or fails) is skipped and named in the evidence notes."""
    out = []
    import vcheck
    for k, (suite, sdir, module, qcfg, tcfg, flags) in enumerate(GENERATORS):
        cfg = tcfg if thorough else qcfg
        if cfg is None:
            continue
        if not os.path.exists(os.path.join(vcheck.SPEC, sdir, module + ".tla")) or not os.path.exists(os.path.join(vcheck.SPEC, sdir, cfg)):
            ck.notes.append("generator %s/%s %s not available: skipped" % (sdir, module, cfg))
            continue
        cases = ck.path("gen-%d.ndjson" % k)
        try:
            ck.tlc(sdir, module, cfg, label="generator documents for the protocol checks: %s %s" % (module, cfg), env={"VERIF_CASES": cases, "VERIF_SEED": ck.seed},
                   timeout=(1800 if thorough else 600), count=False, lib_dirs=(vcheck.COMMON,) + tuple(os.path.join(vcheck.SPEC, d) for d in ("cursor",)))
            inp = ck.path("gen-%d-inputs.ndjson" % k)
            s = ck.drive(suite, "inputs", "-cases", cases, "-out", inp, "-seed", ck.seed, *flags, timeout=1200)
            # cap the number of documents (deterministic stride) and give documents without a language their suite's default
            lines = open(inp).read().split("\n")
            lines = [x for x in lines if x.strip()]
            cap = 60000 if thorough else 9000
            stride = max(1, len(lines) // cap)
            with open(inp, "w") as f:
                for x in lines[::stride]:
                    if '"lang"' not in x:
                        o = json.loads(x)
                        o["lang"] = {"jsgram": "js.parse"}.get(suite, "")
                        x = json.dumps(o, separators=(",", ":"))
                    f.write(x + "\n")
            tp = ck.path("gen-%d-trace.ndjson" % k)
            s2 = ck.drive("lexers", "file", "-in", inp, "-out", tp, "-family", timeout=3000)
        except vcheck.Fatal as ex:
            ck.notes.append("generator %s %s skipped: %s" % (module, cfg, str(ex)[:200]))
            continue
        ck.cov["evaluations"] += s2["executions"]
        ck.cov["distinct_nontrivial"] += s2["distinct_nontrivial"]
        ck.cov["samples"] += (s2.get("samples") or [])[:1]
        out.append(tp)
    ck.cov["rule"] += ("generators: the documents of the token/document grammar suites (CSS and JS token sequences, HTML and XML documents, JS programs) with "
                       "their seeded truncations and byte substitutions, through every entry point of the family. ")
    return out


def hangs(ck):
    """Calls that did not return (the drivers' watchdog): no action of NextProtocol explains them."""
    out = []
    for h in getattr(ck, "hangs", []):
        c = (h.get("hang") or {}).get("case") or {}
        out.append((c.get("lang", "?"), c.get("input")))
    return out


def input_of(trace):
    o = trace[0]
    return o.get("lang"), o.get("input")


def reproduce(ck, trace, module, cfg):
    """Re-run the input of a rejected trace; True if it is rejected again."""
    lang, inp = input_of(trace)
    if inp is None:
        return None
    p = ck.path("rerun-in.ndjson")
    with open(p, "w") as f:
        f.write(json.dumps({"lang": lang, "input": inp}) + "\n")
    ck.drive("lexers", "file", "-in", p, "-out", ck.path("rerun.ndjson"))
    again = ck.validate("proto", module, cfg, ck.path("rerun.ndjson"), shards=1)
    ck.cov["traces_validated_against_impl"] -= 1
    return bool(again)


def as_text(inp):
    if inp is None:
        return None
    try:
        return bytes(inp).decode("utf-8")
    except Exception:
        return repr(bytes(inp))
