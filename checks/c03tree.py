"""C03, code -> spec direction ("JsTreeTrace", DESIGN.md §4 C03): the tree js.Parse RETURNS for arbitrary accepted inputs, judged by TLC.

T    spec/js/JsTreeTrace.tla   INSTANCEs JsGrammar.tla and validates, for every accepted program, the nodes of the returned tree in pre-order:
                               YIELD   the terminals of the tree in order are exactly the significant tokens js.Lexer gives for the input
                               LADDER  every operand fits the level the grammar demands (JsGrammar's own Level / ChildReq / ChildNoIn / Fits)
                               TARGET / CONTEXT  optional chains as targets, [Return] [Yield] [Await], declarations as bodies
harness/suites/jsgram/tree.go  transcribes the tree (every node type of js/ast.go; an unknown type is fatal) and lexes the input independently

Inputs: every string literal of the repository's js tests, programs of the jsgram (JsGrammar.tla), scope (ScopeSem.tla) and printer (PrinterGen.tla)
generators, and seeded token-level mutations of all of them (token deleted / duplicated / swapped, line break inserted, parentheses removed / added);
whatever js.Parse accepts is judged.

Verdicts follow the letter of C03: a rejected tree of a DERIVABLE input (un-mutated program of a generator specification) is a violation; a rejected tree of
any other input (test literal, mutation - nothing says it was derivable, and the statement is silent about ill-formed inputs outside its three listed kinds)
is reported with ck.beyond as a NOTE, same signature, exit code unaffected.
"""
import concurrent.futures
import glob
import json
import os
import re

import vcheck

KEYWORDS = set("""await break case catch class const continue debugger default delete do else enum export extends false finally for function if import in
instanceof new null return super switch this throw true try typeof var void while with yield let static async get set of as from target meta""".split())

# every kind the encoder can emit must occur in a quick run (otherwise the step says nothing about that node type)
KINDS = set("""prog blk empty expr if ife dow while with for forin forof forawait sw case def brk cont ret0 ret label throw try dbg import export directive comment
var dc dci fdecl cdecl id lit arr spread obj pkv pcomp pshi pspread pmeth tpl tag grp idx oidx dot odot pdot opdot nt im newx newa call ocall un pre post bin asg
cond yield0 yield yields arrowb comma fn fnn cls clsn ps bid bdef barr bobj bpkv bpcomp meth smeth cmeth field sfield pfield cfield sblock""".split())
RARE = {"otag"}     # `a?.`t``: only the repository's own test literals have it


def tok_class(names, n):
    """how a token enters a signature: punctuators and keywords as themselves, anything else by its class"""
    if n == 0:
        return "<end>"
    text = names[n - 1] if 0 < n <= len(names) else "?"
    if text in ("/", "/="):
        return "slash" + text[1:]
    if re.fullmatch(r"[A-Za-z_$][A-Za-z0-9_$]*", text):
        return text if text in KEYWORDS else "<name>"
    if text[:1] == "#":
        return "<name>"
    if text[:1] in "\"'`0123456789" or (text[:1] == "}" and len(text) > 1) or (text[:1] == "/" and len(text) > 2) or (text[:1] == "." and text[1:2].isdigit()):
        return "<lit>"
    if re.fullmatch(r"[^\x00-\x7f\\]+.*|\\u.*", text):
        return "<name>"
    return text


CLASS_ELEMENT = {"meth", "smeth", "cmeth", "field", "sfield", "pfield", "cfield", "sblock"}
PROPERTY = {"pkv", "pcomp", "pshi", "pspread", "pmeth"}
MODIFIERS = {"async": "async", "*": "star", "get": "get", "set": "set", "static": "static"}


def parent_kind(trace, i):
    """kind of the parent of the node logged as event i (pre-order with depths)"""
    ev = next((x for x in trace if x["i"] == i), None)
    if not ev or ev.get("ev") != "Node":
        return ""
    for x in reversed([x for x in trace if x["i"] < i and x.get("ev") == "Node"]):
        if x["d"] == ev["d"] - 1:
            return x["k"]
    return ""


def sig_of(raw, names, trace=(), i=-1):
    """raw signature of JsTreeTrace.tla -> finding signature jstree/<parent kind:op>/<child kind:op>/<what> or jstree/yield/<what>"""
    if raw.startswith("yield/"):
        _, node, item, tok = raw.split("/")
        item, tok = int(item), int(tok)
        kind = node.split(":")[0]
        if kind in ("id", "lit", "bid"):        # a leaf: say where it stands
            kind = parent_kind(trace, i) + ">" + kind
        inp = tok_class(names, tok)
        if item % 16 == 12:      # a restricted production: the tree joins what a line terminator separates
            return "jstree/yield/%s/line-terminator-before/%s" % (kind, inp)
        tree = "<end>" if item == 0 else tok_class(names, item // 16)
        k0 = kind.split(">")[0]
        if k0 == "ps" and inp in MODIFIERS and parent_kind(trace, i) in CLASS_ELEMENT | PROPERTY:
            # `async <line break> async(){}`: the kept member's name matched the modifier-like name that was dropped, the mismatch shows at its parameter list
            k0 = parent_kind(trace, i)
        fam = "class-element" if k0 in CLASS_ELEMENT else "property" if k0 in PROPERTY else kind
        if fam in ("class-element", "property") and inp in MODIFIERS:
            # the input has a modifier (async, *, get, set, static) where the tree goes on with something else: the member was kept without it
            return "jstree/yield/%s/modifier-not-in-tree/%s" % (fam, MODIFIERS[inp])
        return "jstree/yield/%s/tree:%s/input:%s" % (fam, tree, inp)
    return "jstree/" + raw


def text(b):
    return bytes(b or []).decode("utf-8", "replace")


def explain(ck, src):
    p = ck.path("tree-explain.ndjson")
    with open(p, "w") as f:
        f.write(json.dumps({"src": src}) + "\n")
    import subprocess
    r = subprocess.run([ck.vdrive, "jsgram", "treefile", "-in", p, "-out", ck.path("tree-explain.trace"), "-explain"], capture_output=True, text=True, timeout=600)
    return "\n".join(r.stdout.strip().split("\n")[:-1])


def reproduce(ck, srcs):
    """parse the inputs again and validate their traces again (one run for all): -> per input the finding signature that came back, or None"""
    p = ck.path("tree-rerun-in.ndjson")
    with open(p, "w") as f:
        for src in srcs:
            f.write(json.dumps({"src": src}) + "\n")
    ck.drive("jsgram", "treefile", "-in", p, "-out", ck.path("tree-rerun.ndjson"), "-dict", ck.path("tree-rerun.dict"))
    out = [None] * len(srcs)
    if os.path.getsize(ck.path("tree-rerun.ndjson")) == 0:
        return out
    before = ck.cov["traces_validated_against_impl"]
    again = ck.validate("js", "JsTreeTrace", "JsTreeTrace.cfg", ck.path("tree-rerun.ndjson"), shards=1, timeout=1800)
    ck.cov["traces_validated_against_impl"] = before
    names = {}
    for line in open(ck.path("tree-rerun.dict")):
        o = json.loads(line)
        names[o["t"]] = o["names"]
    for f in again:          # trace ids of treefile are the line numbers of its input
        out[f["t"] - 1] = (f["sig"], sig_of(f["sig"], names[f["t"]], f["trace"], f["i"]))
    return out


def what_of(sig, src, ev, expl):
    t = "js.Parse(%s) returns a tree" % json.dumps(text(src))
    if sig.startswith("jstree/yield/"):
        parts = sig.split("/")
        if parts[3] == "line-terminator-before":
            t += (" that joins what a line terminator separates: in the %s node the grammar has [no LineTerminator here] before %s, the input has a line break there "
                  "(automatic semicolon insertion ends the statement before it)" % (parts[2], "/".join(parts[4:])))
        elif parts[3] == "modifier-not-in-tree":
            t += " that lost a token of the input: the modifier '%s' of a %s is in the input but not in the tree" % (parts[4].replace("star", "*"), parts[2])
        else:
            t += (" whose terminals are not the tokens of the input: at a %s node the tree has %s where the input has %s "
                  "(the parser dropped, invented or moved a token)" % (parts[2], "/".join(parts[3:-1])[5:], parts[-1][6:]))
    else:
        _, parent, child, what = sig.split("/", 3)
        t += " that the grammar does not derive: %s under %s: %s" % (child, parent, what.replace("-", " "))
    return t + "; node event %s rejected by spec/js/JsTreeTrace.tla\n%s" % (json.dumps({k: ev.get(k) for k in ("i", "d", "k", "op", "ck")}), expl)


def judge(ck, fails, names_of):
    """Property C03 speaks about programs DERIVED from the grammar (and about three listed kinds of ill-formed ones, which the generator step makes itself).
    A rejected tree of a "derivable" input - an un-mutated program that JsGrammar / ScopeSem (verdict accepted) / PrinterGen derives - is a violation of C03.
    A rejected tree of any other input (a test literal, a seeded mutation): js.Parse accepted something and the tree is off, but nothing says the input was
    derivable; the statement is silent about it: reported as a beyond-property NOTE (ck.beyond), same signature, never a violation."""
    fails.sort(key=lambda f: (len(f["trace"][0].get("src") or []), f["t"]))
    groups = {}                      # (signature, derivable?) -> rejected traces, shortest input first
    for f in fails:
        raw = f.get("sig", "")
        o = f["trace"][0]
        if raw.startswith("trace/") or not raw:
            ck.fatal("JsTreeTrace: malformed trace (%s) for %s" % (raw, json.dumps(text(o.get("src")))))
        names = names_of.get(f["t"])
        if names is None:
            ck.fatal("no token texts recorded for trace %s" % f["t"])
        groups.setdefault((sig_of(raw, names, f["trace"], f["i"]), bool(o.get("der"))), []).append(f)
    keys = sorted(groups, key=lambda k: (not k[1], k[0]))
    back = reproduce(ck, [groups[k][0]["trace"][0]["src"] for k in keys])      # the shortest input of every distinct (signature, class)
    for (sig, der), again in zip(keys, back):
        f = groups[(sig, der)][0]
        o = f["trace"][0]
        if again is None or again != (f["sig"], sig):
            ck.fatal("rejected tree trace did not reproduce: %s (%s) on %s" % (sig, again, json.dumps(text(o["src"]))))
        ev = next((x for x in f["trace"] if x["i"] == f["i"]), {})
        what = what_of(sig, o["src"], ev, explain(ck, o["src"]))
        obj = {"suite": "jstree", "origin": o.get("origin"), "derivable": der, "src": o["src"], "text": text(o["src"]), "raw": f["sig"], "rejected_event_index": f["i"],
               "how": "bin/check C03 --replay <this file> parses 'src' again, transcribes the returned tree and validates the trace with spec/js/JsTreeTrace.tla"}
        if der:
            ck.violation(sig, "input derived by the %s generator: %s" % (o.get("origin"), what), obj)
            for _ in groups[(sig, der)][1:]:
                ck.violation(sig, "", {})
        else:
            ck.beyond(sig, "input not known to be derivable (%s): %s" % (o.get("origin"), what.split("\n")[0]), obj)
            for _ in groups[(sig, der)][1:]:
                ck.beyond(sig, "", {})
    return sum(len(v) for k, v in groups.items() if k[1]), sum(len(v) for k, v in groups.items() if not k[1])


def selftest(ck):
    """binding: a correct trace is accepted, and corrupting one recorded field (an operator, a token of the input, a context) makes JsTreeTrace.tla reject it"""
    p = ck.path("tree-self-in.ndjson")
    with open(p, "w") as f:
        f.write(json.dumps({"src": list(b"x = a + b * c ;\nfor ( y = ( p in q ) ; ; ) ;\nfunction f ( ) { return 1 }")}) + "\n")
    ck.drive("jsgram", "treefile", "-in", p, "-out", ck.path("tree-self.ndjson"))
    evs = [json.loads(x) for x in open(ck.path("tree-self.ndjson"))]
    if len(evs) < 20:
        ck.fatal("tree self-test: the sample program was not accepted")

    def variant(t, fn):
        out = []
        for e in evs:
            e = fn(json.loads(json.dumps(e)))
            e["t"] = t
            out.append(e)
        return out

    def swap_ops(e):
        if e.get("k") == "bin" and e["op"] in "+*":
            e["op"] = "*" if e["op"] == "+" else "+"
        return e

    def drop_token(e):
        if e["ev"] == "Open":
            del e["toks"][5], e["alt"][5], e["nl"][5]
        return e

    def no_function_context(e):
        if e.get("k") == "fdecl":
            e["fx"] = ""
        return e

    def bare_in(e):       # the parentheses around `p in q` taken out of the tree (kind of the node only; its terminals stay)
        if e.get("k") == "grp":
            e["k"] = "comma"
        return e
    with open(ck.path("tree-self-all.ndjson"), "w") as f:
        for t, fn in enumerate((lambda e: e, swap_ops, drop_token, no_function_context, bare_in), 1):
            for e in variant(t, fn):
                f.write(json.dumps(e, separators=(",", ":")) + "\n")
    before = ck.cov["traces_validated_against_impl"]
    fails = ck.validate("js", "JsTreeTrace", "JsTreeTrace.cfg", ck.path("tree-self-all.ndjson"), shards=1, timeout=1800)
    ck.cov["traces_validated_against_impl"] = before
    got = {f["t"]: f["sig"] for f in fails}
    if 1 in got:      # the tree js.Parse returns for the sample program is itself rejected: not a matter of the self-test, the run below reports it
        ck.notes.append("tree self-test skipped: the unmodified trace of its sample program is rejected (%s)" % got[1])
        return
    want = {2: "bin:*/bin:+/operand-below-the-demanded-level", 3: "yield/", 4: "ctx:top/ret:/return-outside-function", 5: "comma:/bin:in/in-operator-where-the-grammar-excludes-it"}
    if set(got) != set(want) or any(not got[t].startswith(w) for t, w in want.items()):
        ck.fatal("tree self-test: corrupted traces were judged %s, expected %s" % (got, want))


def other_generators(ck, thorough):
    """programs of the scope (C04) and printer (C05) generators as further inputs.  Best effort: these suites belong to other checks; if one of
    them does not run, the tree check goes on without its programs and says so."""
    def one(item):
        module, cfg, suite, num = item
        cases = ck.path("tree-%s-cases.ndjson" % suite)
        progs = ck.path("tree-%s-programs.ndjson" % suite)
        try:
            ck.tlc("js", module, cfg, label="%s programs as inputs of the tree check (-simulate)" % module, env={"VERIF_CASES": cases}, timeout=1800,
                   simulate=num, depth=12, seed=ck.seed, workers=1, count=False, heap="3g")
            s = ck.drive(suite, "replay", "-cases", cases, "-out", ck.path("tree-%s-trace.ndjson" % suite), "-sample", 100000000, "-inputs", progs, timeout=1800, check=False)
            if s.get("_rc") != 0 or not os.path.exists(progs):
                raise vcheck.Fatal("vdrive %s replay rc=%s: %s" % (suite, s.get("_rc"), (s.get("_stderr") or "")[:200]))
        except vcheck.Fatal as ex:
            ck.notes.append("tree check: no programs of the %s generator (%s)" % (suite, str(ex)[:300]))
            progs = None
        for p in (cases, ck.path("tree-%s-trace.ndjson" % suite)):
            if os.path.exists(p):
                os.remove(p)
        return progs
    plan = [("ScopeSem", "ScopeSem_sim.cfg", "scope", 1500 if thorough else 150), ("PrinterGen", "PrinterGen_sim.cfg", "printer", 6000 if thorough else 600)]
    with concurrent.futures.ThreadPoolExecutor(max_workers=2) as ex:
        return [p for p in ex.map(one, plan) if p]


def run(ck, thorough):
    selftest(ck)
    extra = other_generators(ck, thorough)
    cases = sorted(glob.glob(ck.path("cases-*.ndjson")))       # what the generator step of C03 left behind
    if not cases:
        ck.fatal("tree check: no generated programs of JsGrammar.tla found")
    trace, dic = ck.path("tree-trace.ndjson"), ck.path("tree-trace.dict")
    s = ck.drive("jsgram", "tree", "-cases", ",".join(cases), "-extra", ",".join(extra), "-out", trace, "-dict", dic, "-seed", ck.seed,
                 "-percases", 2500 if thorough else 160, "-boost", "cases-expr", "-perextra", 4000 if thorough else 300, "-muts", 8 if thorough else 4,
                 "-maxevents", 2400000 if thorough else 200000, timeout=3000)
    if not s.get("accepted") or s.get("harvested", 0) < 500:
        ck.fatal("tree check: too few inputs (%s)" % {k: s.get(k) for k in ("harvested", "base", "accepted")})
    ck.log("tree check: %d inputs tried, %d accepted by js.Parse -> %d node events (%s)" % (s["tried"], s["accepted"], s["events"], s.get("by_origin")))
    rejected = (0, 0)
    fails = ck.validate("js", "JsTreeTrace", "JsTreeTrace.cfg", trace, shards=min(6, max(1, s["events"] // 60000 + 1)), timeout=3000)
    if fails:
        want = {f["t"] for f in fails}
        names_of = {}
        for line in open(dic):
            m = re.search(r'"t":(\d+)\}$', line.strip())
            if m and int(m.group(1)) in want:
                names_of[int(m.group(1))] = json.loads(line)["names"]
        rejected = judge(ck, fails, names_of)
    for p in (trace, dic):
        os.remove(p)
    # vacuity (after judging: a parser that no longer produces some node kind at all shows as violations above, not as a failure of the machinery)
    missing = sorted(KINDS - set(s.get("kinds") or {}))
    unknown = sorted(set(s.get("kinds") or {}) - KINDS - RARE)
    if unknown:
        ck.fatal("tree encoder emitted kinds the check does not know: %s" % ", ".join(unknown))
    if missing and not ck.violations:
        ck.fatal("tree check is vacuous for node kinds that no accepted input contained: %s" % ", ".join(missing))
    if missing:
        ck.notes.append("tree check: no accepted input contained the node kinds %s" % ", ".join(missing))
    ck.cov["evaluations"] += s["accepted"]
    ck.cov["tree_check"] = {"inputs_tried": s["tried"], "accepted": s["accepted"], "rejected_by_parse": s["rejected_by_parse"], "node_events": s["nodes"],
                            "by_origin": s.get("by_origin"), "accepted_mutations": s.get("accepted_mutations"), "node_kinds_seen": len(s.get("kinds") or {}),
                            "ast_node_types_handled": s.get("node_types"), "skipped_two_ambiguous_slashes": s.get("skipped_two_ambiguous_slashes"),
                            "lexer_alone_fails": s.get("lexer_alone_fails"), "accepted_derivable": s.get("accepted_derivable"), "rejected_traces": len(fails),
                            "rejected_traces_of_derivable_inputs": rejected[0], "rejected_traces_of_other_inputs": rejected[1]}
    ck.cov["rule"] += (" Tree check (code -> spec): every input js.Parse accepts among the repository's js test literals, a seeded sample of the generated programs of "
                       "JsGrammar / ScopeSem / PrinterGen and seeded single token mutations of all of them; per node of the returned tree one event judged by JsTreeTrace.tla.")
    ck.assumptions += [
        "tree check: where js.Parse's tree does not record a token (';' possibly inserted automatically, braces of a loop body, trailing commas, `a => b` vs "
        "`a => {return b}`, `new a` vs `new a()`, `{a}` vs `{a: a}`, quotes of a property name) the terminal is optional / a group present or absent as a whole; "
        "an input with two or more '/' that only the syntactic grammar can read as division or regular expression is not judged",
        "tree check, verdicts: property C03 speaks about programs derived from the grammar and about three listed kinds of ill-formed programs; a rejected "
        "tree is a VIOLATION only when the input is an un-mutated program that a generator specification derives (JsGrammar accept case, ScopeSem program with "
        "verdict accepted, PrinterGen program); for every other accepted input (test literal, seeded mutation) the statement is silent and a rejected tree is a "
        "beyond-property NOTE with the same signature",
        "tree check: not demanded (ECMA-262 early errors outside the statement's list that js.Parse knowingly does not enforce): labels of break/continue, duplicate "
        "labels / default clauses, declarations as body of a label, ASI legality between statements, non-simple assignment targets other than optional chains",
    ]


def replay(ck, obj):
    ck.cov["samples"] = [{"src": obj.get("text")}]
    ck.cov["evaluations"] = 1
    again = reproduce(ck, [obj["src"]])[0]
    if again:
        ck.violation(again[1], obj.get("what", "replayed program: tree rejected again"), {k: obj.get(k) for k in ("suite", "src", "text")})
