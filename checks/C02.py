"""C02 - Tokens are faithful, ordered, non-empty slices of the input.

P  spec/proto/TokenStream.tla    one step per token: location (by slice address), order, non-emptiness, capacity, allowed edits and gaps,
                                 re-lexing of single tokens (CSS/JS), sub-slices (HTML/XML)
G  spec/proto/AllStrings.tla     all class strings per language (shared with C01)
T  spec/proto/TokenTrace.tla     judges the token-level traces of harness/suites/lexers
"""
import json
import os

import protolib


def classify(f):
    tr = f["trace"]
    ev = next((x for x in tr if x["i"] == f["i"]), {})
    lang = tr[0].get("lang", "?")
    if ev.get("out") != "ret":
        return "token/%s/%s" % (lang, ev.get("out")), ev
    prev_end = 0
    for x in tr:
        if x["i"] >= f["i"]:
            break
        if x.get("ev") == "Next" and x.get("al") and not x.get("err"):
            prev_end = x["hi"]
    if ev.get("err"):
        c = "rejected-error-token"
    elif ev.get("n", 0) == 0:
        c = "empty-token"
    elif not ev.get("al"):
        c = "not-a-slice-of-input"
    elif ev.get("hi") != ev.get("off"):
        c = "does-not-end-at-offset"
    elif ev.get("lo", 0) < prev_end:
        c = "overlaps-previous"
    elif not ev.get("capEq"):
        c = "spare-capacity"
    elif not ev.get("subsIn"):
        c = "sub-slice-outside-token"
    elif ev.get("relex") is False:
        c = "does-not-relex:%s" % ev.get("kname")
    elif tr[0].get("concat") and ev.get("lo") != prev_end:
        c = "bytes-skipped"
    elif ev.get("gap"):
        c = "uncovered-bytes:%s" % "+".join(ev["gap"])
    elif ev.get("edits"):
        c = "bytes-altered:%s" % "+".join(ev["edits"])
    else:
        c = "rejected"
    return "token/%s/%s" % (lang, c), ev


def judge(ck, fails, origin):
    for f in fails:
        sig, ev = classify(f)
        if sig in ck.violations or sig in ck.known_hits:
            ck.violation(sig, "", {})
            continue
        rep = protolib.reproduce(ck, f["trace"], "TokenTrace", "TokenTrace.cfg")
        if rep is False:
            ck.fatal("rejected trace did not reproduce: %s" % sig)
        lang, inp = protolib.input_of(f["trace"])
        ck.violation(sig, "%s on input %s: token %s rejected by TokenStream.tla" % (lang, json.dumps(protolib.as_text(inp)), json.dumps(ev)[:300]),
                     {"suite": "lexers", "origin": origin, "lang": lang, "input": inp, "trace": f["trace"][: f["i"] + 1][-12:],
                      "rejected_event_index": f["i"],
                      "how": "bin/check C02 --replay <this file> lexes the input again and validates the trace with spec/proto/TokenTrace.tla"})


def token_level_only(ck, path):
    """Keep only the traces of token-level lexers (C02 says nothing about the parsers)."""
    out = path + ".tok"
    keep = False
    with open(out, "w") as o:
        for line in open(path):
            if '"ev":"Open"' in line:
                keep = '"tokenLvl":true' in line
            if keep:
                o.write(line)
    return out


def run(ck):
    thorough = ck.tier == "thorough"
    for p in protolib.record_all(ck, thorough):
        judge(ck, ck.validate("proto", "TokenTrace", "TokenTrace.cfg", token_level_only(ck, p), timeout=3000), os.path.basename(p))
    ck.assumptions += ["token location is measured by slice address against the array handed to parse.NewInputBytes",
                       "re-lexing TemplateMiddle/TemplateEnd tokens supplies the minimal template head '`${' as context (DESIGN.md C02 reading)",
                       "JS inputs generated here may contain invalid UTF-8 (classes 'bad'); the statement leaves rune boundaries unspecified there, "
                       "which only matters for the re-lex clause; see known_findings.jsonl if such a case is listed"]


def replay(ck, path):
    obj = json.load(open(path))
    rep = protolib.reproduce(ck, [{"lang": obj["lang"], "input": obj["input"]}], "TokenTrace", "TokenTrace.cfg")
    ck.cov["samples"] = [{"lang": obj["lang"], "input": obj["input"]}]
    ck.cov["evaluations"] = 1
    if rep:
        ck.violation(obj["sig"], obj.get("what", "replayed input rejected again"), {"lang": obj["lang"], "input": obj["input"]})
