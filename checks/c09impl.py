"""C09, growth step (DESIGN.md section 7 item 2): the implementation-shaped model of html.Lexer.Next.

I  spec/html/HtmlImpl.tla   /repo/html/lex.go function by function over a class alphabet (Next with rawTag / inTag, shiftRawText
                            incl. the script double-escape loop, shiftBogusComment, readMarkup, shiftStartTag, shiftXML,
                            shiftAttribute, shiftEndTag, NUL / end of input); template delimiters off.
   1. TLC: I => P for EVERY class string within the bound: RefinesHtml (all-input clauses of html/HtmlStream.tla) and
      RefinesTok (proto/TokenStream.tla as far as expressible on classes); thirteen (prefix, alphabet, suffix) families, each
      aimed at one sub-automaton.  The model runs REPAIRED at the one place where the code is known to break P (AsCoded = {}).
   2. differential replay: TLC writes every string with the predicted token list; `vdrive htmldoc impl` spells the classes
      (by seed), lexes the bytes and compares types, bytes, Text() and AttrVal().  The differing inputs (and a sample of the
      others) are recorded as htmldoc traces and judged by html/HtmlTrace.tla exactly like C09's other traces: a difference
      whose trace the PROPERTY rejects is a candidate violation (reproduced, then ck.violation / KNOWN-FINDING); every other
      difference is MODEL DRIFT (evidence only).
   3. models that TLC must reject: the known deviation as the code has it (HtmlImpl_ascoded_solidus.cfg) and seven plausible
      regressions (HtmlImpl_defect_*.cfg); and one wrong model that no all-input clause can see ('--!>' does not end a comment,
      HtmlImpl_drift_bangend.cfg): TLC accepts it, the replay must report differences (self-test of the replay).
"""
import concurrent.futures
import json
import os

import vcheck

LIBS = (vcheck.COMMON, os.path.join(vcheck.SPEC, "proto"))

# family -> (what it aims at, bound quick, bound thorough); alphabets and prefixes: spec/html/HtmlImpl_<family>_<tier>.cfg
FAMILIES = {
    "tag": ("text / tag-open detection, start tags, attributes", 5, 6),
    "attr": ("inside a start tag: the three attribute value syntaxes", 5, 6),
    "markup": ("comments, bogus comments, doctype, CDATA", 5, 6),
    "rawstart": ("start tag of a raw-text element: attributes, '/', void close, what follows", 5, 6),
    "rawtext": ("raw text after <style>: look-alike end tags, NUL", 5, 6),
    "escape": ("script after <!--: the double-escape loop", 5, 6),
    "escape2": ("script after <!--<script>: double-escaped", 5, 6),
    "foreign": ("shiftXML after <svg ... followed by </svg>x: quotes in the start tag, NUL", 5, 6),
    "foreign2": ("shiftXML after <svg><svg ... followed by </svg>x: nested elements of the same name", 5, 6),
    "all": ("every symbol incl. all word atoms", 3, 4),
    "rawnames": ("all seven raw-text element names: is the content after '>' raw?", 4, 5),
    "escape3": ("script after <!--<script></script>: the double-escape flag reset", 5, 6),
    "comment": ("after <!--: the ends of a comment", 5, 7),
}
# (cfg, property TLC must report, what is modelled)
REJECTED = (
    ("HtmlImpl_ascoded_solidus.cfg", "RefinesHtml", "known deviation as coded: <script/x> is not a raw-text start tag - markup tokens in raw content (HtmlStream!Tok, phase)"),
    ("HtmlImpl_defect_textarea.cfg", "RefinesHtml", "regression: textarea missing from the raw-text list"),
    ("HtmlImpl_defect_intag.cfg", "RefinesHtml", "regression: inTag not cleared at '>' - Attribute tokens outside a tag"),
    ("HtmlImpl_defect_svgintag.cfg", "RefinesHtml", "regression: inTag not cleared after the SVG token"),
    ("HtmlImpl_defect_nameend.cfg", "RefinesHtml", "regression (the code before a02bf8c): any non-letter ends a raw-text end tag name"),
    ("HtmlImpl_defect_nulname.cfg", "RefinesHtml", "regression (the code before 4d24b63): isTagNameEnd accepts any NUL - raw text ends at an end tag that does not match"),
    ("HtmlImpl_defect_anyraw.cfg", "RefinesHtml", "regression: the end tag of ANY raw-text element ends raw text"),
    ("HtmlImpl_defect_emptytext.cfg", "RefinesTok", "regression: empty raw text returned as a Text token (TokenStream!Tok, n > 0)"),
)
KINDS = ("Comment", "Doctype", "StartTag", "StartTagClose", "StartTagVoid", "EndTag", "Attribute", "Text", "SVG", "Math")
VIAS = ("text", "rawtext", "cdata", "comment", "bogus", "doctype", "starttag", "xml", "endtag", "attr-quoted", "attr-unquoted",
        "attr-novalue", "void", "close")
ENDS = ("eof", "eof-in-tag", "nul-in-xml")
DEVS = ("solidus-in-name",)
SOLIDUS_SIG = "htmldoc/any-input/raw/solidus-in-start-tag-name"


def judge(ck, fails):
    """The traces HtmlTrace rejected: what the code did on an input where it differs from the model violates the property."""
    import C09
    for f in fails:
        o = f["trace"][0]
        base, ev = C09.classify(f)
        if o.get("agree"):
            ck.fatal("HtmlImpl: model and code agree on %s, TLC proved the prediction a behaviour of HtmlStream, and HtmlTrace "
                     "rejects it (%s): the class abstraction of the model and the harness disagree" % (json.dumps(C09.as_text(o["input"])), base))
        # the mechanism the model attributes the difference to names the finding; otherwise C09's own signature
        sig = SOLIDUS_SIG if "solidus-in-name" in (o.get("dev") or []) and base.startswith("htmldoc/any-input/raw/") else base
        if sig in ck.violations or sig in ck.known_hits or sig in getattr(ck, "known_alias", {}):
            ck.violation(sig, "", {})
            continue
        line = C09.rerun_line(o)
        again = C09.reproduce(ck, line)
        if not again or C09.classify(again[0])[0] != base:
            ck.fatal("rejected trace did not reproduce: %s" % sig)
        obs = " ".join(x.get("kname", "End") for x in f["trace"][1: f["i"] + 1])
        what = ("html on %s (classes %s): token %d rejected by HtmlStream.tla (%s); observed: %s; the repaired model HtmlImpl.tla predicts: %s" % (
            json.dumps(C09.as_text(o["input"])), " ".join(o.get("cls") or []), f["i"], base.split("/", 2)[-1], obs, o.get("pred")))
        ck.violation(sig, what, {"suite": "htmldoc", "origin": "impl", "rerun": line, "input": o["input"], "lang": o["lang"], "classes": o.get("cls"),
                                 "model_deviation": o.get("dev"), "model_prediction": o.get("pred"), "observed": o.get("obs"),
                                 "trace": f["trace"][1: f["i"] + 1][-8:], "rejected_event_index": f["i"],
                                 "how": "bin/check C09 --replay <this file> lexes the input again and validates the trace with spec/html/HtmlTrace.tla"})


def run(ck, thorough):
    import C09
    tier = "thorough" if thorough else "quick"
    tot = {"cases": 0, "executions": 0, "differences": 0, "rejected_by_property": 0, "drift": 0, "drift_kinds": {}, "drift_samples": []}
    counts = {"kind_count": {}, "via_count": {}, "end_count": {}, "dev_count": {}, "fam_count": {}}

    def model(name):
        cases = ck.path("impl-cases-%s.ndjson" % name)
        ck.tlc("html", "HtmlImpl", "HtmlImpl_%s_%s.cfg" % (name, tier), env={"VERIF_CASES": cases}, lib_dirs=LIBS,
               label="I=>P (RefinesHtml, RefinesTok) + predicted token lists: family '%s' (%s)" % (name, FAMILIES[name][0]),
               workers=3 if thorough else 2, heap="3g" if thorough else "1g", timeout=1500 if thorough else 280)
        C09.sort_cases(cases)   # TLC's workers write in no particular order: trace ids and samples must be reproducible
        # the differential replay of this family runs while TLC is still busy with the others
        tp = ck.path("impl-trace-%s.ndjson" % name)
        s = ck.drive("htmldoc", "impl", "-cases", cases, "-out", tp, "-seed", ck.seed, "-every", 1500 if thorough else 150,
                     "-tid0", 10000000 * (1 + list(FAMILIES).index(name)), timeout=1200)
        os.remove(cases)
        return name, tp, s

    def rejected(d):
        cfg, prop, what = d
        ck.tlc("html", "HtmlImpl", cfg, label="model rejected - " + what, expect_violation=prop, lib_dirs=LIBS, workers=1, heap="512m",
               env={"VERIF_CASES": ck.path("unused")}, timeout=280)

    def wrong_model():
        return ck.tlc("html", "HtmlImpl", "HtmlImpl_drift_bangend.cfg", count=False, lib_dirs=LIBS, workers=1, heap="512m", timeout=280,
                      label="wrong model ('--!>' does not end a comment): satisfies the all-input clauses",
                      env={"VERIF_CASES": ck.path("impl-cases-selftest.ndjson")})

    # the configurations are independent: side by side (thorough: four at a time)
    with concurrent.futures.ThreadPoolExecutor(max_workers=4 if thorough else len(FAMILIES) + len(REJECTED) + 1) as ex:
        first = [ex.submit(model, f) for f in FAMILIES]
        rest = [ex.submit(rejected, d) for d in REJECTED] + [ex.submit(wrong_model)]
        runs = [x.result() for x in first]
        for x in rest:
            x.result()

    all_tp = ck.path("impl-trace.ndjson")
    with open(all_tp, "w") as out:
        for name, tp, s in runs:
            if s["cases"] == 0:
                ck.fatal("HtmlImpl family %s emitted no cases" % name)
            for c in counts:
                for k, v in (s.get(c) or {}).items():
                    counts[c][k] = counts[c].get(k, 0) + v
            ck.cov["evaluations"] += s["executions"]
            ck.cov["distinct_nontrivial"] += s["distinct_nontrivial"]
            tot["cases"] += s["cases"]
            tot["executions"] += s["executions"]
            tot["differences"] += s["mismatches"]
            if name == "escape":
                ck.cov["samples"] += (s.get("samples") or [])[:1]
            out.write(open(tp).read())
    # what the code did on the differing inputs (and on a sample of the agreeing ones) is judged by the property
    fails = ck.validate("html", "HtmlTrace", "HtmlTrace.cfg", all_tp, timeout=1200)
    bad_t = {f["t"] for f in fails}
    for line in open(all_tp):
        if '"diff"' not in line or '"ev":"Open"' not in line:
            continue
        o = json.loads(line)
        if o["t"] in bad_t:
            tot["rejected_by_property"] += 1
            continue
        tot["drift"] += 1
        tot["drift_kinds"][o["diff"]] = tot["drift_kinds"].get(o["diff"], 0) + 1
        if len(tot["drift_samples"]) < 8:
            tot["drift_samples"].append({"family": o.get("fam"), "classes": o.get("cls"), "input": bytes(o["input"]).decode("latin-1"),
                                         "difference": o["diff"], "model": o.get("pred"), "code": o.get("obs")})

    # vacuity: every token type, every returning branch of the code, every kind of end and the repaired branch were predicted
    missing = ([k for k in KINDS if not counts["kind_count"].get(k)] + [k for k in VIAS if not counts["via_count"].get(k)] +
               [k for k in ENDS if not counts["end_count"].get(k)] + [k for k in DEVS if not counts["dev_count"].get(k)] +
               [k for k in FAMILIES if not counts["fam_count"].get(k)])
    if missing:
        ck.fatal("vacuity: HtmlImpl never predicted / never reached: %s" % ", ".join(missing))

    judge(ck, fails)

    # self-test of the replay: a model that is wrong where the property cannot see it must show up as differences
    s = ck.drive("htmldoc", "impl", "-cases", ck.path("impl-cases-selftest.ndjson"), "-out", ck.path("impl-trace-selftest.ndjson"),
                 "-seed", ck.seed, "-every", 0, timeout=600)
    if not s["mismatches"]:
        ck.fatal("self-test: the replay did not notice the wrong comment model (0 differences in %d cases)" % s["cases"])
    tot["selftest_wrong_model_differences"] = s["mismatches"]

    ck.cov["model_drift"] = ck.cov.get("model_drift") or []
    ck.cov["model_drift"].append({"model": "html/HtmlImpl.tla", **tot})
    ck.cov["constants"]["HtmlImpl"] = {"MaxLen": {k: v[2 if thorough else 1] for k, v in FAMILIES.items()}, "families": {k: v[0] for k, v in FAMILIES.items()},
                                       "token_types_predicted": counts["kind_count"], "branches_predicted": counts["via_count"],
                                       "ends_predicted": counts["end_count"], "inputs_on_a_repaired_branch": counts["dev_count"],
                                       "models_rejected_by_TLC": [c for c, _, _ in REJECTED]}
    if tot["drift"]:
        ck.log("MODEL-DRIFT: html.Lexer differs from spec/html/HtmlImpl.tla on %d of %d inputs without breaking the property (%s); "
               "not a verdict - see evidence" % (tot["drift"], tot["executions"], tot["drift_kinds"]))
        ck.notes.append("MODEL-DRIFT HtmlImpl: %d of %d inputs differ (%s)" % (tot["drift"], tot["executions"], tot["drift_kinds"]))
    else:
        ck.log("HtmlImpl: %d inputs replayed; the code differs from the model on %d, all of them rejected by the property (findings); drift 0" % (
            tot["executions"], tot["differences"]))
    ck.assumptions += ["HtmlImpl: template delimiters off; single-character classes are those html/lex.go distinguishes, every other byte is "
                       "class 'other' (spelled by seed, incl. digits, multi-byte and invalid UTF-8); tag-name atoms in random ASCII case; the model stops "
                       "at the first error report like lexers.RunTokens",
                       "HtmlImpl runs repaired where the code is known to break HtmlStream ('/' inside the name of a raw-text start tag): "
                       "there a difference is expected and is judged by HtmlTrace like any other trace"]
