"""C13 - StreamLexer: chunking-independent, unfreed tokens intact, bounded memory.

P  spec/stream/Stream.tla        cursor over the complete stream + Err / Free / ShiftLen / stability / memory rules
I  spec/stream/StreamImpl.tla    streamlexer.go's read()/bufferPool step by step; TLC: I => P on bounded streams,
                                 behaviours of I become replay scenarios (ops + reader schedule)
T  spec/stream/StreamTrace.tla   validates traces of the real StreamLexer (every Reader.Read logged) against P
"""
import json
import os

EXTRA = ("cursor",)


def sig_of(f):
    tr = f["trace"]
    ev = next((x for x in tr if x["i"] == f["i"]), {})
    if ev.get("out") == "panic":
        return "stream/%s/panic" % ev.get("ev"), ev
    if ev.get("broken"):
        kinds = sorted({x["ev"] for x in tr if x.get("id") in ev["broken"] and x["ev"] in ("Lexeme", "Shift")})
        return "stream/slice-overwritten/%s" % "+".join(kinds), ev
    if ev.get("ev") in ("Lexeme", "Shift") and ev.get("same") is False:
        return "stream/%s/wrong-bytes" % ev["ev"], ev
    return "stream/%s/wrong-result" % ev.get("ev"), ev


def judge(ck, fails, origin):
    for f in fails:
        sig, ev = sig_of(f)
        if sig in ck.violations or sig in ck.known_hits:
            ck.violation(sig, "", {})
            continue
        tp = ck.path("rerun-in.json")
        json.dump(f["trace"], open(tp, "w"))
        ck.drive("stream", "rerun", "-trace", tp, "-out", ck.path("rerun.ndjson"))
        again = ck.validate("stream", "StreamTrace", "StreamTrace.cfg", ck.path("rerun.ndjson"), shards=1, extra_dirs=EXTRA)
        ck.cov["traces_validated_against_impl"] -= 1
        if not again:
            ck.fatal("rejected trace did not reproduce: %s" % sig)
        new = f["trace"][0]
        ck.violation(sig, "StreamLexer(size=%s, %s) event %s rejected by Stream.tla" % (new.get("size"), new.get("mode"), json.dumps(ev)),
                     {"suite": "stream", "origin": origin, "trace": f["trace"][:f["i"] + 1], "rejected_event_index": f["i"],
                      "how": "bin/check C13 --replay <this file> re-executes the calls (with the same reader schedule) on /repo and validates them with spec/stream/StreamTrace.tla"})


def report_hang(ck, s, origin):
    """The driver's watchdog fired: a StreamLexer call did not return within its limit."""
    if s.get("_rc") != 3:
        return False
    h = s.get("_hang") or {}
    ck.violation("stream/call-does-not-return", "a StreamLexer call did not return within %ss (%s); scenario: %s" % (
        h.get("seconds"), origin, json.dumps(h.get("case"))[:600]), {"suite": "stream", "origin": origin, "scenario": h.get("case"),
        "how": "re-run bin/check C13; the scenario (size, reader schedule, calls) is in 'scenario'"})
    return True


def run(ck):
    thorough = ck.tier == "thorough"
    # --- design level: the implementation-shaped model refines the property spec on all bounded streams
    if os.path.exists(os.path.join(os.path.dirname(__file__), "..", "spec", "stream", "StreamImpl.tla")):
        run_impl(ck, thorough)
    # --- code -> spec: random histories over random reader schedules
    n = 30000 if thorough else 2500
    s2 = ck.drive("stream", "record", "-n", n, "-steps", 80 if thorough else 60, "-long", 18 if thorough else 6, "-seed", ck.seed,
                  "-out", ck.path("record.ndjson"))
    if report_hang(ck, s2, "recorded random history"):
        return
    ck.cov["evaluations"] += s2["executions"]
    ck.cov["distinct_nontrivial"] += s2["distinct_nontrivial"]
    ck.cov["rule"] += ("record: seeded random contract-respecting call sequences x random reader schedules (chunk sizes 1..n, zero-length reads, "
                       "EOF/failure with or after the last bytes) x buffer sizes {0..4096} x free disciplines; non-trivial = distinct "
                       "(mode,size,end,schedule,len) whose schedule has more than one read. ")
    ck.cov["samples"] += (s2.get("samples") or [])[:2]
    judge(ck, ck.validate("stream", "StreamTrace", "StreamTrace.cfg", ck.path("record.ndjson"), extra_dirs=EXTRA), "recorded random history")
    ck.assumptions += ["memory bound checked as: bytes held (hook VerifHeld) <= 16*(size + longest selection/lookahead + largest unfreed backlog) + 64",
                       "reader schedules are finite; a reader that returns (0,nil) forever is out of scope"]
    if ck.hooks != "on":
        ck.assumptions.append("hooks unavailable in this run: the memory clause was not observed")


def run_impl(ck, thorough):
    tl = dict(lib_dirs=(ck_common(), ck_spec("cursor")), timeout=3000, heap="12g")
    cases = ck.path("cases.ndjson")
    cfg = "MC_gen.cfg" if thorough else "MC_gen_quick.cfg"
    ck.tlc("stream", "StreamImpl", cfg, label="I=>P on every bounded behaviour + scenario generation", env={"VERIF_CASES": cases}, **tl)
    if not thorough:
        pass
    un = {"VERIF_CASES": ck.path("unused")}
    # unbounded in the length of the stream and the schedule: Stream.tla's actions keep freed <= absStart <= absPos <= N (TLAPS)
    ck.tlaps("stream", "StreamProof", deps=("Stream", "cursor/Cursor"))
    ck.tlc("stream", "StreamImpl", "MC_bytes.cfg", label="I=>P, reader with Bytes()", env=un, **tl)
    ck.tlc("stream", "StreamImpl", "MC_mem.cfg", label="I=>P incl. memory bound with zero slack, free-immediately discipline", env=un, **tl)
    ck.tlc("stream", "StreamImpl", "MC_defect_shiftlen.cfg", label="model of pre-fix ShiftLen is rejected by P", expect_violation="Refines", env=un, **tl)
    ck.tlc("stream", "StreamImpl", "MC_defect_guardsel.cfg", label="model of pre-fix Lexeme/Skip is rejected by P", expect_violation="Refines", env=un, **tl)
    ck.tlc("stream", "StreamImpl", "MC_finding_lexeme.cfg", label="recorded finding: watched Lexeme slices are overwritten in the model too",
           expect_violation="Refines", env=un, **tl)
    ck.cov["exhaustive"] = True
    ck.cov["constants"] = {"cfg": cfg, "L": 5 if thorough else 4, "Sizes": [0, 2, 4] if thorough else [0, 2], "Depth": 6, "MaxPeek": 2,
                           "MaxMove": 2, "MaxChunk": 3, "MaxZero": 1, "EndKinds": ["eof", "fail"]}
    s1 = ck.drive("stream", "replay", "-cases", cases, "-out", ck.path("replay.ndjson"), "-sample", 400 if thorough else 150)
    if report_hang(ck, s1, "replay of a StreamImpl behaviour"):
        return
    if s1["cases"] == 0:
        ck.fatal("generator produced no scenarios")
    ck.log("replayed %d model behaviours on the code, %d differ from StreamImpl" % (s1["executions"], s1["mismatches"]))
    ck.cov["evaluations"] += s1["executions"]
    ck.cov["distinct_nontrivial"] += s1["distinct_nontrivial"]
    ck.cov["rule"] += ("replay: every depth-6 behaviour (calls + reader schedule) that TLC reaches in StreamImpl's bounded state graph and that "
                       "contains at least two Reader.Read calls, executed on the real StreamLexer with a scripted reader; results compared with the model's. ")
    ck.cov["samples"] += (s1.get("samples") or [])[:1]
    if s1["mismatches"]:
        ck.cov["model_drift"] = (s1.get("drift_samples") or [])[:3]
    judge(ck, ck.validate("stream", "StreamTrace", "StreamTrace.cfg", ck.path("replay.ndjson"), extra_dirs=EXTRA), "replay of a StreamImpl behaviour")


def ck_common():
    import vcheck
    return vcheck.COMMON


def ck_spec(d):
    import vcheck
    return os.path.join(vcheck.SPEC, d)


def replay(ck, path):
    obj = json.load(open(path))
    tp = ck.path("rerun-in.json")
    json.dump(obj["trace"], open(tp, "w"))
    ck.drive("stream", "rerun", "-trace", tp, "-out", ck.path("rerun.ndjson"))
    fails = ck.validate("stream", "StreamTrace", "StreamTrace.cfg", ck.path("rerun.ndjson"), shards=1, extra_dirs=EXTRA)
    ck.cov["samples"] = [obj["trace"][:3]]
    ck.cov["evaluations"] = 1
    for f in fails:
        sig, ev = sig_of(f)
        ck.violation(sig, "replayed trace rejected at %s" % json.dumps(ev), {"suite": "stream", "trace": f["trace"], "rejected_event_index": f["i"]})
