"""C08, implementation-shaped half: the control structure of css.Parser (css/parse.go) as a TLA+ model, checked against the
property-level spec by TLC and bound to the code by differential replay.

I  spec/css/CssImpl.tla     state-function stack, level, prevEnd, keepWS, parse-error flag over token classes; one step = one Next
                            TLC: I => P (nesting clauses of CssStream.tla, action property Refines) for EVERY token-class sequence up
                            to the bound in both modes, plus StackAgrees / KeepWSOnlyInUnknown / Terminates / EndSticky;
                            three defect configurations (plausible regressions) must be rejected
harness  vdrive cssp impl (harness/suites/cssp/impl.go): every sequence TLC enumerated is spelled (checked by lexing), parsed by the
                            real parser, and the (GrammarType, HasParseError, io.EOF) list compared with the model's prediction
T  spec/css/CssStreamTrace.tla  judges the traces of all differing cases (and a sample of the agreeing ones)

A difference between model and code is MODEL DRIFT: recorded in ck.cov["model_drift"], never a violation. Only a trace that
CssStream.tla rejects is a candidate, and it goes through C08.judge like every other monitor trace.

run(ck, thorough) is called by C08.run.
"""
import concurrent.futures
import os

FULL = ["ident", "delim", "star", "open", "close", "lbrace", "rbrace", "colon", "semi", "atrl", "atdl", "atun", "ws", "comment", "cpname", "cdo", "other"]
KINDS = ["Error", "Comment", "AtRule", "BeginAtRule", "EndAtRule", "BeginRuleset", "EndRuleset", "Declaration", "Token", "CustomProperty"]

# (cfg, label, emits cases, constants) -- sizes measured on the unchanged tree in the comments
QUICK = [
    ("CssImpl_quick.cfg", "I=>P + cases: every sequence of <= 4 of the 17 token classes, both modes", True, {"MaxTok": 4, "Alphabet": "all 17"}),          # 587k states, 159k cases
    ("CssImpl_quick5.cfg", "I=>P: every sequence of <= 5 of 11 structural token classes, both modes", False, {"MaxTok": 5, "Alphabet": "11 structural"}),  # 1.27M states
]
THOROUGH = [
    ("CssImpl_thorough.cfg", "I=>P + cases: every sequence of <= 5 of the 17 token classes, both modes", True, {"MaxTok": 5, "Alphabet": "all 17"}),      # 10.1M states, 2.6M cases
    ("CssImpl_thorough6.cfg", "I=>P: every sequence of <= 6 of 10 structural token classes, both modes", False, {"MaxTok": 6, "Alphabet": "10 structural"}),   # 8.2M states
]
DEFECTS = [
    ("CssImpl_defect_atdecl.cfg", "model of parseAtRuleDeclarationList not popping its state at end of input is rejected by P"),
    ("CssImpl_defect_iehack.cfg", "model of the IE-hack branch swallowing the end-of-input token (the code before the repair) is rejected by P"),
    ("CssImpl_defect_pop.cfg", "model of the error branch popping the last state function (next call panics) is rejected by P"),
]


def run(ck, thorough):
    import C08      # the monitor's judge (classify -> reproduce -> ck.violation)
    mains = THOROUGH if thorough else QUICK
    cases = ck.path("impl-cases.ndjson")

    def model(job):
        cfg, label, emits, _ = job
        return ck.tlc("css", "CssImpl", cfg, label=label, env={"VERIF_CASES": cases if emits else ck.path("impl-unused.ndjson")},
                      timeout=2400 if thorough else 280, workers=min(8, ck.cores), heap="12g" if thorough else "6g")

    def defect(job):
        cfg, label = job
        return ck.tlc("css", "CssImpl", cfg, label=label, expect_violation="Refines", env={"VERIF_CASES": ck.path("impl-unused.ndjson")},
                      timeout=280, workers=2)

    with concurrent.futures.ThreadPoolExecutor(max_workers=3) as ex:
        first = ex.submit(model, mains[0])
        rest = [ex.submit(model, j) for j in mains[1:]] + [ex.submit(defect, j) for j in DEFECTS]
        first.result()
        if not os.path.exists(cases) or os.path.getsize(cases) == 0:
            ck.fatal("CssImpl.tla emitted no cases")
        tp = ck.path("impl-trace.ndjson")
        s = ck.drive("cssp", "impl", "-cases", cases, "-out", tp, "-seed", ck.seed, "-keep", 400 if thorough else 40, timeout=3000)
        os.remove(cases)
        for f in rest:
            f.result()

    if s["cases"] == 0 or s["executions"] == 0:
        ck.fatal("CssImpl.tla: no case was executed")
    # vacuity: every token class was enumerated, every unit kind predicted, and the harness could spell (nearly) everything
    missing = sorted(set(FULL) - set(s.get("classes") or {})) + sorted(set(KINDS) - set(s.get("kinds") or {}))
    if missing:
        ck.fatal("CssImpl.tla: never enumerated / predicted in this run: %s" % ", ".join(missing))
    if s["unspellable"] * 100 > s["cases"]:
        ck.fatal("cssp impl: %d of %d class sequences could not be spelled, e.g. %s" % (s["unspellable"], s["cases"], s.get("unspellable_samples")))

    ck.cov["evaluations"] += s["executions"]
    ck.cov["distinct_nontrivial"] += s["distinct_nontrivial"]
    ck.cov["samples"] += (s.get("samples") or [])[:1]
    ck.cov["constants"]["CssImpl"] = {cfg: c for cfg, _, _, c in mains}
    ck.cov["impl_differential"] = {"cases": s["cases"], "executed": s["executions"], "unspellable": s["unspellable"], "differ": s["mismatches"],
                                   "max_tokens": s.get("maxlen"), "distinct_inputs": s.get("spellings_used")}
    if s["mismatches"]:
        ck.log("MODEL-DRIFT: %d of %d token-class sequences: css.Parser differs from CssImpl.tla: %s" % (s["mismatches"], s["executions"], s.get("drift_kinds")))
        ck.cov["model_drift"] += [{"spec": "css/CssImpl", "differ": s["mismatches"], "of": s["executions"], "kinds": s.get("drift_kinds")}] + \
            (s.get("drift_samples") or [])[:8]
    ck.cov["rule"] += ("model: every sequence of at most %d token classes (17 classes, as css.Lexer delivers them; TLC, exhaustive) in both modes, spelled by seed "
                       "and checked by lexing, parsed by css.Parser; the (GrammarType, HasParseError, io.EOF) list is compared with the prediction of CssImpl.tla "
                       "(a difference is model drift); non-trivial = at least 4 units. " % s.get("maxlen", 0))
    # the real streams of every differing case (and of a sample of the others) are judged by the property-level monitor
    C08.judge(ck, ck.validate("css", "CssStreamTrace", "CssStreamTrace.cfg", tp, timeout=1500), "impl-differential")
    ck.assumptions += ["CssImpl.tla abstracts tokens to 17 classes (what parse.go branches on); Values(), token texts and error positions are not modelled"]
