"""Design-level step of C03: the precedence-climbing loop of js/parse.go (spec/js/JsClimb.tla) equals the declarative ECMAScript ladder on
every token sequence up to the bound; the model of a typical regression (right-associative '+') is rejected."""


def run(ck, thorough):
    for cfg in (("JsClimb_a.cfg", "JsClimb_b.cfg", "JsClimb_t.cfg") if thorough else ("JsClimb_a.cfg",)):
        ck.tlc("js", "JsClimb", cfg, label="climbing loop = ladder grammar on every token sequence (%s)" % cfg, timeout=3000, workers=min(12, ck.cores), heap="8g")
    ck.tlc("js", "JsClimb", "JsClimb_defect.cfg", label="model with a right-associative '+' is rejected", expect_violation="ClimbEqualsLadder")
