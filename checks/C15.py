"""C15 - Reported line, column and context locate the offending byte.

P  spec/text/Position.tla       line / column / context of (text, offset) as the statement defines them, over texts
                                that are sequences of character classes (width, break kind, printability)
P  spec/text/ErrorPos.tla       the error clause: a *parse.Error carries the position of a byte inside the input,
                                of the byte the parser stopped at, and exactly of an inserted illegal character
G  spec/text/PositionGen.tla    TLC enumerates texts x offsets (all short texts; run-length texts around the elision
                                limits) with the expected line, columns and caret target
G  spec/text/InsertGen.tla      TLC enumerates valid JS/JSON documents x interior token boundaries with the expected
                                position of a character inserted there
T  spec/text/PositionTrace.tla  judges every observation of the real code (replayed cases and recorded random runs)
"""
import json
import os
import re

MODULE, CFG = "PositionTrace", "PositionTrace.cfg"


def _where(ev, trace):
    rl = trace[0].get("rl") or []
    widths = [0, 1, 2, 3, 4, 1, 3, 1, 1, 3, 3]
    blen = sum(widths[c] * n for c, n in rl)
    off = ev.get("off", 0)
    return "before" if off < 0 else "past-end" if off > blen else "at-end" if off == blen else "inside"


def sig_of(f):
    tr = f["trace"]
    ev = next((x for x in tr if x["i"] == f["i"]), {})
    why = f.get("why", "rejected")
    if ev.get("ev") == "Pos":
        if why == "context" and ev.get("wf") and ev.get("pl", 0) >= 100000:
            return "position/Pos/context/line-number-wider-than-5-digits", ev     # the prefix is wider than the caret line assumes
        regime = "malformed" if not ev.get("wf") else {(False, False): "unelided", (True, False): "front-elided",
                                                        (False, True): "rear-elided", (True, True): "both-elided"}[(bool(ev.get("ef")), bool(ev.get("er")))]
        return "position/Pos/%s/%s/%s" % (why, regime, _where(ev, tr)), ev
    suite = tr[0].get("suite", "?")
    kind = "insert" if tr[0].get("ins", -1) >= 0 else "mutated"
    if suite == "html" and why == "no-byte-of-the-input-has-this-position" and ev.get("ctxcase") == "letter-case-before-foreign-content":
        return "errpos/html/context-shows-earlier-names-lower-cased", ev
    slug = re.sub(r"[^a-z]+", "-", re.sub(r"'[^']*'|\"[^\"]*\"|[^ -~]", "", (ev.get("msg") or "").lower())).strip("-")[:40]
    return "errpos/%s/%s/%s/%s" % (suite, kind, why, slug or ev.get("ev", "?")), ev


def describe(f, ev):
    n0 = f["trace"][0]
    if n0.get("ev") == "Text":
        return "parse.Position(text, %s) on text rl=%s (class,count runs; classes 1-4 printable of 1-4 bytes, 5/6 non-printable 1/3 bytes, 7 LF, 8 CR, 9 LS, 10 PS; cs=%s) returned %s: %s rejected by Position.tla" % (
            ev.get("off"), json.dumps(n0.get("rl")), n0.get("cs"), json.dumps({k: ev.get(k) for k in ("line", "col", "wf", "pl", "ef", "er", "k", "out")}), f.get("why"))
    text = bytes(n0.get("bytes") or []).decode("utf-8", "backslashreplace")
    ins = n0.get("ins", -1)
    return "%s on input %r (%s): %s; %s rejected by ErrorPos.tla" % (
        n0.get("suite"), text, "illegal character inserted at offset %d" % ins if ins >= 0 else "mutated document", json.dumps({k: ev.get(k) for k in ("ev", "line", "col", "matches", "cur", "msg", "out")}), f.get("why"))


def judge(ck, fails, origin_of):
    for f in fails:
        sig, ev = sig_of(f)
        if sig in ck.violations or sig in ck.known_hits:
            ck.violation(sig, "", {})   # counted, not re-examined
            continue
        # reproduce: re-execute the same text/offsets or the same parser input and validate that trace again
        tp = ck.path("rerun-in.json")
        json.dump(f["trace"], open(tp, "w"))
        ck.drive("position", "rerun", "-trace", tp, "-out", ck.path("rerun.ndjson"))
        again = ck.validate("text", MODULE, CFG, ck.path("rerun.ndjson"), shards=1)
        ck.cov["traces_validated_against_impl"] -= 1
        if not any(sig_of(a)[0] == sig for a in again):
            ck.fatal("rejected trace did not reproduce: %s" % sig)
        ck.violation(sig, describe(f, ev),
                     {"suite": "position", "origin": origin_of(f["t"]), "trace": f["trace"], "rejected_event_index": f["i"], "why": f.get("why"),
                      "how": "bin/check C15 --replay <this file> re-executes 'trace' (same text and offsets, or same parser input) on /repo and validates it with spec/text/PositionTrace.tla"})


def interleave(paths, canary_path, bulk_paths, every):
    """Merge trace files so that every contiguous block of traces holds a similar mix (validate() shards by blocks of
    traces). Every `every`-th trace goes to the canary file, the others are dealt out in contiguous chunks to bulk_paths."""
    groups = []
    for p in paths:
        traces, cur = [], None
        for line in open(p):
            if '"i":0,' in line or '"i":0}' in line:
                cur = []
                traces.append(cur)
            cur.append(line)
        groups.append(traces)
    total = sum(len(g) for g in groups)
    per = (total - total // every) // len(bulk_paths) + 1
    files = [open(p, "w") for p in bulk_paths]
    with open(canary_path, "w") as canary:
        idx, nb = [0] * len(groups), 0
        for step in range(total):
            # the group that is furthest behind its share
            g = min((k for k in range(len(groups)) if idx[k] < len(groups[k])), key=lambda k: idx[k] / len(groups[k]))
            if step % every == 0:
                canary.writelines(groups[g][idx[g]])
            else:
                files[min(nb // per, len(files) - 1)].writelines(groups[g][idx[g]])
                nb += 1
            idx[g] += 1
    for f in files:
        f.close()
    return total


TID0 = {"enum": 0, "lines": 5000000, "run": 10000000, "insert": 20000000, "record": 30000000}


def origin_of(t):
    return [k for k, v in sorted(TID0.items(), key=lambda kv: kv[1]) if t > v][-1]


def run(ck):
    thorough = ck.tier == "thorough"
    tier = "thorough" if thorough else "quick"
    cases = {k: ck.path("cases-%s.ndjson" % k) for k in ("enum", "lines", "run", "insert")}
    ck.tlc("text", "PositionGen", "MC_enum_%s.cfg" % tier, label="all texts x all offsets; run-length operators = definition", env={"VERIF_CASES": cases["enum"]}, timeout=1500)
    ck.tlc("text", "PositionGen", "MC_run_%s.cfg" % tier, label="run-length texts around the elision limits", env={"VERIF_CASES": cases["run"]}, timeout=1500)
    ck.tlc("text", "PositionGen", "MC_lines_%s.cfg" % tier, label="texts with 10^4..10^6 lines (line numbers of 5 and more digits)", env={"VERIF_CASES": cases["lines"]}, timeout=900)
    ck.tlc("text", "InsertGen", "MC_insert_%s.cfg" % tier, label="JS/JSON documents x token boundaries", env={"VERIF_CASES": cases["insert"]}, timeout=900)
    ck.cov["exhaustive"] = True
    ck.cov["constants"] = {"enum": {"classes": 10, "MaxLen": 5 if thorough else 4, "offsets": "-1..len+1"},
                           "run": {"RunClasses": [1, 2, 3, 4, 5, 6] if thorough else [1, 3], "XClasses": "all 10",
                                   "Counts": [0, 1, 19, 20, 21, 39, 40, 41, 56, 57, 58, 59, 60, 61, 80]},
                           "lines": {"LineCounts": [9998, 9999, 99998, 99999] + ([999998, 999999] if thorough else [])},
                           "insert": {"js_statements": 19, "js_paired_with": 3, "js_separators": 7, "json_documents": 8, "illegal": ["@", "0x01", "\\", "U+0080"]}}
    sums = {}
    for k in ("enum", "lines", "run", "insert"):
        s = sums[k] = ck.drive("position", "replay", "-cases", cases[k], "-out", ck.path(k + ".ndjson"), "-seed", ck.seed, "-tid0", TID0[k])
        if s["cases"] == 0 or s["executions"] == 0:
            ck.fatal("generator %s produced no cases" % k)
        if s.get("base_invalid"):
            ck.fatal("insertion corpus: %d generated documents do not parse untouched (generator bug, not a verdict):\n%s" % (s["base_invalid"], s["_stderr"]))
        ck.log("%s: %d cases, %d executions, %d differ from the generator's expectation" % (k, s["cases"], s["executions"], s["mismatches"]))
    n, m = (20000, 100000) if thorough else (1200, 5000)
    sums["record"] = ck.drive("position", "record", "-n", n, "-offs", 10 if thorough else 8, "-m", m, "-seed", ck.seed, "-tid0", TID0["record"],
                              "-out", ck.path("record.ndjson"))
    ck.log("record: %d executions, %d parse errors examined" % (sums["record"]["executions"], sums["record"]["errors"]))
    ck.cov["evaluations"] = sum(s["executions"] for s in sums.values())
    ck.cov["distinct_nontrivial"] = sum(s["distinct_nontrivial"] for s in sums.values())
    ck.cov["parse_errors_examined"] = sums["insert"]["errors"] + sums["record"]["errors"]
    ck.cov["rule"] = ("enum/run: one evaluation per (text, byte offset) TLC emitted; non-trivial = distinct (text, offset) whose answer is not line 1 / "
                      "column 1 / unelided. insert: one per (document, interior token boundary, illegal character); non-trivial = the inserted "
                      "character is not at line 1 column 1. record: seeded random class texts x random offsets (non-trivial = more than one character) "
                      "and seeded random mutations of small JS/JSON/CSS/XML/HTML documents (non-trivial = distinct input that produced a *parse.Error)")
    ck.cov["samples"] = (sums["run"].get("samples") or [])[:1] + (sums["insert"].get("samples") or [])[:1] + (sums["record"].get("samples") or [])[1:2]
    ck.cov["model_drift"] = [x for k in ("enum", "lines", "run", "insert") for x in (sums[k].get("mismatch_samples") or [])][:5]

    # A sample of the traces is validated first: if the code is broadly wrong, thousands of traces are rejected and the
    # sample is enough to report it; the rest is validated only if the sample shows nothing new.
    bulk = [ck.path("bulk%d.ndjson" % k) for k in range(4 if thorough else 1)]
    interleave([ck.path(k + ".ndjson") for k in ("enum", "lines", "run", "insert", "record")], ck.path("sample.ndjson"), bulk, 64 if thorough else 16)
    shards = min(12, ck.cores) if thorough else ck.cores
    fails = ck.validate("text", MODULE, CFG, ck.path("sample.ndjson"), shards=shards, timeout=1200)
    judge(ck, fails, origin_of)
    if ck.violations:
        ck.notes.append("validation stopped after the sample (1 trace in %d): it already shows violations" % (64 if thorough else 16))
    else:
        for p in bulk:
            more = ck.validate("text", MODULE, CFG, p, shards=shards, timeout=3000)
            judge(ck, more, origin_of)
            fails += more
    # every disagreement with a generator's expectation must have been rejected by the trace specification too
    mism = sum(sums[k]["mismatches"] for k in ("enum", "lines", "run", "insert"))
    if mism and not fails:
        ck.fatal("%d replayed cases differ from the generators' expectations but PositionTrace accepted every trace: G and T specifications disagree" % mism)
    ck.assumptions += [
        "characters are represented by 10 classes (printable 1-4 bytes, non-printable 1 and 3 bytes, LF, CR, U+2028, U+2029); the harness picks "
        "representatives per seed for which unicode.IsPrint and unicode.IsGraphic agree with the class",
        "readings R1-R5 in Position.tla: column open by one inside a multi-byte character or a CRLF; caret unconstrained for a negative offset; "
        "the displayed line may end at U+2028/9; 'roughly 60' = elided display of 40..66 characters",
        "context format taken from the documentation/tests: '%5d: ' prefix, '...' markers, caret line of spaces and '^'",
        "error clause: 'the byte at which the parser stopped' is observed as Input.Offset() for json, xml and html (the caller holds the Input); "
        "for js and css only the existence of an offset inside the input with that exact (line, column, context) is demanded",
    ]


def replay(ck, path):
    obj = json.load(open(path))
    tp = ck.path("rerun-in.json")
    json.dump(obj["trace"], open(tp, "w"))
    ck.drive("position", "rerun", "-trace", tp, "-out", ck.path("rerun.ndjson"))
    fails = ck.validate("text", MODULE, CFG, ck.path("rerun.ndjson"), shards=1)
    ck.cov["samples"] = [obj["trace"][:3]]
    ck.cov["evaluations"] = 1
    for f in fails:
        sig, ev = sig_of(f)
        ck.violation(sig, "replayed: " + describe(f, ev), {"suite": "position", "trace": f["trace"], "rejected_event_index": f["i"], "why": f.get("why")})
