"""C08, generator half: well-formed stylesheets / inline declaration lists derived from the CSS grammar.

G  spec/css/CssGrammar.tla       CSS Syntax Level 3 section 5 as grammar-as-behaviour; a terminal state is a document (atoms) with the
                                 grammar stream the property statement prescribes (GrammarType, lower-cased name, Values())
T  spec/css/CssGrammarTrace.tla  accepts a parsed document iff the observed unit list is the expected unit list
harness  vdrive cssp replay (harness/suites/cssp/gen.go)

run(ck, thorough) is called by C08.run; it returns the extra arguments for `vdrive cssp record`, so that the all-input monitor
(CssStream.tla) also sees every generated document.
"""
import concurrent.futures
import json
import os
import re

import vcheck

# (cfg, label, constants, tlc keywords) -- sizes measured on the unchanged tree are in the comments
ALL = "all twelve at-rule kinds"
QUICK = [
    ("Grammar_kinds.cfg", "every at-rule kind x nesting", {"MaxTop": 2, "MaxUnits": 3, "MaxDepth": 2, "MaxFeat": 0, "MaxWs": 0, "AtKinds": ALL}, {}),           # 3.4k
    ("Grammar_deep.cfg", "unit sequences and nesting", {"MaxTop": 3, "MaxUnits": 5, "MaxDepth": 2, "MaxFeat": 0, "MaxWs": 0, "AtKinds": "media fontface unknown"}, {}),  # 36k
    ("Grammar_feat.cfg", "selector / value / prelude mixes", {"MaxTop": 1, "MaxUnits": 2, "MaxDepth": 1, "MaxFeat": 2, "MaxWs": 0, "AtKinds": "media import"}, {}),     # 8k
    ("Grammar_feat3.cfg", "three selector / value / prelude features in one rule", {"MaxTop": 1, "MaxUnits": 1, "MaxDepth": 1, "MaxFeat": 3, "MaxWs": 0, "AtKinds": "media"}, {}),  # 10k
    ("Grammar_sep1.cfg", "every mix x every separator position", {"MaxTop": 2, "MaxUnits": 2, "MaxDepth": 1, "MaxFeat": 1, "MaxWs": 1, "AtKinds": ALL}, {}),          # 48k
    ("Grammar_sep2.cfg", "pairs of separators", {"MaxTop": 1, "MaxUnits": 3, "MaxDepth": 2, "MaxFeat": 0, "MaxWs": 2, "AtKinds": "media"}, {}),                       # 8k
]
THOROUGH = [
    ("Grammar_kinds_t.cfg", "every at-rule kind x nesting", {"MaxTop": 2, "MaxUnits": 4, "MaxDepth": 2, "MaxFeat": 0, "MaxWs": 0, "AtKinds": ALL}, {}),           # 34k
    ("Grammar_deep_t.cfg", "unit sequences and nesting", {"MaxTop": 3, "MaxUnits": 6, "MaxDepth": 3, "MaxFeat": 0, "MaxWs": 0, "AtKinds": "media fontface unknown"}, {}),  # 279k
    ("Grammar_feat_t.cfg", "selector / value / prelude mixes", {"MaxTop": 1, "MaxUnits": 2, "MaxDepth": 1, "MaxFeat": 3, "MaxWs": 0, "AtKinds": "media"}, {}),        # 141k
    ("Grammar_featdeep_t.cfg", "mixes in nested rules", {"MaxTop": 1, "MaxUnits": 3, "MaxDepth": 2, "MaxFeat": 2, "MaxWs": 0, "AtKinds": "media"}, {}),               # 64k
    ("Grammar_sep1.cfg", "every mix x every separator position", {"MaxTop": 2, "MaxUnits": 2, "MaxDepth": 1, "MaxFeat": 1, "MaxWs": 1, "AtKinds": ALL}, {}),
    ("Grammar_sep1_t.cfg", "every mix x every separator position, nested", {"MaxTop": 1, "MaxUnits": 3, "MaxDepth": 2, "MaxFeat": 1, "MaxWs": 1, "AtKinds": ALL}, {}),   # 223k
    ("Grammar_sep2.cfg", "pairs of separators", {"MaxTop": 1, "MaxUnits": 3, "MaxDepth": 2, "MaxFeat": 0, "MaxWs": 2, "AtKinds": "media"}, {}),
    ("Grammar_sep2_t.cfg", "pairs of separators x mixes", {"MaxTop": 1, "MaxUnits": 2, "MaxDepth": 1, "MaxFeat": 1, "MaxWs": 2, "AtKinds": "media import unknown fontface"}, {}),  # 41k
]
SIM = ("Grammar_sim.cfg", "deep random derivations (-simulate)",
       {"MaxTop": 3, "MaxUnits": 8, "MaxDepth": 3, "MaxFeat": 6, "MaxWs": 4, "AtKinds": ALL, "MinAtoms": 30, "EndBias": 3})

PUNCT = {"comma", "colon", "slash", "bang", "eq", "gt", "plus", "tilde", "incl"}
BRACKETS = {"func", "pfunc", "lparen", "rparen", "lbrack", "rbrack"}

# vacuity: what a quick run must have exercised
SEMI = ["import", "charset", "namespace", "layer", "unknown"]
BLOCK = ["layer", "media", "supports", "document", "keyframes", "wkeyframes", "fontface", "page", "unknown"]
DYNAMIC = {"at.semi.": SEMI, "at.block.": BLOCK, "cx.": ["gt", "plus", "tilde", "comma"]}
ATOMS = (["ident", "prop", "important", "num", "dim", "pct", "str", "hash", "url", "func", "pfunc", "comma", "colon", "semi", "lbrace", "rbrace",
          "lparen", "rparen", "lbrack", "rbrack", "slash", "bang", "eq", "gt", "plus", "tilde", "dot", "star", "amp", "incl", "cpname", "cdo", "cdc",
          "comment", "S", "C", "W", "cpblock", "cpparen"] + ["at." + k for k in sorted(set(SEMI + BLOCK))])
KINDS = ["AtRule@top", "AtRule@rulelist", "BeginAtRule@top", "BeginAtRule@rulelist", "EndAtRule@top", "EndAtRule@rulelist",
         "BeginRuleset@top", "BeginRuleset@rulelist", "BeginRuleset@nested", "BeginRuleset@keyframes", "EndRuleset@nested",
         "Declaration@ruleset", "Declaration@atdecl", "Declaration@kfdecl", "Declaration@inline",
         "CustomProperty@ruleset", "CustomProperty@atdecl", "CustomProperty@inline", "Comment@top", "Token@top", "Token@unknown", "Error@end"]


def spec_labels():
    src = open(os.path.join(vcheck.SPEC, "css", "CssGrammar.tla")).read()
    src = src[src.index("PreludeProds(K) =="):]
    labs = set(re.findall(r'\bP\("([^"]+)"', src)) | set(re.findall(r'\bEnds\("([^"]+)"', src))
    out = set()
    for lab in labs:
        if lab in DYNAMIC:
            out |= {lab + k for k in DYNAMIC[lab]}
        else:
            out.add(lab)
    return out


def txt(ints):
    return bytes(ints).decode("utf-8", "replace")


def classify_values(ev):
    """Name what differs between the expected and the observed Values() of one unit."""
    xv = [(t, a, tuple(b)) for t, a, b in ev.get("xv", [])]
    ov = [(t, tuple(b)) for t, b in ev.get("ov", [])]
    xs = [(t, b) for t, a, b in xv if t != "Whitespace"]
    os_ = [(t, b) for t, b in ov if t != "Whitespace"]
    if xs == os_:     # the tokens agree: whitespace differs
        i = j = 0
        while i < len(xv) and j < len(ov) and (xv[i][0], xv[i][2]) == ov[j]:
            i, j = i + 1, j + 1
        if j < len(ov) and ov[j][0] == "Whitespace" and (i >= len(xv) or xv[i][0] != "Whitespace"):
            if ov[j][1] != (32,):
                return "values-whitespace-not-a-single-space"
            prev = xv[i - 1][1] if i > 0 else None
            nxt = xv[i][1] if i < len(xv) else None
            if prev is None or nxt is None:
                return "values-whitespace-extra-at-%s" % ("start" if prev is None else "end")
            if prev in PUNCT or nxt in PUNCT:
                return "values-whitespace-extra-at-punctuation"
            if prev in BRACKETS or nxt in BRACKETS:
                return "values-whitespace-extra-at-bracket"
            return "values-whitespace-extra-between-%s-and-%s" % (prev, nxt)
        if i < len(xv) and xv[i][0] == "Whitespace":
            prev = xv[i - 1][1] if i > 0 else "at-keyword"
            nxt = xv[i + 1][1] if i + 1 < len(xv) else "end"
            return "values-whitespace-missing-between-%s-and-%s" % (prev, nxt)
        return "values-whitespace"
    if len(os_) != len(xs):
        return "values-tokens-%s" % ("missing" if len(os_) < len(xs) else "extra")
    for (xt, xa, xb), (ot, ob) in zip([x for x in xv if x[0] != "Whitespace"], os_):
        if xt != ot:
            return "values-token-type:%s:%s-reported-as-%s" % (xa, xt, ot)
        if xb != ob:
            return "values-custom-property-text" if xt == "CustomPropertyValue" else "values-token-text:%s" % xa
    return "values"


def classify(f):
    tr = f["trace"]
    o = tr[0]
    ev = next((x for x in tr if x["i"] == f["i"]), {})
    if ev.get("ev") == "Finish":
        k = ev.get("n", 0)
        u = o["units"][k] if k < len(o["units"]) else {"g": "?", "c": "?"}
        return "cssgen/%s@%s/unit-missing" % (u["g"], u["c"]), ev
    if ev.get("out") != "ret":
        return "cssgen/panic", ev
    d = ev.get("diff")
    if d is None:           # m = k but the type name differs from the expectation: cannot happen unless the harness is wrong
        return "cssgen/%s/rejected" % ev.get("gt"), ev
    if d == "extra":
        return "cssgen/%s/unit-not-in-the-source" % ev.get("gt"), ev
    where = "%s@%s" % (ev.get("xg"), ev.get("xc"))
    if d == "gt":
        return "cssgen/%s/reported-as-%s" % (where, ev.get("gt")), ev
    if d == "eof":
        return "cssgen/Error@end/final-report-not-io.EOF", ev
    if d == "parse-error":
        return "cssgen/%s/parse-error-reported" % where, ev
    if d == "tt":
        return "cssgen/%s/data-token-type:%s-reported-as-%s" % (where, ev.get("xtt"), ev.get("ott")), ev
    if d == "name":
        return "cssgen/%s/name-not-the-lower-cased-source-name" % where, ev
    if d == "data":
        return "cssgen/%s/data-not-the-source-token" % where, ev
    return "cssgen/%s/%s" % (where, classify_values(ev)), ev


def conc_case(o):
    return {"mode": o["mode"], "atoms": o["atoms"], "units": o["units"], "input": o["input"], "cuts": o["cuts"]}


def reproduce(ck, case):
    p = ck.path("gen-rerun-in.ndjson")
    with open(p, "w") as f:
        f.write(json.dumps(case) + "\n")
    ck.drive("cssp", "grammarfile", "-in", p, "-out", ck.path("gen-rerun.ndjson"))
    again = ck.validate("css", "CssGrammarTrace", "CssGrammarTrace.cfg", ck.path("gen-rerun.ndjson"), shards=1)
    ck.cov["traces_validated_against_impl"] -= 1
    return again


def describe(o, ev):
    s = "css.Parser(%s) on %s (atoms: %s): unit %s" % (o["mode"], json.dumps(txt(o["input"])), " ".join(o["atoms"]), ev.get("k", "-"))
    if "xv" in ev:
        s += " %s: Values() expected [%s], observed [%s]" % (
            ev.get("xg"), " ".join("%s:%s" % (t, json.dumps(txt(b))) for t, a, b in ev["xv"]),
            " ".join("%s:%s" % (t, json.dumps(txt(b))) for t, b in ev["ov"]))
    elif ev.get("ev") == "Finish":
        s = s.rsplit(":", 1)[0] + ": the stream has %d units, %d expected (%s)" % (ev.get("n", 0), o["n"], " ".join(o["exp"]))
    else:
        s += " expected %s, observed %s %s" % (ev.get("xg"), ev.get("gt"), json.dumps({k: (txt(v) if k in ("xd", "od") else v) for k, v in ev.items()
                                                                                      if k in ("diff", "xd", "od", "xtt", "ott", "err")}))
    return s[:900]


def judge(ck, fails):
    for f in fails:
        sig, ev = classify(f)
        if sig in ck.violations or sig in ck.known_hits:
            ck.violation(sig, "", {})
            continue
        o = f["trace"][0]
        case = conc_case(o)
        if not reproduce(ck, case):
            ck.fatal("rejected generated case did not reproduce: %s" % sig)
        ck.violation(sig, describe(o, ev) + "; rejected by CssGrammarTrace.tla (expectation from CssGrammar.tla)",
                     {"suite": "cssp", "origin": "generator", "inline": o["mode"] == "inline", **case,
                      "rejected_event": {k: v for k, v in ev.items() if k not in ("t",)},
                      "how": "bin/check C08 --replay <this file> parses the document again, compares it with the expected units and validates the trace "
                             "with spec/css/CssGrammarTrace.tla"})


def run(ck, thorough):
    gens = THOROUGH if thorough else QUICK
    files = []
    jobs = []
    for n, (cfg, label, consts, kw) in enumerate(gens):
        path = ck.path("gen-cases-%d.ndjson" % n)
        files.append(path)
        jobs.append((cfg, "generator: " + label, path, dict(kw)))
    if thorough:
        for k in range(4):
            path = ck.path("gen-cases-sim-%d.ndjson" % k)
            files.append(path)
            jobs.append((SIM[0], "generator: " + SIM[1], path, dict(simulate=30000, depth=120, seed=ck.seed * 4 + k, workers=1, count=False)))

    def one(job):
        cfg, label, path, kw = job
        kw.setdefault("workers", 4)
        ck.tlc("css", "CssGrammar", cfg, label=label, env={"VERIF_CASES": path}, timeout=1500 if thorough else 900, **kw)
        if not os.path.exists(path) or os.path.getsize(path) == 0:
            ck.fatal("generator %s produced no cases" % cfg)

    with concurrent.futures.ThreadPoolExecutor(max_workers=max(1, min(4, ck.cores // 4))) as ex:
        list(ex.map(one, jobs))

    tp = ck.path("gen-trace.ndjson")
    inputs = ck.path("gen-inputs.ndjson")
    s = ck.drive("cssp", "replay", "-cases", ",".join(files), "-out", tp, "-inputs", inputs, "-seed", ck.seed,
                 "-variants", 1 if thorough else 2, "-inputvariants", 1, "-inputevery", 4 if thorough else 1, "-keep", 200 if thorough else 50, timeout=3000)
    for p in files:
        os.remove(p)      # hundreds of MB
    if s["cases"] == 0 or s["executions"] == 0:
        ck.fatal("generator produced no cases")

    # vacuity: every production, atom and unit kind of the grammar was used
    missing = sorted(spec_labels() - set(s.get("prods") or {})) + sorted(set(ATOMS) - set(s.get("atoms") or {})) + \
        sorted(set(KINDS) - set(s.get("kinds") or {}))
    if missing:
        ck.fatal("CssGrammar.tla: never used in this run: %s" % ", ".join(missing))

    ck.cov["evaluations"] += s["executions"]
    ck.cov["distinct_nontrivial"] += s["distinct_nontrivial"]
    ck.cov["samples"] += (s.get("samples") or [])[:3]
    ck.cov["generated_documents"] = s["cases"]
    ck.cov["generator_mismatches"] = s["mismatches"]
    ck.cov["productions_used"] = len(s.get("prods") or {})
    ck.cov["constants"]["CssGrammar"] = {cfg: consts for cfg, _, consts, _ in gens}
    if thorough:
        ck.cov["constants"]["CssGrammar"][SIM[0]] = dict(SIM[2], simulate="4 x 30000 behaviours, depth 120")
    ck.cov["rule"] += ("generator: every derivation of CssGrammar.tla within the budgets of each configuration (TLC, exhaustive), in both modes, each spelled %d time(s) "
                       "by seed (identifier case, numbers, quotes, kinds of whitespace and comments); the observed stream of every document is compared with the expected "
                       "(GrammarType, lower-cased name, Values() types and texts); non-trivial = distinct derivation with at least 3 units before the final report. "
                       % (1 if thorough else 2))
    judge(ck, ck.validate("css", "CssGrammarTrace", "CssGrammarTrace.cfg", tp, timeout=1500))
    ck.assumptions += [
        "generated whitespace (DESIGN.md C08 reading): a whitespace-bearing run between two value / prelude tokens that are neither punctuation nor brackets, after the "
        "at-keyword, and as descendant combinator => one ' ' token; optional runs or comments next to , : / ! = (values), , : (at-rule preludes), , > + ~ = ~= (selectors), "
        "around the colon of a declaration and at the start / end of a prelude, value or block => none; nothing next to ( ) [ ]; a comment alone never separates two tokens",
        "not generated, because the statement leaves the outcome open: comments between inline declarations, whitespace at the start / end of an unknown at-rule's block, "
        "at-rules inside declaration lists, nested rulesets that start with # [ or :, upper-case custom property names, whitespace next to / = ! in at-rule preludes"]
    return ["-extra", inputs]


def replay(ck, obj):
    case = {k: obj[k] for k in ("mode", "atoms", "units", "input", "cuts")}
    ck.cov["samples"] = [{"mode": obj["mode"], "input": txt(obj["input"])}]
    ck.cov["evaluations"] = 1
    if reproduce(ck, case):
        ck.violation(obj["sig"], obj.get("what", "replayed generated case rejected again"), {"origin": "generator", **case})
