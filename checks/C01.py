"""C01 - No input crashes, hangs or over-reads any lexer, parser or AST method.

P  spec/proto/NextProtocol.tla   the calling protocol (no action for panic / hang / fatal)
G  spec/proto/AllStrings.tla     all class strings per language; spec/proto/Nesting.tla deep nesting families
T  spec/proto/ProtoTrace.tla     judges the traces of harness/suites/lexers
"""
import json
import os
import subprocess
import concurrent.futures

import protolib


def classify(f):
    tr = f["trace"]
    ev = next((x for x in tr if x["i"] == f["i"]), {})
    lang = tr[0].get("lang", "?")
    if ev.get("out") == "panic":
        return "proto/%s/%s/panic" % (lang, ev.get("ev")), ev
    if ev.get("out") == "fatal":
        return "proto/%s/%s/fatal" % (lang, ev.get("ev")), ev
    if ev.get("out") == "hang":
        return "proto/%s/%s/hang" % (lang, ev.get("ev")), ev
    if ev.get("ev") == "Next":
        prev = [x for x in tr if x["i"] < f["i"] and x["ev"] == "Next"]
        n = tr[0].get("len", 0)
        if ev.get("oob"):
            c = "slice-outside-input"
        elif not (0 <= ev.get("off", 0) <= n):
            c = "offset-outside-input"
        elif any(p.get("err") and p.get("eof") for p in prev) and not (ev.get("err") and ev.get("eof")):
            c = "eof-not-sticky"
        elif len(prev) + 1 > 4 * n + 16:
            c = "end-not-reached-linear"
        else:
            c = "end-not-repeated"
        return "proto/%s/Next/%s" % (lang, c), ev
    return "proto/%s/%s/rejected" % (lang, ev.get("ev")), ev


def judge(ck, fails, origin):
    for f in fails:
        sig, ev = classify(f)
        if sig in ck.violations or sig in ck.known_hits:
            ck.violation(sig, "", {})
            continue
        rep = protolib.reproduce(ck, f["trace"], "ProtoTrace", "ProtoTrace.cfg")
        if rep is False:
            ck.fatal("rejected trace did not reproduce: %s" % sig)
        lang, inp = protolib.input_of(f["trace"])
        nest = f["trace"][0].get("nest")
        shown = json.dumps(protolib.as_text(inp)) if inp is not None or not nest else "%s + %s x %d (%s) ..." % (
            json.dumps(nest.get("pre")), json.dumps(nest.get("open")), nest.get("depth", 0), nest.get("variant"))
        ck.violation(sig, "%s on input %s: event %s rejected by NextProtocol.tla" % (lang, shown, json.dumps(ev)[:300]),
                     {"suite": "lexers", "origin": origin, "lang": lang, "input": inp, "gen": f["trace"][0].get("nest"),
                      "trace": f["trace"][: f["i"] + 1][-12:], "rejected_event_index": f["i"],
                      "how": "bin/check C01 --replay <this file> runs the input through the entry point again and validates the trace with spec/proto/ProtoTrace.tla"})


def run(ck):
    thorough = ck.tier == "thorough"
    # the deep-nesting children (mostly waiting on single processes) run alongside the generators
    import threading
    import nesting
    box = {}

    def nest():
        try:
            box["path"] = nesting.run(ck, thorough)
        except BaseException as ex:          # re-raised in the main thread
            box["err"] = ex
    th = threading.Thread(target=nest)
    th.start()
    try:
        paths = protolib.record_all(ck, thorough)
    finally:
        th.join()
    if "err" in box:
        raise box["err"]
    paths.append(box["path"])
    for lang, inp in protolib.hangs(ck):
        ck.violation("proto/%s/call-does-not-return" % lang, "%s on input %s: a call did not return within 30 s" % (lang, json.dumps(protolib.as_text(inp))),
                     {"suite": "lexers", "lang": lang, "input": inp, "how": "run the input through the entry point: the call hangs"})
    for p in paths:
        if os.path.exists(p):
            judge(ck, ck.validate("proto", "ProtoTrace", "ProtoTrace.cfg", p, timeout=3000), os.path.basename(p))
    ck.assumptions += ["'end-of-input report' = an error report that the next call repeats identically; linear bound 4*len+16 calls",
                       "a hang is observed as exceeding that call bound (each call of these lexers terminates or the harness times out: exit 2)"]


def replay(ck, path):
    obj = json.load(open(path))
    if obj.get("input") is None:
        ck.fatal("replay of generated nesting inputs: re-run bin/check C01 (the generator parameters are in 'gen')")
    rep = protolib.reproduce(ck, [{"lang": obj["lang"], "input": obj["input"]}], "ProtoTrace", "ProtoTrace.cfg")
    ck.cov["samples"] = [{"lang": obj["lang"], "input": obj["input"]}]
    ck.cov["evaluations"] = 1
    if rep:
        ck.violation(obj["sig"], obj.get("what", "replayed input rejected again"), {"lang": obj["lang"], "input": obj["input"]})
