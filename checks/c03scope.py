"""C03, additional inputs: the programs of the scope generator (spec/js/ScopeSem.tla, the generator of C04).

ScopeSem.tla enumerates every program of nested scope constructs over two names together with the verdict ECMAScript gives it:
derivable ("accepted": shadowing in nested scopes, hoisting, loop heads, parameters ...) or ill-formed because one lexical name is
declared twice in a scope ("rejected").  C03's statement covers both: a derivable program is accepted under every Options value, a
program that declares one lexical name twice in a scope is never returned as a tree.  The programs are spelled by the scope suite
(blocks as switch / try / loop bodies, class bodies as methods or static blocks, ...), run by `jsgram file` under the four Options
values and judged by spec/js/JsGrammarTrace.tla (kind "parses": acceptance only; kind "reject")."""
import json


def run(ck, thorough):
    cases = ck.path("c03scope-cases.ndjson")
    ck.tlc("js", "ScopeSem", "ScopeSem_thorough.cfg" if thorough else "ScopeSem_quick.cfg", label="ScopeSem programs with verdicts (shadowing, redeclaration)",
           env={"VERIF_CASES": cases}, timeout=3000, heap="8g", count=False)
    progs = ck.path("c03scope-progs.ndjson")
    ck.drive("scope", "replay", "-cases", cases, "-out", ck.path("c03scope-unused.ndjson"), "-sample", 1000000, "-c03", progs, timeout=3000)
    lines = [x for x in open(progs) if x.strip()]
    cap = 60000 if thorough else 12000
    if len(lines) > cap:                      # deterministic stride; every rejected program and every program with a while loop
        stride = len(lines) // cap + 1        # (the statement Options.WhileToFor rewrites) is kept
        wh = json.dumps(list(b"while("), separators=(",", ":"))[1:-1]
        lines = [x for k, x in enumerate(lines) if k % stride == 0 or '"reject"' in x or wh in x]
        with open(progs, "w") as f:
            f.writelines(lines)
    tp = ck.path("c03scope-trace.ndjson")
    s = ck.drive("jsgram", "file", "-in", progs, "-out", tp, timeout=3000)
    ck.cov["evaluations"] += s.get("executions", 0)
    ck.cov["scope_programs"] = {"programs": s.get("programs", 0), "differ_in_pre_check": s.get("mismatches", 0)}
    for f in ck.validate("js", "JsGrammarTrace", "JsGrammarTrace.cfg", tp, timeout=3000):
        o = f["trace"][0]
        ev = next((x for x in f["trace"] if x["i"] == f["i"]), {})
        src = bytes(o["src"]).decode("utf-8", "replace")
        if ev.get("out") != "ret":
            what = "panic"
        elif o["kind"] == "reject":
            what = "accepted-invalid/lexical-name-declared-twice-in-a-scope"
        else:
            what = "rejected-valid"
        opts = ["Options{}", "Options{WhileToFor}", "Options{Inline}", "Options{WhileToFor,Inline}"]
        only = sorted({x.get("opts") for x in f["trace"][1:] if (x.get("ok") is True) != (o["kind"] == "parses")})
        sig = "jsgram/scope-program/%s/%s" % (what, "every-Options" if len(only) == 4 else "+".join(opts[k] for k in only if isinstance(k, int)))
        ck.violation(sig, "js.Parse(%s): %s (%s); ScopeSem.tla says the program is %s" % (
            json.dumps(src), what, (ev.get("etext") or "returned a tree"), "derivable" if o["kind"] == "parses" else "ill-formed"),
            {"suite": "jsgram", "src": src, "trace": f["trace"], "rejected_event_index": f["i"],
             "how": "js.Parse is a function of the text and Options: the text is in 'src'"})
