"""C07 - CSS tokens follow the CSS Syntax Level 3 token grammar.

P  spec/css/CssTokens.tla        token atoms of the railroad diagrams (section 4.2) with their kinds and class expansion, Merges (the
                                 look-ahead rules of 4.3 as a relation between adjacent texts), NeedsSep (the serialisation table of
                                 section 9, derived), acceptance of what the lexer returns, IsIdent/IsURLUnquoted agreement
G  spec/css/CssTokensGen.tla     sequences of atoms x separator choices (pairs exhaustive, triples juxtaposed, deep sampled);
                                 INVARIANT RefAgrees / Tight: the second formalisation spec/css/CssRef.tla (4.3 "consume a token"
                                 transcribed) tokenises every generated text into exactly the expected items
G  spec/css/CssClassStrings.tla  every class string up to a length for the IsIdent / IsURLUnquoted clause
T  spec/css/CssTokensTrace.tla   judges the traces of harness/suites/csstok (one per execution)
I  spec/css/CssLexImpl.tla       growth step (checks/c07impl.py): css/lex.go function by function over character classes; TLC: the model
                                 refines proto/TokenStream.tla and returns the tokens of CssRef.tla on every class string up to a bound
                                 (except at six flagged deviations); differential replay of every string on css.Lexer (MODEL-DRIFT)
"""
import collections
import concurrent.futures
import json
import os

SPEC = "css"
T = ("CssTokensTrace", "CssTokensTrace.cfg")


def txt(a):
    try:
        return json.dumps(bytes(a).decode("utf-8"))
    except Exception:
        return repr(bytes(a))[1:]


def is_sep(n):
    return n.startswith("sep.")


def locate(f):
    """Find the expected item at which the rejected event falls, and describe the difference (names only; the verdict
    was TLC's)."""
    tr = f["trace"]
    o = tr[0]
    ev = next((x for x in tr if x["i"] == f["i"]), {})
    if o.get("mode") == "is":
        if ev.get("out") == "panic":
            return None, "csstok/Is/panic", ev
        if ev.get("len", 0) > 0 and ev.get("isIdent") != ev.get("oneIdent"):
            return None, "csstok/IsIdent/%s" % ("true-but-not-one-identifier-token" if ev.get("isIdent") else "false-but-one-identifier-token"), ev
        if ev.get("intact") is False:
            return None, "csstok/IsIdent-IsURLUnquoted/argument-memory-changed-or-answer-depends-on-capacity", ev
        return None, "csstok/IsURLUnquoted/true-but-not-one-url-token", ev
    names, los, his = o["names"], o["los"], o["his"]
    if ev.get("out") == "panic":
        return None, "csstok/lexer/panic", ev
    if ev.get("ev") == "End":
        what = "end-report-not-EOF" if not ev.get("eof") else ("ended-early" if ev.get("ntok", 0) < len(names) else "extra-tokens")
        return None, "csstok/end/%s" % what, ev
    lo, hi, k = ev.get("lo"), ev.get("hi"), ev.get("kname")
    j = next((i for i in range(len(names)) if los[i] <= lo < his[i]), None)
    if j is None:
        return None, "csstok/end/extra-tokens", ev
    if not ev.get("same"):
        what = "text-not-input-bytes"
    elif lo != los[j]:
        what = "misaligned:%s" % k
    elif hi < his[j]:
        what = "split:%s" % k
    elif hi > his[j]:
        what = "overrun:%s" % k
    else:
        what = "kind:%s" % k
    return j, what, ev


def type_key(name, kinds, classes):
    return classes[name][0] if kinds[name] == "Delim" else kinds[name]


class Judge:
    def __init__(self, ck):
        self.ck = ck
        self.kinds, self.classes = {}, {}
        self.intrinsic = set()      # atoms that are mis-tokenised even when separators surround them

    def learn(self, cases_path, limit=400000):
        n = 0
        for line in open(cases_path):
            o = json.loads(json.loads(line))
            for it in o.get("items", []):
                self.kinds[it["n"]] = it["k"]
                self.classes[it["n"]] = it["c"]
            n += 1
            if n > limit:
                break

    def sig(self, f):
        j, what, ev = locate(f)
        if j is None:
            return what, ev, None
        names = f["trace"][0]["names"]
        a = names[j]
        nxt = names[j + 1] if j + 1 < len(names) else None
        isolated = (nxt is None or is_sep(nxt)) and (j == 0 or is_sep(names[j - 1]))
        return what, ev, (a, nxt, isolated)

    def run(self, fails, origin):
        ck = self.ck
        pre = [(f,) + self.sig(f) for f in fails]
        for f, what, ev, ctx in pre:
            if ctx and ctx[2]:
                self.intrinsic.add(ctx[0])
        for f, what, ev, ctx in pre:
            if ctx is None:
                sig = what
            else:
                a, nxt, _ = ctx
                if a in self.intrinsic or is_sep(a):
                    sig = "csstok/%s/%s" % (a, what)
                else:
                    nk = "end" if nxt is None else ("sep" if is_sep(nxt) else self.classes.get(nxt, [nxt])[0])   # the character that follows
                    sig = "csstok/%s>%s/%s" % (self.kinds.get(a, a), nk, what)
            if sig in ck.violations or sig in ck.known_hits:
                ck.violation(sig, "", {})
                continue
            o = f["trace"][0]
            line = {"mode": "is", "s": ev.get("s", [])} if o.get("mode") == "is" else \
                   {"mode": "tok", "names": o["names"], "los": o["los"], "his": o["his"], "input": o["input"]}
            if not reproduce(ck, line):
                ck.fatal("rejected trace did not reproduce: %s" % sig)
            if o.get("mode") == "is":
                desc = "argument %s: IsIdent=%s, lexed as one Ident/CustomPropertyName=%s; IsURLUnquoted=%s, url(arg) lexed as one URL token=%s" % (
                    txt(ev.get("s", [])), ev.get("isIdent"), ev.get("oneIdent"), ev.get("isURL"), ev.get("oneURL"))
            else:
                obs = [(x["kname"], txt(o["input"][x["lo"]:x["hi"]])) for x in f["trace"][1:] if x["ev"] == "Tok"]
                exp = [(self.kinds.get(n, "?"), txt(o["input"][o["los"][i]:o["his"][i]])) for i, n in enumerate(o["names"])]
                desc = "css.Lexer on %s (items %s): expected %s, observed %s; event %d rejected by CssTokens.tla" % (
                    txt(o["input"]), " ".join(o["names"]), exp, obs, f["i"])
            ck.violation(sig, desc, {"suite": "csstok", "origin": origin, "line": line, "trace": f["trace"][:40], "rejected_event_index": f["i"],
                                     "how": "bin/check C07 --replay <this file> re-runs 'line' on /repo and validates the trace with spec/css/CssTokensTrace.tla"})


def reproduce(ck, line):
    p = ck.path("rerun-in.ndjson")
    with open(p, "w") as f:
        f.write(json.dumps(line) + "\n")
    ck.drive("csstok", "file", "-in", p, "-out", ck.path("rerun.ndjson"))
    again = ck.validate(SPEC, T[0], T[1], ck.path("rerun.ndjson"), shards=1)
    ck.cov["traces_validated_against_impl"] -= 1
    return bool(again)


def validate_big(ck, path, par=6, per_shard=45000):
    """ck.validate runs one 3 GB-heap TLC per shard, all shards at once: feed it the trace file in pieces of at most `par` shards so
    that the memory in use stays bounded whatever the size of the run."""
    fails, part, n, k = [], [], 0, 0
    def flush():
        nonlocal part, n, k
        if not part:
            return
        pp = ck.path("%s.part%d" % (os.path.basename(path), k))
        with open(pp, "w") as f:
            f.writelines(part)
        fails.extend(ck.validate(SPEC, T[0], T[1], pp, shards=max(1, min(par, n // per_shard + 1)), timeout=1500))
        os.remove(pp)
        part, n, k = [], 0, k + 1
    for line in open(path):
        if n >= par * per_shard and line.startswith('{"ev":"Open"'):
            flush()
        part.append(line)
        n += 1
    flush()
    return fails


def selftest(ck):
    """Binding: a conforming execution is accepted; the same trace with one kind changed, with one token dropped, and Is facts that
    break either implication are rejected (the acceptance rule is not vacuous)."""
    p = ck.path("self-in.ndjson")
    with open(p, "w") as f:
        f.write(json.dumps({"mode": "tok", "names": ["id.one", "sep.sp", "num.int"], "los": [0, 1, 2], "his": [1, 2, 3], "input": [103, 32, 53]}) + "\n")
    ck.drive("csstok", "file", "-in", p, "-out", ck.path("self.ndjson"))
    good = [json.loads(x) for x in open(ck.path("self.ndjson"))]
    if [e["ev"] for e in good] != ["Open", "Tok", "Tok", "Tok", "End"]:
        ck.fatal("selftest: unexpected trace shape %s" % [e["ev"] for e in good])
    def renum(evs, t):
        return [dict(e, t=t, i=i) for i, e in enumerate(evs)]
    wrong_kind = [dict(e) for e in good]
    wrong_kind[3]["kname"] = "Dimension"
    isev = lambda **kw: dict({"ev": "Is", "out": "ret", "len": 1, "isIdent": False, "oneIdent": False, "isURL": False, "oneURL": False}, **kw)
    isopen = {"ev": "Open", "out": "ret", "mode": "is"}
    traces = [renum(good, 1), renum(wrong_kind, 2), renum(good[:2] + good[3:], 3), renum([isopen, isev(isIdent=True)], 4),
              renum([isopen, isev(isURL=True)], 5), renum([isopen, isev(oneIdent=True)], 6),
              renum([isopen, isev(isIdent=True, oneIdent=True, isURL=True, oneURL=True), isev(oneURL=True), isev(len=0, isIdent=True)], 7)]
    sp = ck.path("selftest.ndjson")
    with open(sp, "w") as f:
        for tr in traces:
            for e in tr:
                f.write(json.dumps(e, separators=(",", ":")) + "\n")
    fails = ck.validate(SPEC, T[0], T[1], sp, shards=1)
    ck.cov["traces_validated_against_impl"] -= len(traces)
    ck.cov["trace_events_validated"] -= sum(len(t) for t in traces)
    got = sorted({f["t"] for f in fails})
    if got != [2, 3, 4, 5, 6]:
        ck.fatal("selftest: CssTokensTrace rejected traces %s, expected [2, 3, 4, 5, 6]" % got)
    ck.cov["selftest"] = "conforming traces accepted; changed kind, dropped token, IsIdent/IsURLUnquoted disagreements rejected"


def run(ck):
    thorough = ck.tier == "thorough"
    selftest(ck)
    judge = Judge(ck)
    used_union, listed = set(), set()

    gens = [  # label, cfg, variants, sample, simulate
        ("pairs", "Gen_pairs.cfg", 2, 1 if thorough else 2, None),
        ("separators", "Gen_seps.cfg", 2, 1, None),
        ("triples", "Gen_triples_thorough.cfg" if thorough else "Gen_triples_quick.cfg", 1, 25 if thorough else 1, None),
    ]
    if thorough:
        gens.append(("deep", "Gen_deep.cfg", 2, 2, 25))   # 25 behaviours per worker

    def pipeline(g):
        label, cfg, variants, sample, sim = g
        cases = ck.path("cases-%s.ndjson" % label)
        kw = dict(simulate=sim, depth=40, seed=ck.seed) if sim else {}
        r = ck.tlc(SPEC, "CssTokensGen", cfg, label="generator: %s (RefAgrees%s checked on every state)" % (label, "/Tight" if label == "pairs" else ""),
                   env={"VERIF_CASES": cases}, timeout=1500, count=False, workers=8 if label in ("pairs", "triples") else 4, **kw)
        lines = sum(1 for _ in open(cases)) if os.path.exists(cases) else 0
        if lines < 2:
            ck.fatal("generator %s produced no cases" % label)
        tp = ck.path("trace-%s.ndjson" % label)
        s = ck.drive("csstok", "replay", "-cases", cases, "-out", tp, "-seed", ck.seed, "-variants", variants, "-sample", sample, timeout=1500)
        return g, r, s, cases, tp

    with concurrent.futures.ThreadPoolExecutor(max_workers=len(gens) + 1) as ex:
        fut_is = ex.submit(is_pipeline, ck, thorough)
        results = list(ex.map(pipeline, gens))
        is_sum, is_trace, is_r = fut_is.result()

    cases_total = 0
    for (label, cfg, variants, sample, sim), r, s, cases, tp in results:
        ck.cov["states"] += r.distinct or 0
        ck.cov["transitions"] += r.generated or 0
        if s["cases"] == 0:
            ck.fatal("generator %s: harness saw no cases" % label)
        if s["panics"]:
            ck.log("%s: %d panics" % (label, s["panics"]))
        ck.log("%-10s %8d cases, %8d executions, %7d traces, %d differ from the strict expectation" % (
            label, s["cases"], s["executions"], s["traces"], s["strict_differences"]))
        cases_total += s["cases"]
        ck.cov["evaluations"] += s["executions"]
        ck.cov["distinct_nontrivial"] += s["distinct_nontrivial"]
        ck.cov["samples"] += (s.get("samples") or [])[:1]
        ck.cov.setdefault("juxtaposed_cases", 0)
        ck.cov["juxtaposed_cases"] += s["juxtaposed_cases"]
        if label == "pairs":
            meta = json.loads(json.loads(open(cases).readline()))
            listed = set(meta["atoms"]) | set(meta["seps"]) | set(meta["finals"])
            if s["juxtaposed_cases"] == 0:
                ck.fatal("no juxtaposed pair was generated: NeedsSep is vacuous")
        if label in ("pairs", "separators"):
            judge.learn(cases)
        used_union |= (listed - set(s["unused_items"])) if listed else set()
    if not listed:
        ck.fatal("no meta record from the generator")
    unused = sorted(listed - used_union)
    if unused:
        ck.fatal("atoms / separators listed in CssTokens.tla but never used by a generated case: %s" % unused)
    kinds_used = {judge.kinds[n] for n in listed if n in judge.kinds}
    ck.cov["items_listed_and_used"] = len(listed)
    ck.cov["token_kinds_covered"] = sorted(kinds_used)

    # verdicts: TLC judges every recorded execution; pairs first (they fix which atoms are wrong on their own)
    for (label, cfg, variants, sample, sim), r, s, cases, tp in results:
        fails = validate_big(ck, tp)
        rejected = len({f["t"] for f in fails})
        if rejected > s["strict_differences"]:
            ck.fatal("%s: TLC rejected %d traces but the harness saw only %d differences" % (label, rejected, s["strict_differences"]))
        judge.run(fails, "replay of generated token sequences (%s, %s)" % (label, cfg))
    fails = validate_big(ck, is_trace)
    judge.run(fails, "IsIdent / IsURLUnquoted on every class string")
    ck.cov["states"] += is_r.distinct or 0
    ck.cov["transitions"] += is_r.generated or 0
    ck.cov["evaluations"] += is_sum["executions"]
    ck.cov["distinct_nontrivial"] += is_sum["distinct_nontrivial"]
    ck.cov["samples"] += (is_sum.get("samples") or [])[:1]
    ck.cov["is_clause"] = {"class_strings": is_sum["cases"], "distinct_arguments": is_sum["executions"], "true_counts": is_sum.get("is_true")}
    for k in ("isIdent", "oneIdent", "isURL", "oneURL"):
        if not (is_sum.get("is_true") or {}).get(k):
            ck.fatal("IsIdent/IsURLUnquoted clause is vacuous: %s was never true" % k)

    ck.cov["exhaustive"] = True
    ck.cov["constants"] = {"atoms": len(listed), "pairs": "all atoms x all atoms x {nothing where the table allows, space, newline, comment}",
                           "triples": ("all atoms" if thorough else "41 look-ahead sensitive atoms") + ", juxtaposed wherever the table and Merges allow",
                           "separators": "41 atoms squared x every separator item", "deep": "100 random sequences of 9 atoms, each with every admissible (separator, 10th atom) extension" if thorough else "-",
                           "class_strings_max_len": 5 if thorough else 4, "class_alphabet": 15}
    ck.cov["rule"] = ("token clause: every sequence TLC derived (pairs/triples exhaustive for the stated atom sets, thorough adds sampled sequences of 10 "
                      "atoms), spelled with seeded representatives per character class (variant 1 writes every newline as CR LF); non-trivial = case "
                      "with at least two items. Is clause: every class string up to the bound, distinct spelled arguments; non-trivial = IsIdent or "
                      "IsURLUnquoted true. In the thorough triples run every execution is compared by the harness and every differing one plus "
                      "every 25th is validated by TLC.")
    ck.assumptions += [
        "edition: CSS Syntax Level 3 CR 20 February 2014 (the edition that has unicode-range, match operators and column; url( \"x\" ) is one URL "
        "token there) plus custom property names (--x) as identifiers",
        "NeedsSep is the serialisation table of section 9 at token-type level (delimiters by character), derived in TLA+ as the closure of the "
        "character-level relation Merges; a pair is juxtaposed only if the table allows it; runs of three atoms are additionally checked with Merges",
        "comments are expected as Comment tokens (library's extra token); a BadString may or may not include the newline that ended it",
        "not generated (the standard or the statement leaves them open): NUL, backslash at end of input, escaped spellings of url, `--` directly "
        "after `-`, `@`, a number or an identifier, unterminated strings/comments/urls at end of input (except two BadURL shapes)",
    ]
    import c07impl                  # growth step: the implementation-shaped model (its own TLC runs, replay, MODEL-DRIFT evidence)
    c07impl.run(ck, thorough)


def is_pipeline(ck, thorough):
    cases = ck.path("cases-strings.ndjson")
    r = ck.tlc(SPEC, "CssClassStrings", "Strings_thorough.cfg" if thorough else "Strings_quick.cfg", label="generator: class strings",
               env={"VERIF_CASES": cases}, timeout=1500, count=False, workers=4)
    tp = ck.path("trace-is.ndjson")
    s = ck.drive("csstok", "is", "-cases", cases, "-out", tp, "-seed", ck.seed, "-variants", 2, "-longlen", 5, timeout=1500)
    if s["cases"] == 0:
        ck.fatal("class string generator produced no cases")
    ck.log("is         %8d class strings, %8d distinct arguments, %d disagreements" % (s["cases"], s["executions"], s["strict_differences"]))
    return s, tp, r


def replay(ck, path):
    obj = json.load(open(path))
    ck.cov["samples"] = [obj.get("line")]
    ck.cov["evaluations"] = 1
    if reproduce(ck, obj["line"]):
        ck.violation(obj["sig"], obj.get("what", "replayed execution rejected again"), {"line": obj["line"]})
