"""Growth step of C06 (DESIGN.md section 7, item 6): the JS lexer automaton.

I  spec/js/JsLexImpl.tla   js.Lexer.Next / RegExp over a class alphabet, function by function (level / templateLevels, longest-match
                           chains, numbers, strings, comments, templates, the driver's RegExp() re-entry).
   TLC: I => P on every class string up to the bound, per sub-alphabet (JsLexImpl_<name>.cfg): proto/TokenStream.tla (non-empty,
   contiguous, ordered, nothing skipped), exactly one error report, longest match / canonical names / neighbours per JsTokens.tla,
   number and regular-expression languages, bracket bookkeeping.  Defect configurations (plausible regressions) must be rejected.
   Every predicted report carries `det`: TRUE iff the property-level definition prescribes that token there (TLC: DetSound - a token
   flagged det is what JsTokens.tla's longest match and clause 12 yield; thorough tier also DetComplete - nothing prescribed is left unflagged).
   Differential replay: every class string with the model's predicted reports -> `vdrive jstok impl` -> compared with js.Lexer on
   representative bytes.  A difference is MODEL DRIFT (ck.cov["model_drift"]).  Where the first differing report is flagged det (the
   standard decides), the trace is written with the model's tokens as its expectation and JsTokensTrace.tla judges it like a generator
   case: its rejection becomes a VIOLATION jstok/impl/<prescribed kind>|<observed> with a reproduction (C06.judge).  Every other
   differing trace (and a sample of the agreeing ones) is judged by the all-input invariants alone and stays drift.
"""
import concurrent.futures
import json
import os
import re

import vcheck

QUICK = ["ops", "ops2", "numdec", "numpre", "tmpl", "nest", "nest2", "tesc", "str", "cmt", "html", "re", "id", "misc"]
THOROUGH = ["ops_t", "ops2_t", "numdec_t", "numpre_t", "tmpl_t", "nest_t", "nest2_t", "tesc_t", "str_t", "str6_t", "cmt_t", "html_t", "re_t", "re_always_t", "id_t", "misc_t"]
# (configuration, property TLC must report as violated, what the constant Defect switches on)
DEFECTS = [("defect_rbrace", "Brackets", "'}' continues a template whenever templateLevels is non-empty, whatever level is"),
           ("defect_optchain", "LongestMatch", "'?.' taken although a digit follows"),
           ("defect_exp", "NumLang", "exponent without digits accepted as DecimalToken"),
           ("defect_numident", "Adjacent", "identifier directly after a number not refused"),
           ("defect_gtgtgt", "LongestMatch", "'>>>' does not look for a following '='"),
           ("defect_reclass", "ReLang", "RegExp(): '/' inside a character class ends the literal"),
           ("defect_det", "DetSound", "the flag det set on a numeric token although an identifier character or digit follows ('0b1' in '0b12')")]
# vacuity: what a quick run must have predicted at least once
PUNCT = ["{", "}", "(", ")", "[", "]", ".", "...", ";", ",", "<", ">", "<=", ">=", "==", "!=", "===", "!==", "+", "-", "*", "/", "%", "**", "++", "--",
         "<<", ">>", ">>>", "&", "|", "^", "!", "~", "&&", "||", "??", "?", "?.", ":", "=", "+=", "-=", "*=", "/=", "%=", "**=", "<<=", ">>=", ">>>=",
         "&=", "|=", "^=", "&&=", "||=", "??=", "=>"]
KINDS = ["Whitespace", "LineTerminator", "Comment", "CommentLineTerminator", "String", "Template", "TemplateStart", "TemplateMiddle", "TemplateEnd",
         "RegExp", "PrivateIdentifier", "Identifier", "Decimal", "Binary", "Octal", "Hexadecimal", "Integer", "in", "of", "let", "async", "yield"]
ERRS = ["EOF", "unexpected", "unexpected EOF in comment", "unexpected identifier after number", "unexpected EOF or newline", "invalid number",
        "legacy octal numbers are not supported", "unterminated string literal", "unterminated template literal"]
_RE_INIT = re.compile(r"Finished computing initial states: (\d+) distinct state")


def _tlc(ck, name, label, thorough, **kw):
    return ck.tlc("js", "JsLexImpl", "JsLexImpl_%s.cfg" % name, label=label, count=False, workers=4, heap="2g" if thorough else "1g",
                  lib_dirs=(vcheck.COMMON, os.path.join(vcheck.SPEC, "proto")), timeout=2400 if thorough else 280, **kw)


def _selftest(ck):
    """Binding of the candidate path (on the unchanged tree no input differs, so nothing else exercises it): a planted prediction
    that differs from js.Lexer at a report flagged det must come back as a candidate and be rejected by JsTokensTrace.tla at that
    report; the same kind of difference without the flag must stay drift (a free trace, accepted)."""
    def tok(tt, n, hi, det=False, err=""):
        return {"tt": tt, "n": n, "hi": hi, "re": False, "err": err, "det": det, "pre": ""}
    cases = [{"cls": ["letter", "semi"], "toks": [tok("Identifier", 1, 1, True), tok(",", 1, 2, True), tok("Error", 0, 2, err="EOF")]},
             {"cls": ["letter", "comma"], "toks": [tok("Identifier", 1, 1, True), tok(";", 1, 2, False), tok("Error", 0, 2, err="EOF")]}]
    cp, tp = ck.path("implself.ndjson"), ck.path("implself-trace.ndjson")
    with open(cp, "w") as f:
        for c in cases:
            f.write(json.dumps(c) + "\n")
    s = ck.drive("jstok", "impl", "-cases", cp, "-out", tp, "-seed", ck.seed, "-traceevery", 0, "-variants", 1)
    fails = ck.validate("js", "JsTokensTrace", "JsTokensTrace.cfg", tp, shards=1)
    ck.cov["traces_validated_against_impl"] -= 2
    got = [(f["trace"][0].get("free"), f["trace"][0].get("ek"), f["i"]) for f in fails]
    if (s.get("mismatches"), s.get("candidates"), s.get("traces")) != (2, 1, 2) or got != [(False, ["Identifier", ","], 2)]:
        ck.fatal("selftest: planted differences (one prescribed, one open) gave mismatches/candidates/traces %s/%s/%s and rejections %s" %
                 (s.get("mismatches"), s.get("candidates"), s.get("traces"), got))
    os.remove(cp)
    os.remove(tp)


def run(ck, thorough):
    names = THOROUGH if thorough else QUICK
    ck.log("JsLexImpl: %d configurations + %d defect configurations" % (len(names), len(DEFECTS)))
    files = {n: ck.path("implcases-%s.ndjson" % n) for n in names}
    jobs = [(n, "I=>P: model of js.Lexer refines TokenStream / JsTokens on every class string (%s)" % n, {"env": {"VERIF_CASES": files[n]}}) for n in names]
    jobs += [(n, "model with a defect is rejected: %s" % what, {"expect_violation": prop, "env": {"VERIF_CASES": ck.path("unused")}}) for n, prop, what in DEFECTS]
    res, errors = {}, []

    def one(job):
        n, label, kw = job
        try:
            return n, _tlc(ck, n, label, thorough, **kw), None
        except vcheck.Fatal as ex:
            return n, None, ex

    # the runs are independent: several at once (ck.tlc's bookkeeping with count=False is append-only)
    with concurrent.futures.ThreadPoolExecutor(max_workers=max(1, min(4, ck.cores // 4))) as ex:
        for n, r, err in ex.map(one, jobs):
            if err is not None:
                errors.append(err)
            res[n] = r
    if errors:
        raise errors[0]
    ck.log("JsLexImpl: TLC done")
    allc = ck.path("implcases.ndjson")
    info, total = {}, 0
    with open(allc, "w") as out:
        for n in names:
            r = res[n]
            ck.cov["states"] += r.distinct or 0
            ck.cov["transitions"] += r.generated or 0
            m = _RE_INIT.search(r.out or "")
            if not m or not os.path.exists(files[n]):
                ck.fatal("JsLexImpl %s: no initial-state count or no cases" % n)
            k = 0
            for line in open(files[n]):
                out.write(line)
                k += 1
            # termination ("the reports end with an error report"): every input reached its error report, where the case is written
            if k != int(m.group(1)) or k < 2:
                ck.fatal("JsLexImpl %s: %d inputs but %d reached the error report" % (n, int(m.group(1)), k))
            info[n] = {"inputs": k, "states": r.distinct, "wall_s": round(r.wall_s, 1)}
            total += k
            os.remove(files[n])
    tp = ck.path("impltrace.ndjson")
    s = ck.drive("jstok", "impl", "-cases", allc, "-out", tp, "-seed", ck.seed, "-traceevery", 64 if thorough else 16, "-variants", 2 if thorough else 3, timeout=1800)
    if s.get("_rc") == 3:
        ck.fatal("jstok impl: a call into the lexer did not return")
    if s["executions"] < s["cases"] or s["cases"] < max(info[n]["inputs"] for n in names) or s["cases"] > total:
        ck.fatal("jstok impl: %d cases written, %d read, %d executed" % (total, s["cases"], s["executions"]))
    types, errs = s.get("types") or {}, s.get("errs") or {}
    missing = [x for x in PUNCT + KINDS if not types.get(x)] + ["error:" + x for x in ERRS if not errs.get(x)]
    if missing:
        ck.fatal("JsLexImpl: never predicted in this run (vacuity): %s" % missing)
    det = s.get("det_types") or {}
    missing = [x for x in PUNCT + KINDS if not det.get(x)]
    if missing or not s.get("det_reports"):
        ck.fatal("JsLexImpl: never flagged as prescribed (det) in this run (vacuity): %s" % missing)
    ck.cov["evaluations"] += s["executions"]
    ck.cov["distinct_nontrivial"] += s["distinct_nontrivial"]
    ck.cov["samples"] += (s.get("samples") or [])[:1]
    ck.cov["impl_model"] = {"spec": "js/JsLexImpl.tla", "configs": info, "class_strings": s["cases"], "reports_compared": s["reports_compared"],
                            "regexp_calls": s["regexp_calls"], "differences": s["mismatches"],
                            "reports_flagged_prescribed": s["det_reports"], "candidate_violations": s["candidates"],
                            "defect_configs_rejected": {n: prop for n, prop, _ in DEFECTS},
                            "rule": "every string over each configuration's sub-alphabet up to its bound (inputs) with the reports JsLexImpl.tla predicts; "
                                    "classes spelled by seed; compared: token type, byte length of the data, cursor after the call, RegExp() or Next, error message; "
                                    "a differing input is a candidate violation iff its first differing report is flagged det by the model (DetSound), "
                                    "the input is valid UTF-8 and every class is spelled by an exact representative; candidates are judged by "
                                    "JsTokensTrace.tla against the model's tokens"}
    ck.log("JsLexImpl: %d class strings, %d reports compared, %d differ from the model" % (s["cases"], s["reports_compared"], s["mismatches"]))
    if s["mismatches"]:
        # MODEL-DRIFT: evidence only (DESIGN.md 2.1); whether the code is wrong is decided below by the property-level trace spec alone
        ck.cov["model_drift"] += [{"spec": "js/JsLexImpl.tla", "cases_differing": s["mismatches"]}] + (s.get("drift_samples") or [])[:6]
        ck.notes.append("MODEL-DRIFT: js.Lexer differs from spec/js/JsLexImpl.tla on %d class strings (see coverage.model_drift); on %d of them "
                        "the first differing report is one the standard prescribes: judged against the model's tokens" % (s["mismatches"], s["candidates"]))
        ck.cov["model_drift"] += [{"candidate": x} for x in (s.get("candidate_samples") or [])[:3]]
    import C06                      # the traces are judged exactly as C06 judges its own
    fails = ck.validate("js", "JsTokensTrace", "JsTokensTrace.cfg", tp, timeout=1800)
    judged = sum(1 for f in fails if not f["trace"][0].get("free"))
    if judged != s["candidates"]:
        # a candidate differs from an expected token in kind, extent, text or the token before RegExp(): Matches cannot accept it
        ck.fatal("jstok impl: %d candidate traces written with an expectation, %d rejected by JsTokensTrace.tla" % (s["candidates"], judged))
    C06.judge(ck, fails, "impl")
    if not ck.violations and not ck.known_hits:
        _selftest(ck)               # (assumes that the lexer under test lexes 'g;' as an identifier and a semicolon)
    os.remove(tp)
    os.remove(allc)
