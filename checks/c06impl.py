"""Growth step of C06 (DESIGN.md section 7, item 6): the JS lexer automaton.

I  spec/js/JsLexImpl.tla   js.Lexer.Next / RegExp over a class alphabet, function by function (level / templateLevels, longest-match
                           chains, numbers, strings, comments, templates, the driver's RegExp() re-entry).
   TLC: I => P on every class string up to the bound, per sub-alphabet (JsLexImpl_<name>.cfg): proto/TokenStream.tla (non-empty,
   contiguous, ordered, nothing skipped), exactly one error report, longest match / canonical names / neighbours per JsTokens.tla,
   number and regular-expression languages, bracket bookkeeping.  Defect configurations (plausible regressions) must be rejected.
   Differential replay: every class string with the model's predicted reports -> `vdrive jstok impl` -> compared with js.Lexer on
   representative bytes.  A difference is MODEL DRIFT (ck.cov["model_drift"]), never a violation; the traces of differing cases (and a
   sample of the others) are judged by JsTokensTrace.tla exactly as C06.py judges its own traces.
"""
import concurrent.futures
import os
import re

import vcheck

QUICK = ["ops", "ops2", "numdec", "numpre", "tmpl", "nest", "nest2", "tesc", "str", "cmt", "html", "re", "id", "misc"]
THOROUGH = ["ops_t", "ops2_t", "numdec_t", "numpre_t", "tmpl_t", "nest_t", "nest2_t", "tesc_t", "str_t", "str6_t", "cmt_t", "html_t", "re_t", "re_always_t", "id_t", "misc_t"]
# (configuration, property TLC must report as violated, what the constant Defect switches on)
DEFECTS = [("defect_rbrace", "Brackets", "'}' continues a template whenever templateLevels is non-empty, whatever level is"),
           ("defect_optchain", "LongestMatch", "'?.' taken although a digit follows"),
           ("defect_exp", "NumLang", "exponent without digits accepted as DecimalToken"),
           ("defect_numident", "Adjacent", "identifier directly after a number not refused"),
           ("defect_gtgtgt", "LongestMatch", "'>>>' does not look for a following '='"),
           ("defect_reclass", "ReLang", "RegExp(): '/' inside a character class ends the literal")]
# vacuity: what a quick run must have predicted at least once
PUNCT = ["{", "}", "(", ")", "[", "]", ".", "...", ";", ",", "<", ">", "<=", ">=", "==", "!=", "===", "!==", "+", "-", "*", "/", "%", "**", "++", "--",
         "<<", ">>", ">>>", "&", "|", "^", "!", "~", "&&", "||", "??", "?", "?.", ":", "=", "+=", "-=", "*=", "/=", "%=", "**=", "<<=", ">>=", ">>>=",
         "&=", "|=", "^=", "&&=", "||=", "??=", "=>"]
KINDS = ["Whitespace", "LineTerminator", "Comment", "CommentLineTerminator", "String", "Template", "TemplateStart", "TemplateMiddle", "TemplateEnd",
         "RegExp", "PrivateIdentifier", "Identifier", "Decimal", "Binary", "Octal", "Hexadecimal", "Integer", "in", "of", "let", "async", "yield"]
ERRS = ["EOF", "unexpected", "unexpected EOF in comment", "unexpected identifier after number", "unexpected EOF or newline", "invalid number",
        "legacy octal numbers are not supported", "unterminated string literal", "unterminated template literal"]
_RE_INIT = re.compile(r"Finished computing initial states: (\d+) distinct state")


def _tlc(ck, name, label, thorough, **kw):
    return ck.tlc("js", "JsLexImpl", "JsLexImpl_%s.cfg" % name, label=label, count=False, workers=4, heap="2g" if thorough else "1g",
                  lib_dirs=(vcheck.COMMON, os.path.join(vcheck.SPEC, "proto")), timeout=2400 if thorough else 280, **kw)


def run(ck, thorough):
    names = THOROUGH if thorough else QUICK
    ck.log("JsLexImpl: %d configurations + %d defect configurations" % (len(names), len(DEFECTS)))
    files = {n: ck.path("implcases-%s.ndjson" % n) for n in names}
    jobs = [(n, "I=>P: model of js.Lexer refines TokenStream / JsTokens on every class string (%s)" % n, {"env": {"VERIF_CASES": files[n]}}) for n in names]
    jobs += [(n, "model with a defect is rejected: %s" % what, {"expect_violation": prop, "env": {"VERIF_CASES": ck.path("unused")}}) for n, prop, what in DEFECTS]
    res, errors = {}, []

    def one(job):
        n, label, kw = job
        try:
            return n, _tlc(ck, n, label, thorough, **kw), None
        except vcheck.Fatal as ex:
            return n, None, ex

    # the runs are independent: several at once (ck.tlc's bookkeeping with count=False is append-only)
    with concurrent.futures.ThreadPoolExecutor(max_workers=max(1, min(4, ck.cores // 4))) as ex:
        for n, r, err in ex.map(one, jobs):
            if err is not None:
                errors.append(err)
            res[n] = r
    if errors:
        raise errors[0]
    ck.log("JsLexImpl: TLC done")
    allc = ck.path("implcases.ndjson")
    info, total = {}, 0
    with open(allc, "w") as out:
        for n in names:
            r = res[n]
            ck.cov["states"] += r.distinct or 0
            ck.cov["transitions"] += r.generated or 0
            m = _RE_INIT.search(r.out or "")
            if not m or not os.path.exists(files[n]):
                ck.fatal("JsLexImpl %s: no initial-state count or no cases" % n)
            k = 0
            for line in open(files[n]):
                out.write(line)
                k += 1
            # termination ("the reports end with an error report"): every input reached its error report, where the case is written
            if k != int(m.group(1)) or k < 2:
                ck.fatal("JsLexImpl %s: %d inputs but %d reached the error report" % (n, int(m.group(1)), k))
            info[n] = {"inputs": k, "states": r.distinct, "wall_s": round(r.wall_s, 1)}
            total += k
            os.remove(files[n])
    tp = ck.path("impltrace.ndjson")
    s = ck.drive("jstok", "impl", "-cases", allc, "-out", tp, "-seed", ck.seed, "-traceevery", 64 if thorough else 16, "-variants", 2 if thorough else 3, timeout=1800)
    if s.get("_rc") == 3:
        ck.fatal("jstok impl: a call into the lexer did not return")
    if s["executions"] < s["cases"] or s["cases"] < max(info[n]["inputs"] for n in names) or s["cases"] > total:
        ck.fatal("jstok impl: %d cases written, %d read, %d executed" % (total, s["cases"], s["executions"]))
    types, errs = s.get("types") or {}, s.get("errs") or {}
    missing = [x for x in PUNCT + KINDS if not types.get(x)] + ["error:" + x for x in ERRS if not errs.get(x)]
    if missing:
        ck.fatal("JsLexImpl: never predicted in this run (vacuity): %s" % missing)
    ck.cov["evaluations"] += s["executions"]
    ck.cov["distinct_nontrivial"] += s["distinct_nontrivial"]
    ck.cov["samples"] += (s.get("samples") or [])[:1]
    ck.cov["impl_model"] = {"spec": "js/JsLexImpl.tla", "configs": info, "class_strings": s["cases"], "reports_compared": s["reports_compared"],
                            "regexp_calls": s["regexp_calls"], "differences": s["mismatches"],
                            "defect_configs_rejected": {n: prop for n, prop, _ in DEFECTS},
                            "rule": "every string over each configuration's sub-alphabet up to its bound (inputs) with the reports JsLexImpl.tla predicts; "
                                    "classes spelled by seed; compared: token type, byte length of the data, cursor after the call, RegExp() or Next, error message"}
    ck.log("JsLexImpl: %d class strings, %d reports compared, %d differ from the model" % (s["cases"], s["reports_compared"], s["mismatches"]))
    if s["mismatches"]:
        # MODEL-DRIFT: evidence only (DESIGN.md 2.1); whether the code is wrong is decided below by the property-level trace spec alone
        ck.cov["model_drift"] += [{"spec": "js/JsLexImpl.tla", "cases_differing": s["mismatches"]}] + (s.get("drift_samples") or [])[:6]
        ck.notes.append("MODEL-DRIFT: js.Lexer differs from spec/js/JsLexImpl.tla on %d class strings (see coverage.model_drift)" % s["mismatches"])
    import C06                      # the traces are judged exactly as C06 judges its own
    C06.judge(ck, ck.validate("js", "JsTokensTrace", "JsTokensTrace.cfg", tp, timeout=1800), "impl")
    os.remove(tp)
    os.remove(allc)
