"""C20 - Distinct parser instances are independent and safe to use concurrently.

P  spec/conc/Isolation.tla       K goroutines x calls, interleaved in every way, over the package-level access facts of module GlobalsGen,
                                 which `vdrive conc globals` generates from /repo's current source; TLC: NonInterference, RaceFree
T  spec/conc/IsolationTrace.tla  per-goroutine task logs of a real concurrent run under the race detector, and history-independence runs
"""
import json
import os
import shutil
import subprocess

import tlc as tlcmod
import vcheck


def build_race(ck):
    hdir = os.path.join(vcheck.VERIF, "harness")
    env = dict(os.environ)
    env.update(vcheck.GOENV)
    out = ck.path("vdrive-race")
    for tags in (["-tags", "verif"], []):
        p = subprocess.run(["go", "build", "-race"] + ck.modfile() + tags + ["-o", out, "./cmd/vdrive"], cwd=hdir, env=env, stdout=subprocess.PIPE,
                           stderr=subprocess.STDOUT, text=True)
        if p.returncode == 0:
            return out
    ck.fatal("race-enabled harness does not build:\n" + p.stdout[-2000:])


def run(ck):
    thorough = ck.tier == "thorough"
    # --- the code's package-level access facts -> TLA+ module -> TLC
    sdir = ck.path("conc-spec")
    shutil.copytree(os.path.join(vcheck.SPEC, "conc"), sdir)
    g = ck.drive("conc", "globals", "-out", os.path.join(sdir, "GlobalsGen.tla"))
    r = tlcmod.run_tlc(sdir, "Isolation", "Isolation.cfg", ck.work, workers=4, timeout=600, lib_dirs=(vcheck.COMMON,))
    ck.cov["tlc_runs"].append({"spec": "conc/Isolation", "cfg": "Isolation.cfg", "generated": r.generated, "distinct": r.distinct, "wall_s": round(r.wall_s, 2),
                               "label": "all interleavings of K=3 goroutines x 2 calls over the extracted access facts", "violated": r.violated})
    ck.cov["states"] += r.distinct or 0
    ck.cov["transitions"] += r.generated or 0
    ck.cov["globals"] = {"package_level_variables": g["globals"], "functions_touching_them": g["functions_touching_globals"],
                         "writers": g["writers"], "address_or_slice_handed_to_a_callee": [e["name"] for e in g["escapers"]]}
    model_says = None
    if r.violated:
        model_says = "Isolation.tla: %s is violated for the access facts of the current source (writers: %s)" % (
            r.violated, ", ".join("%s writes %s" % (w["name"], w["writes"]) for w in g["writers"]))
        ck.notes.append("candidate from the model (a verdict needs an execution): " + model_says)
    elif not r.ok:
        ck.fatal("TLC on Isolation failed: %s\n%s" % (r.error, r.out[-2000:]))
    ck.cov["exhaustive"] = True
    ck.cov["constants"] = {"K": 3, "Steps": 2}
    # --- executions under the race detector
    race = build_race(ck)
    traces = ck.path("conc.ndjson")
    seeds = [ck.seed, ck.seed + 1, ck.seed + 2] + ([ck.seed + 2, ck.seed + 3, ck.seed + 4] if thorough else [])
    allp = []
    races = 0
    report = ""
    for s in seeds:
        tp = ck.path("conc-%d.ndjson" % s)
        env = dict(os.environ, GORACE="halt_on_error=0 exitcode=66")
        p = subprocess.run([race, "conc", "run", "-out", tp, "-seed", str(s), "-tasks", str(6000 if thorough else 2000)], cwd=ck.work, env=env,
                           stdout=subprocess.PIPE, stderr=subprocess.PIPE, text=True, timeout=3000)
        n = p.stderr.count("WARNING: DATA RACE")
        races += n
        if n and not report:
            report = p.stderr[:3000]
        if p.returncode not in (0, 66):
            ck.fatal("concurrent driver failed rc=%d: %s" % (p.returncode, p.stderr[-1500:]))
        summ = json.loads(p.stdout.strip().split("\n")[-1])
        ck.cov["evaluations"] += summ["executions"]
        ck.cov["distinct_nontrivial"] += summ["distinct_nontrivial"]
        ck.cov["samples"] = summ.get("samples", [])[:1]
        ck.cov["entry_point_kinds"] = sorted(summ.get("kinds", []))
        allp.append(tp)
    hp = ck.path("hist.ndjson")
    digs = []
    for k, order in enumerate(("fwd", "rev")):       # two fresh processes, the second starts with the tasks in reversed order
        dp = ck.path("digests-%d.json" % k)
        h = ck.drive("conc", "history", "-out", hp if k == 0 else ck.path("hist2.ndjson"), "-seed", ck.seed, "-tasks", 1000 if thorough else 300,
                     "-order", order, "-digests", dp)
        digs.append(json.load(open(dp)))
        ck.cov["evaluations"] += h["executions"]
    across = [i for i in range(len(digs[0])) if digs[0][i] != digs[1][i]]
    with open(traces, "w") as out:
        tid = 0
        for tp in allp + [hp, ck.path("hist2.ndjson")]:
            for line in open(tp):
                e = json.loads(line)
                if e["ev"] == "Open":
                    tid += 1
                e["t"] = tid
                out.write(json.dumps(e, separators=(",", ":")) + "\n")
        tid += 1
        dumps = lambda o: json.dumps(o, separators=(",", ":"))
        out.write(dumps({"t": tid, "i": 0, "ev": "Open", "out": "ret", "mode": "verdicts"}) + "\n")
        out.write(dumps({"t": tid, "i": 1, "ev": "Race", "out": "ret", "races": races}) + "\n")
        out.write(dumps({"t": tid, "i": 2, "ev": "History", "out": "ret", "id": -1, "kind": "across-processes-started-in-opposite-order (tasks %s)" % across[:5], "same": not across}) + "\n")
    fails = ck.validate("conc", "IsolationTrace", "IsolationTrace.cfg", traces, shards=4)
    for f in fails:
        ev = next((x for x in f["trace"] if x["i"] == f["i"]), {})
        if ev.get("ev") == "Race":
            sig, what = "conc/data-race", "the race detector reported %d data race(s) while goroutines drove private instances:\n%s" % (races, report[:1500])
        elif ev.get("ev") == "History":
            sig, what = "conc/result-depends-on-history/%s" % ev.get("kind"), "task %s (%s) returns a different result depending on what ran before in the process" % (ev.get("id"), ev.get("kind"))
        else:
            sig, what = "conc/result-differs-under-concurrency/%s" % ev.get("kind"), "task %s (%s) returned a different result when run concurrently with others than alone" % (ev.get("id"), ev.get("kind"))
        if model_says:
            what += "  [model: " + model_says + "]"
        ck.violation(sig, what, {"suite": "conc", "event": ev, "seed": ck.seed,
                                 "how": "bin/check C20 re-runs the concurrent driver under the race detector with the same seed"})
    ck.cov["rule"] = ("tasks: a seeded mix of eleven kinds of entry-point calls (lexers, parsers, AST methods, strconv, helpers, cursors, binary reader/writer) on "
                      "private data, each compared with its solo result, run by 2/4/16 goroutines at GOMAXPROCS 1/2/4/16 with seeded Gosched under -race; "
                      "history: the same tasks in order, after 1000 unrelated calls, reversed, and in a second process.")
    ck.assumptions += ["package-level access facts are extracted syntactically (assignments, ++/--, copy/clear, range-assign to package-level variables outside init; "
                       "shadowing handled conservatively); a write found by the model is only a candidate until an execution shows a race or a differing result",
                       "the race detector only sees the interleavings that happen; schedules are perturbed by seed"]


def replay(ck, path):
    ck.fatal("C20 has no single-case replay: re-run bin/check C20 with VERIF_SEED set to the seed in the replay file")
