"""C03 - js.Parse builds the tree the ECMAScript grammar prescribes; rejects bad code.

G+P  spec/js/JsGrammar.tla       the stratified ECMA-262 grammar (expression ladder, statements, bindings, classes, ASI as spelling
                                 choices) as leftmost derivations; for every derived program the token sequence and the rendering of the
                                 prescribed tree in the format of AST.String(); the positions where one bracket mutation / the removal of
                                 a mandatory pair of parentheses makes the program ill-formed; assignment to a binary expression and
                                 lexical redeclarations.  TLC enumerates every derivation within the budgets of a configuration and
                                 samples large ones with -simulate.
T    spec/js/JsGrammarTrace.tla  judges the traces of harness/suites/jsgram (accept => tree returned and String() = canon under every
                                 Options value, WhileToFor only replacing while by for; reject => no tree)
"""
import concurrent.futures
import json
import os
import re

import vcheck

# (name, cfg, bracket-mutation level: 2 all / 1 a seeded third, sampling period of agreeing traces)
QUICK = [("exprfull", "G_exprfull.cfg", 2, 150), ("expr3", "G_expr3.cfg", 1, 300), ("leaves", "G_leaves.cfg", 1, 400), ("neg", "G_neg.cfg", 2, 50),
         ("stmt1", "G_stmt1.cfg", 2, 100), ("stmt2", "G_stmt2.cfg", 2, 100), ("asi", "G_asi.cfg", 1, 400), ("asi3", "G_asi3.cfg", 2, 50),
         ("bind", "G_bind.cfg", 2, 100), ("bind3", "G_bind3.cfg", 1, 300), ("arrowpat", "G_arrowpat.cfg", 1, 200), ("asgpat", "G_asgpat.cfg", 2, 100),
         ("asgpat2", "G_asgpat2.cfg", 2, 100), ("class", "G_class.cfg", 2, 100), ("classbody", "G_classbody.cfg", 2, 100),
         ("classasi", "G_classasi.cfg", 2, 20), ("forin", "G_forin.cfg", 1, 300), ("forinpat", "G_forinpat.cfg", 2, 100),
         ("forlhs", "G_forlhs.cfg", 2, 50),
         ("kw", "G_kw.cfg", 1, 300), ("kwlt", "G_kwlt.cfg", 1, 300), ("kwclass", "G_kwclass.cfg", 2, 50), ("commapos", "G_commapos.cfg", 1, 100),
         ("commafor", "G_commafor.cfg", 2, 50), ("nlsemi", "G_nlsemi.cfg", 1, 50), ("brknl", "G_brknl.cfg", 1, 100)]
THOROUGH = [("expr4", "T_expr4.cfg", 1, 1000), ("expr3b", "T_expr3b.cfg", 1, 1000), ("stmt3", "T_stmt3.cfg", 1, 1000), ("asi4", "T_asi4.cfg", 1, 2000),
            ("bind4", "T_bind4.cfg", 1, 500),
            ("kw2", "T_kw2.cfg", 1, 1000), ("kwlt2", "T_kwlt2.cfg", 1, 1000), ("kwclass3", "T_kwclass.cfg", 1, 500), ("commapos3", "T_commapos.cfg", 1, 1000), ("commafor3", "T_commafor.cfg", 1, 500),
            ("nlsemi3", "T_nlsemi.cfg", 1, 500)]
CONSTANTS = {
    "G_exprfull": "every expression with <= 2 operator nodes over the full operator vocabulary (25 binary, 16 assignment, 8 unary, ++/-- prefix and postfix, "
                  "new with/without arguments, call, optional call/member/index, member, index, tagged template, template, conditional, comma, yield, yield*, spread, arrow, async arrow, parentheses)",
    "G_expr3": "<= 3 operator nodes over one or two representatives per ladder level",
    "G_leaves": "every primary expression kind (literals incl. regexp/template/brackets inside tokens, this, new.target, import.meta, array/object literals with holes, spread, "
                "computed keys, methods, function/class/arrow expressions) under one operator",
    "G_stmt1": "every statement kind with one nested statement, two statements at top level", "G_stmt2": "representative statement kinds, <= 3 nested",
    "G_asi": "terminator spelled ';' / line break / omitted for every statement kind ending in ';' x every kind of following token", "G_asi3": "ASI spellings nested 3 deep",
    "G_bind": "binding patterns (<= 2 pattern nodes) in every binding context", "G_bind3": "patterns with <= 4 pattern nodes in a let declaration",
    "G_arrowpat": "arrow parameters through the cover grammar with computed keys and defaults", "G_asgpat": "destructuring assignment targets", "G_asgpat2": "nested ones",
    "G_forin": "the [In] parameter: `in` bare and inside every kind of bracket in the head of a for statement", "G_forinpat": "`in` inside binding patterns of for heads",
    "G_forlhs": "expression left sides of for-in / for-of (member chains on function/class expressions incl. async, patterns)",
    "G_class": "class declarations: every element kind pairwise, heritage", "G_classbody": "statements in methods, private names, static blocks", "G_classasi": "class field terminators",
    "G_neg": "assignment to a binary expression, lexical redeclaration pairs, parentheses whose removal gives -a**b or ?? mixed with ||/&&",
    "T_expr4": "<= 4 operator nodes over nine operators", "T_expr3b": "<= 3 operator nodes over the other representatives of each level",
    "T_stmt3": "every statement kind, <= 3 nested", "T_asi4": "ASI spellings, <= 3 statements nested", "T_bind4": "patterns with <= 4 pattern nodes",
    "G_kw": "identifiers named async / let / of / get / set / static / await / yield as (the right edge of) an expression statement ended by ';' or a line break, before every "
            "kind of statement start (function, async function, arrow, async arrow, let declaration with a line break after let, ++/--, block, if, label); throw + line break",
    "G_kwlt": "one line break inside a statement: after such an identifier, a unary operator, new, get (kept tree); after async of a function expression / arrow / method and "
              "before => (rejected where nothing else derives the text)",
    "G_kwclass": "class members named async / get / set / static (fields ended by ';' / line break / '}', methods), get / set / static followed by a line break",
    "G_commapos": "positions taking an AssignmentExpression: an un-parenthesised comma expression in the middle of a conditional, a computed name, a class heritage, a field "
                  "initialiser (rejected) and behind every operand that leaves it to those; the parenthesised one, and the list contexts that re-read the comma (accepted)",
    "G_commafor": "the same for the right-hand side of for-of / for-await (rejected) against for-in / for / while heads (Expression: accepted)",
    "G_nlsemi": "the terminating ';' written on the next line, for every statement kind ending in ';' incl. the bodies of if-else / do-while / labels",
    "G_brknl": "break / continue followed by a line break and an identifier (two statements) inside switch / loops / labelled statements",
    "T_kw2": "G_kw with <= 2 operator nodes", "T_kwlt2": "G_kwlt with index / template / property brackets, postfix, typeof, async generator and block-bodied async arrow, all eight names", "T_kwclass": "G_kwclass with <= 3 members / parameters", "T_commapos": "G_commapos with <= 3 operator nodes",
    "T_commafor": "G_commafor with <= 3 operator nodes", "T_nlsemi": "G_nlsemi, <= 3 statements nested",
    "G_sim": "-simulate: MaxE=7 MaxS=6 MaxX=6 MaxP=2 MaxL=3 MaxTop=3 over the whole vocabulary",
}


def clean(name):
    return name[:-1] if name.endswith(":") else name


def pair_feats(o):
    out = []
    for p in o.get("pairs") or []:
        a, b = p.split(">", 1)
        out.append(clean(a) + ">" + clean(b))
    return out


NOISE = {"expr", "id", "ps", "blk", "bid", "psid", "dc", "empty", "dci"}


def klass(o, evs):
    if any(x.get("out") != "ret" for x in evs[1:]):
        return "panic"
    if o["kind"] == "accept":
        return "rejected-valid" if not all(x.get("ok") for x in evs[1:]) else "wrong-structure"
    if o["kind"] == "parses":
        return "rejected-valid"
    return "accepted-invalid"


def nl_feat(o, evs):
    """a parse error reported at the first column of a line: name the line break before it"""
    nl = o.get("nl") or []
    for x in evs[1:]:
        m = re.search(r"on line (\d+) and column (\d+)", x.get("etext") or "")
        if m and int(m.group(2)) == 1 and 2 <= int(m.group(1)) <= len(nl) + 1:
            a, b = nl[int(m.group(1)) - 2].split("|", 1)
            return "nl-after:%s/before:%s" % (a, b)
    return None


def tree_of(o):
    """rebuild the tree from the prefix-order constructor names and their arities (only to NAME a disagreement)"""
    ops, ar = o.get("ops") or [], o.get("ar") or []
    if len(ops) != len(ar):
        return []
    pos = [0]

    def build(parent):
        i = pos[0]
        pos[0] += 1
        node = {"n": clean(ops[i]), "k": ops[i].split(":")[0], "c": [], "p": parent}
        for _ in range(ar[i]):
            node["c"].append(build(node))
        return node
    roots = []
    try:
        while pos[0] < len(ops):
            roots.append(build(None))
    except IndexError:
        return []
    return roots


def walk(n):
    yield n
    for c in n["c"]:
        for x in walk(c):
            yield x


def in_arrow_params(n):
    while n["p"] is not None:
        if n["p"]["k"] in ("arrow", "arrowb") and n["k"] in ("ps", "psid"):
            return True
        n = n["p"]
    return False


def detectors(o, evs):
    """named mechanisms (each corresponds to one way js.Parse is known to be able to go wrong); evaluated on disagreeing cases only"""
    out = []
    ops, nl, accept = o.get("ops") or [], o.get("nl") or [], o["kind"] == "accept"
    # full signatures (second symptoms of defects that are listed under the signature the tree check gives them)
    if accept and "kfield:async" in ops and any(x.startswith("async|") for x in nl):
        # class A { async <line break> me(){} }: the field async is lost / the next member is read as the name of an async method
        out.append("jstree/yield/class-element/modifier-not-in-tree/async-newline")
    if not accept and o.get("why") == "line-break-in-restricted-production" and "arr:" in ops and any(x.startswith("async|") for x in nl):
        # [async <line break> x => y] is read as the two elements async and x => y: array elements without a comma between them
        out.append("jstree/yield/arr/tree:,/async-newline")
    if accept and any(x.endswith("|;") for x in nl):
        out.append("jsgram/semicolon-on-next-line/" + klass(o, evs))
    if out:
        return out
    src = re.sub(r"/\*.*?\*/", " ", bytes(o["src"]).decode("utf-8", "replace"))
    etext = " ".join((x.get("etext") or "") for x in evs[1:])
    if re.search(r"yield\s*\}(t`|m\$\{)", src) and "unexpected }" in etext:
        out.append("yield-before-template-continuation")
    if re.search(r"for\s*\(\s*async\b", src) and "forin:e" in (o.get("ops") or []):
        out.append("for-in/left-side-starting-with-async")
    roots = tree_of(o)
    for r in roots:
        for n in walk(r):
            if n["k"] == "bpcomp" and in_arrow_params(n) and any(x["k"] in ("arr", "obj") for x in walk(n["c"][0])) and "=>" in etext:
                out.append("arrow-params/computed-key-holding-literal")
            if n["k"] == "bdef" and in_arrow_params(n) and n["c"][0]["k"] in ("barr", "bobj") and any(x["k"] in ("arr", "obj") for x in walk(n["c"][1])) and "=>" in etext:
                out.append("arrow-params/pattern-default-holding-literal")
            if n["k"] in ("for", "forin", "forof", "forawait") and "instead of in in" in etext:
                head = n["c"][:-1]
                if any(x["n"] == "bin:in" for h in head for x in walk(h)):
                    out.append("for-head/in-inside-brackets-or-pattern")
    return out


class Classifier:
    def __init__(self, ck):
        self.known = [k.get("sig", "") for k in vcheck.load_known() if k.get("property") == ck.pid and k.get("status") == "open"]
        self.established = set()   # features that already explained a smaller disagreement in this run
        self.fail_with, self.pass_with = {}, {}

    def is_known(self, sig):
        return any(sig == k or (k.endswith("*") and sig.startswith(k[:-1])) for k in self.known)

    def learn(self, trace_path, fails):
        failed = {(f["t"]) for f in fails}
        cur, tid = None, None
        for line in open(trace_path):
            if '"ev":"Open"' in line:
                e = json.loads(line)
                table = self.fail_with if e["t"] in failed else self.pass_with
                for p in set(pair_feats(e)):
                    table[p] = table.get(p, 0) + 1

    def sig_of(self, f, period):
        evs = f["trace"]
        o = evs[0]
        c = klass(o, evs)
        det = detectors(o, evs)
        if det and det[0].startswith(("jstree/", "jsgram/")):
            return det[0]
        if o["kind"] != "accept":
            first = next((clean(x) for x in (o.get("ops") or []) if clean(x).split(":")[0] not in NOISE), "program")
            return "jsgram/%s@%s/%s" % (o.get("why"), first, c)
        cands = []
        n = nl_feat(o, evs)
        if n:
            cands.append(n)
        if det:
            return "jsgram/%s/%s" % (det[0], c)
        pf = pair_feats(o)
        cands += pf
        for ft in cands:                       # a listed or already established mechanism explains it
            s = "jsgram/%s/%s" % (ft, c)
            if self.is_known(s) or ft in self.established:
                return s
        if n:
            best = n
        elif pf:
            def score(p):
                fw, pw = self.fail_with.get(p, 0), self.pass_with.get(p, 0) * period
                return (fw / float(fw + pw + 1e-9), fw, pf.index(p))
            sig_pairs = [p for p in pf if p.split(">")[1].split(":")[0] not in NOISE] or pf
            best = max(sig_pairs, key=score)
        else:
            best = next((clean(x) for x in (o.get("ops") or [])), "program")
        self.established.add(best)
        return "jsgram/%s/%s" % (best, c)


def reproduce(ck, o):
    p = ck.path("rerun-in.ndjson")
    with open(p, "w") as f:
        f.write(json.dumps({k: o.get(k) for k in ("src", "kind", "why", "canon", "canonw", "ops", "pairs", "ar", "nl", "nodes", "rep")}) + "\n")
    ck.drive("jsgram", "file", "-in", p, "-out", ck.path("rerun.ndjson"))
    again = ck.validate("js", "JsGrammarTrace", "JsGrammarTrace.cfg", ck.path("rerun.ndjson"), shards=1)
    ck.cov["traces_validated_against_impl"] -= 1
    return bool(again)


def text(b):
    return bytes(b or []).decode("utf-8", "replace")


def judge(ck, cl, fails, origin, period):
    fails.sort(key=lambda f: (len(f["trace"][0].get("ops") or []), f["t"]))
    for f in fails:
        evs = f["trace"]
        o = evs[0]
        sig = cl.sig_of(f, period)
        if sig in ck.violations or sig in ck.known_hits or sig in getattr(ck, "known_alias", {}):
            ck.violation(sig, "", {})
            continue
        if not reproduce(ck, o):
            ck.fatal("rejected trace did not reproduce: %s" % sig)
        ev = next((x for x in evs if x["i"] == f["i"]), {})
        what = "js.Parse(%s) with Options #%s: " % (json.dumps(text(o["src"])), ev.get("opts"))
        if o["kind"] == "parses":
            what += "error %s; the grammar derives the program" % json.dumps(ev.get("etext"))
            if o.get("rep"):
                what += " (%d copies of 'src', each the body of a block)" % o["rep"]
        elif o["kind"] == "accept":
            what += ("error %s" % json.dumps(ev.get("etext")) if not ev.get("ok") else "String() = %s" % json.dumps(text(ev.get("str"))))
            what += "; the grammar derives the program, prescribed tree: %s" % json.dumps(text(o["canonw"] if ev.get("w2f") else o["canon"]))
        else:
            what += "returned a tree %s; expected an error (%s)" % (json.dumps(text(ev.get("str"))), o.get("why"))
        ck.violation(sig, what, {"suite": "jsgram", "origin": origin, "src": o["src"], "kind": o["kind"], "why": o.get("why"), "canon": o["canon"],
                                 "canonw": o["canonw"], "ops": o.get("ops"), "pairs": o.get("pairs"), "ar": o.get("ar"), "nl": o.get("nl"), "nodes": o.get("nodes"), "rep": o.get("rep", 0),
                                 "text": text(o["src"]), "rejected_event_index": f["i"],
                                 "how": "bin/check C03 --replay <this file> parses 'src' again under every Options value and validates the trace with spec/js/JsGrammarTrace.tla"})


def vocab_of(out):
    i = out.find('"VOCAB"')
    if i < 0:
        return set()
    j = out.find(">>", i)
    return set(re.findall(r'"([^"]*)"', out[i + 7:j]))


def run(ck):
    thorough = ck.tier == "thorough"
    import c03climb
    c03climb.run(ck, thorough)      # design level: the precedence-climbing loop of parse.go equals the ladder grammar (spec/js/JsClimb.tla)
    plan = list(QUICK) + (list(THOROUGH) if thorough else [])
    results = {}

    def gen(item):
        name, cfg, _, _ = item
        cases = ck.path("cases-%s.ndjson" % name)
        r = ck.tlc("js", "JsGrammar", cfg, label="generator: " + CONSTANTS.get(cfg[:-4], cfg), env={"VERIF_CASES": cases}, timeout=3000 if thorough else 600,
                   workers=4, heap="6g")
        return name, cases, r.out

    with concurrent.futures.ThreadPoolExecutor(max_workers=max(1, ck.cores // 4)) as ex:
        for name, cases, out in ex.map(gen, plan):
            results[name] = (cases, out)
    sim = ck.path("cases-sim.ndjson")
    ck.tlc("js", "JsGrammar", "G_sim.cfg", label="generator: random large programs (-simulate)", env={"VERIF_CASES": sim}, timeout=3000,
           simulate=40000 if thorough else 2500, depth=100, seed=ck.seed, workers=min(8, ck.cores), count=False, heap="6g")
    plan.append(("sim", "G_sim.cfg", 1, 100))
    results["sim"] = (sim, "")
    vocab = set()
    for _, out in results.values():
        vocab |= vocab_of(out)
    if not vocab:
        ck.fatal("the specification did not print its vocabulary")
    cl = Classifier(ck)
    seen_quick = set()
    merged = ck.path("trace-all.ndjson")
    origin = []          # (first trace id, last trace id, configuration, sampling period)
    offset, precheck = 0, 0
    with open(merged, "w") as mf:
        for name, cfg, muts, period in plan:
            cases = results[name][0]
            if not os.path.exists(cases) or os.path.getsize(cases) == 0:
                ck.fatal("generator %s produced no cases" % cfg)
            tp = ck.path("trace-%s.ndjson" % name)
            probes = results.get("exprfull", (None,))[0]      # holds the statement `a in b ;` (probe for parser state leaking into the next statement)
            s = ck.drive("jsgram", "replay", "-cases", cases, "-out", tp, "-seed", ck.seed, "-muts", muts, "-sample", period,
                         *(["-probes", probes] if probes and os.path.exists(probes) else []), timeout=3000)
            if s["cases"] == 0:
                ck.fatal("generator %s produced no cases" % cfg)
            ck.cov["evaluations"] += s["executions"]
            ck.cov["distinct_nontrivial"] += s["distinct_nontrivial"]
            ck.cov.setdefault("programs_expected_accepted", 0)
            ck.cov.setdefault("programs_expected_rejected", 0)
            ck.cov["programs_expected_accepted"] += s["expected_accept"]
            ck.cov["programs_expected_rejected"] += s["expected_reject"]
            if len(ck.cov["samples"]) < 4:
                ck.cov["samples"] += (s.get("samples") or [])[:1]
            if name != "sim" and (name, cfg, muts, period) in QUICK:
                seen_quick |= set(s.get("ops_seen") or [])
            precheck += s["mismatches"]
            hi = offset
            for line in open(tp):      # trace ids restart at 1 in every file: renumber
                m = re.search(r'"t":(\d+)', line)
                t = int(m.group(1)) + offset
                hi = max(hi, t)
                mf.write(line[:m.start()] + '"t":%d' % t + line[m.end():])
            origin.append((offset + 1, hi, name, period))
            offset = hi
            os.remove(tp)
    fails = ck.validate("js", "JsGrammarTrace", "JsGrammarTrace.cfg", merged, timeout=3000)
    if precheck != len({f["t"] for f in fails}):
        ck.fatal("the harness pre-check saw %d disagreements, the trace specification rejected %d traces" % (precheck, len(fails)))
    if fails:
        cl.learn(merged, fails)
        for lo, hi, name, period in origin:
            part = [f for f in fails if lo <= f["t"] <= hi]
            if part:
                judge(ck, cl, part, name, period)
    missing = sorted(vocab - seen_quick)
    if missing:
        ck.fatal("vacuous: constructors of the vocabulary that never occur in an emitted quick case: %s" % ", ".join(missing))
    ck.cov["vocabulary"] = len(vocab)
    ck.cov["exhaustive"] = True
    ck.cov["constants"] = {k: v for k, v in CONSTANTS.items()}
    ck.cov["rule"] = ("every program derivable from the grammar of JsGrammar.tla within the budgets of each configuration (TLC, exhaustive), spelled with seeded separators "
                      "(spaces, tabs, comments, squeezed around brackets) and identifier spellings, parsed under all four Options values; per program every single bracket "
                      "deletion and bracket insertion at statement boundaries (a seeded third for the large configurations), every removal of a parenthesis pair that leaves "
                      "-a**b or ?? mixed with ||/&&; non-trivial = distinct accepted program with at least two operator/statement nodes.")
    ck.assumptions += [
        "goal symbol: a Script body (sloppy mode) plus module-level await/yield handled by wrapping the program in the matching function kind; "
        "early errors other than the listed ones are avoided by construction (fresh names, valid assignment targets, labels in scope, no yield/await in parameters)",
        "an EmptyStatement directly after another statement of a list is not generated: js.Parse does not keep it in the tree ('{};' prints as 'Stmt({ })')",
        "a line break is used as terminator only before tokens that cannot continue the statement (identifier/keyword/literal/!/~/++/--/{) or after return/break/continue/yield, "
        "where the restricted productions make the reading unambiguous",
        "not generated: with, import/export, optional chain as tag of a template / assignment target, 'new a?.b' (not derivable; js.Parse accepts it), "
        "string keys of methods; a keyword-named identifier (async, let, of, get, set, static, await, yield) at the start of a for head, as a parameter / binding name, "
        "as a shorthand property; await / yield as identifiers only where no async / generator function encloses them (await: inside a plain function, js.Parse reads a "
        "top-level await as the operator); let / static / yield as identifiers not inside class bodies (strict mode code)",
        "a line break inside a statement is put after one node per program; an un-parenthesised comma expression where the grammar takes an AssignmentExpression is "
        "generated only where the text has no other derivation (not behind operands of argument / element / property / declarator / parameter lists)",
    ]
    import c03scope
    c03scope.run(ck, thorough)      # the programs of the scope generator (shadowing / redeclaration verdicts) under every Options value
    import c03tree
    c03tree.run(ck, thorough)       # code -> spec: the returned tree of arbitrary accepted inputs (yield, ladder, context) judged by spec/js/JsTreeTrace.tla


def replay(ck, path):
    obj = json.load(open(path))
    if obj.get("suite") == "jstree":
        import c03tree
        return c03tree.replay(ck, obj)
    ck.cov["samples"] = [{"src": obj.get("text"), "kind": obj.get("kind")}]
    ck.cov["evaluations"] = 4
    if reproduce(ck, obj):
        ck.violation(obj["sig"], obj.get("what", "replayed program rejected again"), {k: obj.get(k) for k in ("src", "kind", "canon", "canonw", "text")})
