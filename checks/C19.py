"""C19 - BinaryReader/Writer round-trip and honour io contracts on every backend.

P  spec/binary/Binary.tla        property-level reader / writer / bitmaps (judge); no notion of a backend
G  spec/binary/BinaryGen.tla     TLC enumerates call sequences (data length 0..9 x both orders x all (off, whence) with
                                 target in [-1, Len+1] ...), typed-write sequences and bit strings, each step a step of P,
                                 with what P says must be observed
I  spec/binary/BinaryImpl.tla    the five Bytes(b,n,off) implementations + BinaryReader methods as coded; TLC: with the five
                                 proposed repairs I => P, without any one of them Refines is violated (design level only:
                                 this model is not compared with the code, verdicts never depend on it)
T  spec/binary/BinaryTrace.tla   validates traces of the real code (one event per public call) against P

Scenarios are replayed on every backend (memory, Bytes()-reader, plain io.Reader with known length -- also one that
returns io.EOF together with the last bytes --, io.Reader with n<0, io.ReadSeeker with n>=0 and n<0, io.ReaderAt, file,
mmap).  The harness compares with the canonical expectation only to decide which traces to hand to TLC (all that
differ, a bounded number per shape of difference, plus a systematic sample); the verdict is BinaryTrace.tla's.
"""
import concurrent.futures
import json
import os
import re

FIXED_R = {"ReadUint8": 1, "ReadUint16": 2, "ReadUint24": 3, "ReadUint32": 4, "ReadUint64": 8,
           "ReadInt8": 1, "ReadInt16": 2, "ReadInt24": 3, "ReadInt32": 4, "ReadInt64": 8, "ReadByte": 1}


def _slug(s):
    return re.sub(r"[^a-z0-9]+", "-", s.lower()).strip("-")[:80]


def context(trace, idx):
    """State before event idx as the events themselves report it: (ctx event, pos, err, bitpos)."""
    c = 0
    for k in range(idx, -1, -1):
        if trace[k]["ev"] in ("New", "Open", "BitOpen"):
            c = k
            break
    pos, err, bitpos = 0, "nil", 0
    for e in trace[c + 1:idx]:
        if e["ev"] == "BitRead":
            bitpos = e.get("p", bitpos)
        elif "p" in e and "x" in e:
            pos, err = e["p"], e["x"]
    return trace[c], pos, err, bitpos


def classify(trace, idx):
    """Mechanism signature of a rejected event (labelling only: the rejection itself is TLC's)."""
    ev = trace[idx]
    ctx, pos, err, bitpos = context(trace, idx)
    name = ev["ev"]
    data = ctx.get("data", [])
    n_data = len(data)
    if name.startswith("Bit"):
        fam = "bitmap"
    elif name.startswith("W") or name == "Open":
        fam = "writer"
    else:
        fam = ctx.get("fam") or "?"
    group = "ReadFixed" if name in FIXED_R else ("WriteFixed" if name.startswith("Write") and name != "WriteBytes" else name)
    sig = lambda cls: "binary/%s/%s/%s" % (fam, group, cls)
    if ev.get("out") == "panic":
        return sig("panic:" + _slug(ev.get("panic", "")))
    avail = n_data - pos
    if group in ("ReadFixed", "ReadBytes"):
        need = ev["n"] if name == "ReadBytes" else FIXED_R[name]
        if avail >= need:
            want = data[pos:pos + need]
            if ev.get("x") != err:
                if ev.get("x") != "eof":
                    return sig("wrong-error")
                return sig("zero-length-eof" if need == 0 else "exact-fit-eof" if need == avail else "spurious-eof")
            if ev.get("xs"):
                return sig("value-out-of-range")
            got = ev.get("b") if name == "ReadBytes" else ev.get("v")
            if name != "ReadBytes" and name != "ReadByte" and ctx.get("order") == "LE":
                want = want[::-1]
            if got != want:
                return sig("wrong-value")
            if ev.get("p") != pos + need:
                return sig("wrong-pos")
            return sig("wrong-result")
        if ev.get("x") != "eof":
            return sig("missing-eof" if ev.get("x") == "nil" else "wrong-error")
        if name not in ("ReadBytes", "ReadByte") and any(ev.get("v", [])):
            return sig("nonzero-after-eof")
        return sig("wrong-result")
    if name == "Seek":
        wh = ev.get("wh")
        t = ev.get("off", 0) + {0: 0, 1: pos, 2: n_data}.get(wh, 0)
        if 0 <= t <= n_data:
            return sig("whence%s-valid-target-refused" % wh if ev.get("e") != "nil" else "whence%s-wrong-position" % wh)
        return sig("whence%s-negative-target-accepted" % wh if t < 0 else "whence%s-beyond-end" % wh)
    if name == "Read":
        k, n = ev.get("k", 0), ev.get("n", 0)
        if n < 0 or n > min(k, max(0, avail)):
            return sig("wrong-count")
        if ev.get("b") != data[pos:pos + n]:
            return sig("wrong-bytes")
        if ev.get("e") == "other":
            return sig("wrong-error")
        if ev.get("e") == "eof" and pos + n < n_data:
            return sig("early-eof")
        if k > 0 and n == 0 and ev.get("e") == "nil":
            return sig("no-progress")
        if ev.get("p") != pos + n:
            return sig("wrong-pos")
        return sig("err-changed" if ev.get("x") != err else "wrong-result")
    if name == "ReadAt":
        k, n, off = ev.get("k", 0), ev.get("n", 0), ev.get("off", 0)
        if ev.get("p") != pos or ev.get("x") != err:
            return sig("state-changed")
        exp = 0 if off < 0 else min(k, max(0, n_data - off))
        if n != exp:
            return sig("wrong-count")
        if off >= 0 and ev.get("b") != data[off:off + n]:
            return sig("wrong-bytes")
        if n < k:
            return sig("short-without-error" if ev.get("e") == "nil" else "wrong-error")
        return sig("spurious-error")
    if name == "BitRead":
        if bitpos < 8 * n_data:
            return sig("early-eof" if ev.get("eof") else "wrong-bit")
        return sig("no-eof")
    return sig("wrong-result")


def describe(trace, idx):
    ev = trace[idx]
    ctx, pos, err, bitpos = context(trace, idx)
    obs = {k: v for k, v in ev.items() if k not in ("t", "i")}
    if ev["ev"].startswith("Bit"):
        return "buffer=%s bit position %d: %s rejected by Binary.tla" % (ctx.get("data"), bitpos, json.dumps(obs))
    return "backend=%s(%s) order=%s data=%s, before the call Pos=%d Err=%s: %s rejected by Binary.tla" % (
        ctx.get("backend"), ctx.get("fam"), ctx.get("order"), ctx.get("data"), pos, err, json.dumps(obs))


def _idx(f):
    return next(k for k, x in enumerate(f["trace"]) if x["i"] == f["i"])


def judge(ck, fails, origin):
    """Deduplicate rejected traces by signature, re-execute one per new signature, validate the re-executions in one
    TLC run, and only then report."""
    fresh = {}
    for f in fails:
        sig = classify(f["trace"], _idx(f))
        if sig in ck.violations or sig in ck.known_hits or sig in fresh:
            if sig in fresh:
                fresh[sig]["count"] += 1
            else:
                ck.violation(sig, "", {})   # counted, not re-examined
            continue
        fresh[sig] = {"f": f, "count": 1}
    if not fresh:
        return
    lines, order = [], []
    for k, (sig, d) in enumerate(sorted(fresh.items()), start=1):
        tp = ck.path("rerun-in.json")
        json.dump(d["f"]["trace"], open(tp, "w"))
        ck.drive("binary", "rerun", "-trace", tp, "-tmp", ck.path("tmp"), "-out", ck.path("rerun-one.ndjson"))
        for line in open(ck.path("rerun-one.ndjson")):
            e = json.loads(line)
            e["t"] = k
            lines.append(json.dumps(e) + "\n")
        order.append(sig)
    with open(ck.path("rerun.ndjson"), "w") as fh:
        fh.writelines(lines)
    again = ck.validate("binary", "BinaryTrace", "BinaryTrace.cfg", ck.path("rerun.ndjson"), shards=1)
    ck.cov["traces_validated_against_impl"] -= len(order)
    rejected = {a["t"]: a for a in again}
    for k, sig in enumerate(order, start=1):
        d = fresh[sig]
        f = d["f"]
        if k not in rejected:
            ck.fatal("rejected trace did not reproduce: %s" % sig)
        idx = _idx(f)
        ck.violation(sig, describe(f["trace"], idx),
                     {"suite": "binary", "origin": origin, "trace": f["trace"][:idx + 1], "rejected_event_index": f["i"],
                      "how": "bin/check C19 --replay <this file> re-executes the calls of 'trace' on /repo (same backend, same data) and "
                             "validates them with spec/binary/BinaryTrace.tla"})
        for _ in range(d["count"] - 1):
            ck.violation(sig, "", {})


def run(ck):
    thorough = ck.tier == "thorough"
    os.makedirs(ck.path("tmp"), exist_ok=True)
    cfgs = ["MC_gen_thorough_d3.cfg", "MC_gen_thorough_d4.cfg"] if thorough else ["MC_gen_quick_d2.cfg", "MC_gen_quick_d3.cfg", "MC_gen_quick_d3w.cfg"]
    case_files = [ck.path("cases-%d.ndjson" % k) for k in range(len(cfgs))]

    def gen(k):
        return ck.tlc("binary", "BinaryGen", cfgs[k], label="scenario generation (every step is a step of Binary.tla)",
                      env={"VERIF_CASES": case_files[k]}, timeout=1800, workers=min(8, max(2, ck.cores // 2)))

    def record():
        return ck.drive("binary", "record", "-n", 40000 if thorough else 2500, "-steps", 40 if thorough else 24,
                        "-seed", ck.seed, "-tmp", ck.path("tmp"), "-out", ck.path("record.ndjson"))

    def impl():
        ck.tlc("binary", "BinaryImpl", "MC_impl_repaired.cfg", workers=2,
               label="I => P for the model of binary.go with the five proposed repairs (all backends, Len 0..9)")
        for fx in ("seekend", "mmaple", "mmapzero", "guard", "eofwith"):
            ck.tlc("binary", "BinaryImpl", "MC_impl_no_%s.cfg" % fx, workers=2, expect_violation="Refines",
                   label="model of the code without the '%s' repair is rejected by P" % fx)

    # TLC generation, the design-level refinement checks and the seeded random driver are independent: run them side by side
    with concurrent.futures.ThreadPoolExecutor(max_workers=5) as ex:
        gens = [ex.submit(gen, k) for k in range(len(cfgs))]
        rec = ex.submit(record)
        imp = ex.submit(impl)
        rs = [g.result() for g in gens]
        s2 = rec.result()
        imp.result()
    ck.cov["exhaustive"] = True
    ck.cov["constants"] = {"cfgs": cfgs, "Lens": "0..9", "orders": ["BE", "LE"],
                           "Depth/MaxWide": [[3, 3], [4, 0]] if thorough else [[2, 2], [3, 0], [3, 1, "Lens 0..3"]],
                           "WDepth": 4 if thorough else 3, "BitDepth": 12 if thorough else 9,
                           "widths": [1, 2, 3, 4, 8], "seek": "all (off, whence) with target in [-1, Len+1]",
                           "backends": ["mem", "bytesrd", "reader", "readereof", "readall", "seeker", "seekerneg", "readerat", "file", "mmap"]}
    with open(ck.path("cases.ndjson"), "w") as out:
        n_cases = 0
        for cf, r in zip(case_files, rs):
            if not os.path.exists(cf):
                ck.fatal("generator %s wrote no cases" % cf)
            for line in open(cf):
                out.write(line)
                n_cases += 1
            os.remove(cf)
    if n_cases == 0:
        ck.fatal("generator produced no cases")
    s1 = ck.drive("binary", "replay", "-cases", ck.path("cases.ndjson"), "-tmp", ck.path("tmp"), "-seed", ck.seed,
                  "-sample", 19997 if thorough else 1999, "-out", ck.path("replay.ndjson"), timeout=3000)
    os.remove(ck.path("cases.ndjson"))
    if s1["cases"] != n_cases:
        ck.fatal("replayed %s of %d cases" % (s1["cases"], n_cases))
    ck.log("replayed %d scenarios, %d executions on %d backends; %d differ from the canonical expectation (%d shapes), %d traces kept" % (
        s1["cases"], s1["executions"], len(s1["per_backend"]), s1["mismatches"] + s1["diverged"], len(s1.get("mismatch_shapes") or {}), s1["traces"]))
    ck.cov["evaluations"] = s1["executions"] + s2["executions"]
    ck.cov["distinct_nontrivial"] = s1["distinct_nontrivial"] + s2["distinct_nontrivial"]
    ck.cov["rule"] = ("replay: every scenario TLC enumerates from BinaryGen (bounded, exhaustive) x every backend that can serve it (the plain "
                      "io.Reader only histories without a reading ReadAt or a moving Seek); non-trivial = distinct scenarios in which bytes are "
                      "consumed, a read runs past the end, or something is written (distinct by construction: TLC states). record: seeded random "
                      "reader histories per backend (random bytes, lengths 0..40), writer->reader round trips with random typed writes, bitmaps; "
                      "non-trivial = distinct (kind, backend, data, length of history) with more than 3 events")
    ck.cov["samples"] = (s1.get("samples") or [])[:2] + (s2.get("samples") or [])[:1]
    ck.cov["per_backend"] = {"replay": s1.get("per_backend"), "record": s2.get("per_backend")}
    ck.cov["replay_differences"] = {"executions": s1["mismatches"] + s1["diverged"], "not_written_same_shape": s1["dropped"],
                                    "shapes": s1.get("mismatch_shapes")}
    judge(ck, ck.validate("binary", "BinaryTrace", "BinaryTrace.cfg", ck.path("replay.ndjson")), "replay of a TLC scenario")
    judge(ck, ck.validate("binary", "BinaryTrace", "BinaryTrace.cfg", ck.path("record.ndjson")), "recorded random history")
    ck.assumptions += ["sources do not fail: the only error a backend's source reports is io.EOF at its end",
                       "the exhaustive part uses 'positions as contents' (byte i has value i+1; written values use bytes 254, 253, ...); "
                       "arbitrary byte values are covered by the recorded random histories",
                       "a forward-only source (plain io.Reader with known length) is not asked to ReadAt or to Seek away from its position",
                       "of the traces that differ from the canonical expectation in the same way (same backend family, call, whence, "
                       "fit class, field) only the first few are handed to TLC",
                       "ReadString/WriteString/Write/Clone/InPageCache are not driven"]


def replay(ck, path):
    obj = json.load(open(path))
    os.makedirs(ck.path("tmp"), exist_ok=True)
    tp = ck.path("rerun-in.json")
    json.dump(obj["trace"], open(tp, "w"))
    ck.drive("binary", "rerun", "-trace", tp, "-tmp", ck.path("tmp"), "-out", ck.path("rerun.ndjson"))
    fails = ck.validate("binary", "BinaryTrace", "BinaryTrace.cfg", ck.path("rerun.ndjson"), shards=1)
    ck.cov["samples"] = [obj["trace"][:3]]
    ck.cov["evaluations"] = 1
    for f in fails:
        idx = _idx(f)
        ck.violation(classify(f["trace"], idx), "replayed trace rejected: " + describe(f["trace"], idx),
                     {"suite": "binary", "trace": f["trace"][:idx + 1], "rejected_event_index": f["i"]})
