"""C12 - Input and buffer.Lexer implement the documented cursor.

P  spec/cursor/Cursor.tla       property-level cursor (judge)
I  spec/cursor/CursorImpl.tla   input.go / buffer/lexer.go method by method; TLC: I => P, and every transition
                                of I's state graph becomes a replay case
T  spec/cursor/CursorTrace.tla  validates traces recorded from the real code against P
"""
import json
import os


def sig_of(f):
    tr = f["trace"]
    new = tr[0]
    ev = next((x for x in tr if x["i"] == f["i"]), {})
    cls = "panic" if ev.get("out") == "panic" else "wrong-result"
    extra = ""
    if ev.get("ev") in ("PeekRune", "Peek", "PeekErr"):
        extra = ":k>0" if ev.get("k", 0) > 0 else (":k<0" if ev.get("k", 0) < 0 else ":k=0")
    return "cursor/%s/%s%s/%s" % (new.get("kind"), ev.get("ev"), extra, cls), ev


def judge(ck, fails, origin):
    for f in fails:
        sig, ev = sig_of(f)
        if sig in ck.violations or sig in ck.known_hits:
            ck.violation(sig, "", {})   # counted, not re-examined
            continue
        # reproduce: re-execute the same calls on the code and validate that trace again
        tp = ck.path("rerun-in.json")
        json.dump(f["trace"], open(tp, "w"))
        ck.drive("cursor", "rerun", "-trace", tp, "-out", ck.path("rerun.ndjson"))
        again = ck.validate("cursor", "CursorTrace", "CursorTrace.cfg", ck.path("rerun.ndjson"), shards=1)
        ck.cov["traces_validated_against_impl"] -= 1
        if not again:
            ck.fatal("rejected trace did not reproduce: %s" % sig)
        ck.violation(sig, "%s on %s(%s) data=%s: event %s rejected by Cursor.tla" % (
            ev.get("ev"), f["trace"][0].get("kind"), f["trace"][0].get("ctor"), f["trace"][0].get("data"), json.dumps(ev)),
            {"suite": "cursor", "origin": origin, "trace": f["trace"], "rejected_event_index": f["i"],
             "how": "bin/check C12 --replay <this file> re-executes the calls of 'trace' on /repo and validates them with spec/cursor/CursorTrace.tla"})


def run(ck):
    thorough = ck.tier == "thorough"
    cfg = "MC_thorough.cfg" if thorough else "MC_quick.cfg"
    cases = ck.path("cases.ndjson")
    r = ck.tlc("cursor", "CursorImpl", cfg, label="I=>P + case generation", env={"VERIF_CASES": cases}, timeout=1800)
    ck.cov["exhaustive"] = True
    ck.cov["constants"] = {"cfg": cfg, "Alphabet": [0, 97, 195, 226, 240, 169, 255], "MaxLen": 4 if thorough else 3}
    ck.tlc("cursor", "CursorImpl", "MC_defect.cfg", label="model of the pre-fix PeekRune guard is rejected by P",
           expect_violation="Refines", env={"VERIF_CASES": ck.path("unused")})
    if not thorough:
        ck.tlc("cursor", "CursorImpl", "MC_design.cfg", label="I=>P at MaxLen=4 (no emission)", env={"VERIF_CASES": ck.path("unused")})
    # unbounded in the length of the data: every action of Cursor.tla keeps the cursor inside the data (TLAPS)
    ck.tlaps("cursor", "CursorProof", deps=("Cursor",))
    s1 = ck.drive("cursor", "replay", "-cases", cases, "-out", ck.path("replay.ndjson"), "-sample", 200 if thorough else 100)
    if s1["cases"] == 0:
        ck.fatal("generator produced no cases")
    ck.log("replayed %d cases, %d executions, %d differ from CursorImpl" % (s1["cases"], s1["executions"], s1["mismatches"]))
    n = 40000 if thorough else 3000
    s2 = ck.drive("cursor", "record", "-n", n, "-steps", 60 if thorough else 40, "-seed", ck.seed, "-out", ck.path("record.ndjson"))
    ck.cov["evaluations"] = s1["executions"] + s2["executions"]
    ck.cov["distinct_nontrivial"] = s1["distinct_nontrivial"] + s2["distinct_nontrivial"]
    ck.cov["rule"] = ("replay: every transition of CursorImpl's bounded state graph x every applicable constructor; non-trivial = cursor "
                      "moved off 0 or a PeekRune call, distinct by (kind,data,start,pos,call). record: seeded random contract-respecting "
                      "histories; non-trivial = distinct (kind,ctor,data) with more than one byte")
    ck.cov["samples"] = (s1.get("samples") or [])[:2] + (s2.get("samples") or [])[:1]
    if s1["mismatches"]:
        ck.cov["model_drift"] = s1.get("drift_samples") or []
    judge(ck, ck.validate("cursor", "CursorTrace", "CursorTrace.cfg", ck.path("replay.ndjson")), "replay of TLC transitions")
    judge(ck, ck.validate("cursor", "CursorTrace", "CursorTrace.cfg", ck.path("record.ndjson")), "recorded random history")
    # --- growth beyond the listed property: the readers/writers of package buffer (spec/buffer/RW.tla)
    s3 = ck.drive("rw", "record", "-out", ck.path("rw.ndjson"), "-seed", ck.seed, "-n", 6000 if thorough else 800)
    ck.cov["evaluations"] += s3["executions"]
    for f in ck.validate("buffer", "RWTrace", "RWTrace.cfg", ck.path("rw.ndjson")):
        ev = next((x for x in f["trace"] if x["i"] == f["i"]), {})
        sig = "rw/%s/%s/%s" % (f["trace"][0].get("kind"), ev.get("ev"), "panic" if ev.get("out") == "panic" else "wrong-result")
        # buffer.Reader/Writer are outside C12's statement: a disagreement is reported, but is not a violation of C12
        ck.beyond(sig, "buffer.%s: event %s rejected by RW.tla" % (f["trace"][0].get("kind"), json.dumps(ev)),
                  {"suite": "rw", "trace": f["trace"][: f["i"] + 1], "rejected_event_index": f["i"]})
    ck.assumptions += ["byte alphabet of the exhaustive part is 7 representative values (nul, ascii, 2/3/4-byte leads, continuation, 0xFF)",
                       "slice offsets are measured against the caller's array where the harness owns it, else against Bytes()"]


def replay(ck, path):
    obj = json.load(open(path))
    tp = ck.path("rerun-in.json")
    json.dump(obj["trace"], open(tp, "w"))
    ck.drive("cursor", "rerun", "-trace", tp, "-out", ck.path("rerun.ndjson"))
    fails = ck.validate("cursor", "CursorTrace", "CursorTrace.cfg", ck.path("rerun.ndjson"), shards=1)
    ck.cov["samples"] = [obj["trace"][:3]]
    ck.cov["evaluations"] = 1
    for f in fails:
        sig, ev = sig_of(f)
        ck.violation(sig, "replayed trace rejected at %s" % json.dumps(ev), {"suite": "cursor", "trace": f["trace"], "rejected_event_index": f["i"]})
