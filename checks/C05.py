"""C05 - Printing a JS tree and parsing the text again gives the same tree.

P  spec/js/Printer.tla        the round-trip protocol: Parse1, Print1, Parse2, Trees (GroupExpr removed), Print2 (fixed point), Literals
G  spec/js/PrinterGen.tla     spacing / parenthesis hazard scenarios derived from the ECMAScript lexical and expression grammar:
                              (statement context x expression frame x inner construct) x parenthesisation x multi-line literal x depth,
                              joined with the separators the NeedsSep relation (maximal munch) requires
T  spec/js/PrinterTrace.tla   judges the traces recorded by harness/suites/printer for generated and for not-designed inputs
"""
import json
import vcheck
import os
import re


def _txt(b):
    return bytes(b).decode("utf-8", "replace")


def classify(f):
    """-> (sig, rejected event, note).  sig = printer/<rule>/<construct at the first difference>."""
    tr = f["trace"]
    ev = next((x for x in tr if x["i"] == f["i"]), {})
    o = tr[0]
    if ev.get("out", "ret") != "ret":
        return "printer/panic/%s" % ev.get("ev"), ev, str(ev.get("panic"))[:200]
    name = ev.get("ev")
    if name == "Literals":
        kinds = ev.get("kinds") or ["?"]
        first = _txt(ev.get("first") or [])
        what = kinds[0]
        if what == "comment":
            intree = (ev.get("intree") or [True])[0]
            what = "comment-%s/%s/%s" % ("printed-differently" if intree else "not-in-the-tree", "Inline" if o.get("opt", 0) & 2 else "module",
                                         "line" if first.startswith("//") else "block")
        elif not (ev.get("intree") or [True])[0]:
            what += "-not-in-the-tree"       # the parser lost it: the first tree does not hold its bytes anywhere
        return "printer/literal-altered/%s" % what, ev, "missing from the printed text: %s" % json.dumps(first)
    if name == "Parse2":
        et = re.sub(r"( in [a-z][a-z -]*?)?( on line .*)?$", "", ev.get("etext", ""))
        et = re.sub(r"\s+", "-", re.sub(r"[^A-Za-z ]+", " ", et).strip())[:60]
        return "printer/reparse-fails/%s" % (et or "error"), ev, ev.get("etext", "")
    if name == "Trees":
        w = str(ev.get("what", ""))
        # a change of node type, operator, flag or length is part of the signature; changed text is not
        detail = "/" + w if w and '"' not in w and len(w) < 40 and not w.startswith(("data", "name")) else ""
        return "printer/tree-differs/%s%s" % (ev.get("construct", "?"), detail.replace(" ", "")), ev, "at %s: %s" % (ev.get("path"), w)
    if name == "Print2":
        # name the construct by the characters around the first differing byte
        n1, n2 = _txt(ev.get("near1") or []), _txt(ev.get("near2") or [])
        k = 0
        while k < len(n1) and k < len(n2) and n1[k] == n2[k]:
            k += 1
        a, b = n1[k:k + 1], n2[k:k + 1]
        cls = lambda c: "end" if c == "" else "newline" if c == "\n" else "space" if c == " " else "paren" if c in "()" else "semicolon" if c == ";" else "other"
        return "printer/not-a-fixed-point/%s-becomes-%s" % (cls(a), cls(b)), ev, "text1 ...%s | text2 ...%s" % (json.dumps(n1), json.dumps(n2))
    if name == "Done":
        return "printer/protocol-incomplete", ev, ""
    return "printer/rejected/%s" % name, ev, ""


def reproduce(ck, src, opt):
    p = ck.path("rerun-in.ndjson")
    with open(p, "w") as f:
        f.write(json.dumps({"input": src, "opt": opt}) + "\n")
    ck.drive("printer", "file", "-in", p, "-out", ck.path("rerun.ndjson"))
    again = ck.validate("js", "PrinterTrace", "PrinterTrace.cfg", ck.path("rerun.ndjson"), shards=1)
    ck.cov["traces_validated_against_impl"] -= 1
    return again


def judge(ck, fails, origin):
    # shortest input first, so that the recorded example of a finding is a small one
    fails = sorted(fails, key=lambda f: (len(f["trace"][0]["src"]), f["trace"][0].get("opt", 0)))
    for f in fails:
        sig, ev, note = classify(f)
        if sig in ck.violations or sig in ck.known_hits or sig in getattr(ck, "known_alias", {}):
            ck.violation(sig, "", {})
            continue
        o = f["trace"][0]
        src, opt = o["src"], o.get("opt", 0)
        again = reproduce(ck, src, opt)
        if not again or classify(again[0])[0] != sig:
            ck.fatal("rejected trace did not reproduce: %s on %s" % (sig, json.dumps(_txt(src))))
        text1 = next((x.get("text") for x in f["trace"] if x.get("ev") == "Print1"), [])
        opts = {"WhileToFor": bool(opt & 1), "Inline": bool(opt & 2)}
        ck.violation(sig, "js.Parse + AST.JS() on %s with Options%s: printed %s; %s %s rejected by Printer.tla (%s)" % (
            json.dumps(_txt(src)), json.dumps(opts), json.dumps(_txt(text1))[:300], ev.get("ev"),
            json.dumps({k: v for k, v in ev.items() if k in ("ok", "equal", "same", "missing", "kinds", "etext", "path", "construct", "what", "at")})[:300], note[:300]),
            {"suite": "printer", "origin": origin, "input": src, "opt": opt, "printed": text1, "trace": [x for x in f["trace"][: f["i"] + 1] if x.get("ev") != "Print1"],
             "rejected_event_index": f["i"],
             "how": "bin/check C05 --replay <this file> runs the round trip on 'input' under Options 'opt' again and validates the trace with spec/js/PrinterTrace.tla"})


def vocabulary(ck, cases):
    """Vacuity: every frame, inner construct, statement context, literal kind and depth listed by the specification must be used."""
    vocab, used = {}, {}
    n = 0
    for line in open(cases):
        line = line.strip()
        if not line:
            continue
        c = json.loads(json.loads(line)) if line.startswith('"') else json.loads(line)
        if "vocab" in c:
            for k, v in c["vocab"].items():
                vocab.setdefault(k, set()).update(v)
            continue
        n += 1
        for k, v in (("ctx", c.get("ctx")), ("inner", c.get("inner")), ("lit", c.get("lit")), ("depth", c.get("depth")), ("fam", c.get("fam"))):
            used.setdefault(k, set()).add(v)
        for fr in c.get("frames") or []:
            used.setdefault("frame", set()).add(fr)
    if not vocab:
        ck.fatal("the generator did not emit its vocabulary")
    for k, names in vocab.items():
        missing = sorted(str(x) for x in names if x not in used.get(k, set()))
        if missing:
            ck.fatal("generator never used %s %s (vacuous production)" % (k, missing[:20]))
    return n, {k: len(v) for k, v in vocab.items()}, vocab


def run(ck):
    thorough = ck.tier == "thorough"
    ck.tlc("js", "Printer", "PrinterMC.cfg", label="P by itself: which reports the protocol allows; invariants", timeout=600)
    cases = ck.path("cases.ndjson")
    ck.tlc("js", "PrinterGen", "PrinterGen_thorough.cfg" if thorough else "PrinterGen_quick.cfg",
           label="generator: hazard scenarios (exhaustive)", env={"VERIF_CASES": cases}, timeout=1500, heap="8g")
    sim = ck.path("cases-sim.ndjson")
    ck.tlc("js", "PrinterGen", "PrinterGen_sim.cfg", label="generator: nested frames (-simulate)", env={"VERIF_CASES": sim}, timeout=1500,
           simulate=40000 if thorough else 4000, depth=12, seed=ck.seed, workers=1, count=False)
    ncases, vocab, vocab_names = vocabulary(ck, cases)
    with open(cases, "a") as out:
        for line in open(sim):
            if "vocab" not in line[:20]:
                out.write(line)
    ck.cov["exhaustive"] = True
    ck.cov["constants"] = {"vocabulary": vocab, "MaxNest": 1, "simulate": {"MaxNest": 3}}
    s = ck.drive("printer", "replay", "-cases", cases, "-out", ck.path("gen.ndjson"), "-sample", 400 if thorough else 150,
                 "-inputs", ck.path("gen-programs.ndjson"), timeout=3000)
    if s["cases"] == 0 or s["accepted"] == 0:
        ck.fatal("generator produced no accepted programs")
    ck.log("generated: %d programs, %d executions accepted, %d programs rejected by js.Parse under every Options value, %d differ (pre-check)" % (
        s["cases"], s["accepted"], s["rejected_by_parse"], s["mismatches"]))
    # a construct of the generator that js.Parse never accepts would make its scenarios vacuous
    acc = s.get("atoms_accepted") or {}
    fams = s.get("families_accepted") or {}
    parts = [(k.split(":", 2) + ["", ""])[:3] for k in fams]
    used_ctx = {p[1] for p in parts}
    used_frames = {fr for p in parts for fr in p[2].split(" ") if fr}
    never = [n for n in vocab_names["inner"] if "inner:" + n not in acc] + [n for n in vocab_names["lit"] if "lit:" + n not in acc] + \
            [n for n in vocab_names["ctx"] if n not in used_ctx] + [n for n in vocab_names["frame"] if n not in used_frames]
    if never:
        ck.fatal("js.Parse accepted no generated program using %s: these scenarios are vacuous (%s)" % (sorted(never)[:20], (s.get("rejected_examples") or [])[:5]))
    ck.cov["evaluations"] = s["executions"]
    ck.cov["distinct_nontrivial"] = s["distinct_nontrivial"]
    ck.cov["samples"] = (s.get("samples") or [])[:2]
    ck.cov["generated_rejected_by_parse"] = s["rejected_by_parse"]
    ck.cov["generated_rejected_examples"] = (s.get("rejected_examples") or [])[:10]
    if s["rejected_by_parse"] > 0.2 * s["cases"]:
        ck.fatal("js.Parse rejects %d of %d generated programs: the generator is supposed to derive valid programs (%s)" % (
            s["rejected_by_parse"], s["cases"], (s.get("rejected_examples") or [])[:5]))
    judge(ck, ck.validate("js", "PrinterTrace", "PrinterTrace.cfg", ck.path("gen.ndjson"), timeout=3000), "generated")

    extra = []
    # programs of the statement grammar (C03's generator): statement kinds pairwise and the ASI spellings -- inputs that were not
    # designed for the printer (e.g. an unbraced loop body followed by a statement that starts with a parenthesis)
    gp = []
    for cfg in ("G_stmt1.cfg", "G_asi.cfg") + (("G_stmt2.cfg", "G_classbody.cfg") if thorough else ()):
        if not os.path.exists(os.path.join(vcheck.SPEC, "js", cfg)):
            continue
        cs = ck.path("jsgram-" + cfg + ".ndjson")
        try:
            ck.tlc("js", "JsGrammar", cfg, label="JsGrammar programs as extra inputs (%s)" % cfg, env={"VERIF_CASES": cs}, timeout=1500, count=False)
            ck.drive("jsgram", "inputs", "-cases", cs, "-out", cs + ".progs", "-seed", ck.seed, timeout=1200)
            gp.append(cs + ".progs")
        except vcheck.Fatal as ex:
            ck.notes.append("JsGrammar extra inputs %s skipped: %s" % (cfg, str(ex)[:200]))
    if gp:
        extra = ["-extra", ",".join(gp), "-maxextra", 20000 if thorough else 6000]
    if thorough:
        # programs of the scope generator (C04) as further not-designed inputs
        sc = ck.path("scope-cases.ndjson")
        ck.tlc("js", "ScopeSem", "ScopeSem_sim.cfg", label="ScopeSem programs as extra inputs (-simulate)", env={"VERIF_CASES": sc}, timeout=1500,
               simulate=20000, depth=12, seed=ck.seed, workers=1, count=False)
        ck.drive("scope", "replay", "-cases", sc, "-out", ck.path("scope-trace.ndjson"), "-sample", 1000000, "-inputs", ck.path("scope-programs.ndjson"), timeout=3000)
        extra = ["-extra", ",".join(gp + [ck.path("scope-programs.ndjson")]), "-maxextra", 25000]
    r = ck.drive("printer", "record", "-out", ck.path("rec.ndjson"), "-seed", ck.seed, "-harvest", 100000 if thorough else 700,
                 "-combos", 6000 if thorough else 500, "-sample", 400 if thorough else 150, *extra, timeout=3000)
    if r["accepted"] < 1000:
        ck.fatal("too few recorded inputs accepted by js.Parse: %s" % r)
    ck.log("recorded: %d inputs, %d executions accepted, %d differ (pre-check)" % (r["cases"], r["accepted"], r["mismatches"]))
    ck.cov["evaluations"] += r["executions"]
    ck.cov["distinct_nontrivial"] += r["distinct_nontrivial"]
    ck.cov["samples"] += (r.get("samples") or [])[:1]
    ck.cov["recorded_inputs_by_origin"] = r.get("families_accepted")
    ck.cov["rule"] = ("generated: every scenario of PrinterGen.tla (statement context x expression frame x inner construct x minimal/forced parentheses; "
                      "multi-line literal operands x block depth), each under the four Options values; recorded: snippets for every node kind and "
                      "spacing hazard, the js string literals of the repository's tests, seeded combinations, each x 4 Options x indentation depth 0-3. "
                      "Only valid UTF-8 inputs that js.Parse accepts count. non-trivial = distinct accepted input text with at least 10 tokens.")
    judge(ck, ck.validate("js", "PrinterTrace", "PrinterTrace.cfg", ck.path("rec.ndjson"), timeout=3000), "recorded")
    ck.assumptions += [
        "trees are compared by reflection over exported fields: node types, operators, flags, literal data, identifier names (Var.Name()); "
        "GroupExpr wrappers removed on both sides; Scope tables, *Scope, Var pointers/Link/Uses/Decl are not compared; a nil and an empty slice are the same list",
        "literal tokens of the source are found with js.Lexer, switched to RegExp() at the offsets where the first tree holds a regular-expression literal; "
        "a literal is 'in expression position' when the first tree holds its bytes in an expression slot (LiteralExpr as IExpr, TemplateExpr part); literals are "
        "looked up in source order, comments anywhere; literals in other positions (property names, module specifiers, directives) are logged but not judged",
        "all executions are pre-checked in Go; TLC judges every execution the pre-check flags and every n-th other one",
    ]


def replay(ck, path):
    obj = json.load(open(path))
    ck.cov["samples"] = [{"input": obj["input"], "opt": obj.get("opt", 0)}]
    ck.cov["evaluations"] = 1
    again = reproduce(ck, obj["input"], obj.get("opt", 0))
    if again:
        ck.violation(obj["sig"], obj.get("what", "replayed input rejected again"), {"input": obj["input"], "opt": obj.get("opt", 0)})
