"""C16 - Number/Dimension/URL/data-URI/media-type helpers (and the css/html hash tables) match their definitions.

P  spec/text/Helpers.tla       every helper's definition transcribed from the property statement (byte-level operators)
                               + one action per call, enabled exactly on the results the statement allows
G  spec/text/HelpersGen.tla    function tables: TLC enumerates every class string up to a bound (or every shape) per
                               family, concretises it (representatives by position and VERIF_SEED) and emits the
                               argument with what Helpers.tla says must be observed
T  spec/text/HelpersTrace.tla  judges traces of the real helpers: all mismatching + sampled replay executions and
                               seeded random calls around the syntax boundaries, hash-table probes, all 256 bytes
"""
import concurrent.futures
import json
import os

import c16extra

FAMS = ["num", "dec", "text", "fold", "enc", "datauri", "media"]
BOUNDS = {"quick": {"num": 6, "dec": 6, "text": 5, "fold": 2, "enc": 4, "datauri": 3, "media": 2},
          "thorough": {"num": 7, "dec": 7, "text": 6, "fold": 3, "enc": 5, "datauri": 4, "media": 3}}


def txt(a):
    try:
        return repr(bytes(a))[1:]
    except (TypeError, ValueError):
        return str(a)


def sig_of(f):
    tr = f["trace"]
    new = tr[0]
    ev = next((x for x in tr if x["i"] == f["i"]), {})
    cls = "panic" if ev.get("out") == "panic" else "wrong-result"
    name = ev.get("ev", "?")
    if name == "EncodeURL":
        name += ":" + str(ev.get("tab"))
    elif name == "DecodeURL":
        name += ":wellformed" if new.get("qok") else ":malformed"
    elif name == "DataURI":
        name += ":" + str(new.get("kind"))
    elif name in ("ToHash", "HashString"):
        name += ":" + str(new.get("pkg"))
    return "helpers/%s/%s" % (name, cls), ev


def describe(f, ev):
    new = f["trace"][0]
    arg = ev["s"] if "s" in ev else new.get("s", [])
    extra = ""
    if new.get("fam") == "text" and ev.get("ev") == "EqualFold":
        extra = " target=%s" % txt(new.get("tgt", []))
    if new.get("fam") == "url":
        extra = " QueryUnescape=%s" % (txt(new.get("q", [])) if new.get("qok") else "error")
    if new.get("fam") == "mediatype":
        extra = " mime.ParseMediaType=%s" % (str((txt(new.get("stdmt", [])), [txt(x) for x in new.get("stdk", [])], [txt(x) for x in new.get("stdv", [])]))
                                             if new.get("stdok") else "error")
    if new.get("kind") == "enc":
        extra = " built from media type %s%s, %s, payload %s" % (txt(new["base"]), txt(new["params"]), new["enc"], txt(new["payload"]))
    def show(v):
        if v == []:
            return v
        if isinstance(v, list) and all(isinstance(x, int) for x in v):
            return txt(v)
        if isinstance(v, list) and all(isinstance(x, list) for x in v):
            return [txt(x) for x in v]
        return v
    obs = {k: show(v) for k, v in ev.items() if k not in ("t", "i", "ev", "s")}
    return "%s(%s)%s observed %s: rejected by Helpers.tla" % (ev.get("ev"), txt(arg), extra, json.dumps(obs, sort_keys=True))


def shards_for(ck, path):
    """ck.validate extracts the trace of every rejected event by scanning its shard: small shards keep that cheap when a
    change of the code breaks thousands of executions; from 200000 lines per shard on it uses an indexed look-up."""
    n = sum(1 for _ in open(path))
    return max(1, n // 220000) if n >= 220000 else max(1, min(ck.cores, n // 1500))


def validate(ck, path):
    return ck.validate("text", "HelpersTrace", "HelpersTrace.cfg", path, shards=shards_for(ck, path))


def judge(ck, fails, origin):
    for f in fails:
        sig, ev = sig_of(f)
        if sig in ck.violations or sig in ck.known_hits:
            ck.violation(sig, "", {})   # counted, not re-examined
            continue
        # reproduce: re-execute the same calls on the code and validate that trace again
        tp = ck.path("rerun-in.json")
        json.dump(f["trace"], open(tp, "w"))
        ck.drive("helpers", "rerun", "-trace", tp, "-out", ck.path("rerun.ndjson"))
        again = ck.validate("text", "HelpersTrace", "HelpersTrace.cfg", ck.path("rerun.ndjson"), shards=1)
        ck.cov["traces_validated_against_impl"] -= 1
        if not again:
            ck.fatal("rejected trace did not reproduce: %s" % sig)
        ck.violation(sig, describe(f, ev),
                     {"suite": "helpers", "origin": origin, "trace": f["trace"], "rejected_event_index": f["i"],
                      "how": "bin/check C16 --replay <this file> re-executes the calls of 'trace' on /repo and validates them with spec/text/HelpersTrace.tla"})


def run(ck):
    tier = ck.tier
    thorough = tier == "thorough"
    tables = ck.path("tables.json")
    st = ck.drive("helpers", "tables", "-out", tables)
    env0 = {"VERIF_SEED": ck.seed, "VERIF_TABLES": tables}

    # --- spec -> code: TLC enumerates the function tables, the harness replays them (one pipeline per family, in parallel)
    def pipeline(fam):
        cases = ck.path("cases-%s.ndjson" % fam)
        r = ck.tlc("text", "HelpersGen", "Gen_%s_%s.cfg" % (fam, tier), label="function table '%s'" % fam, count=False,
                   env=dict(env0, VERIF_CASES=cases), workers=(8 if fam == "num" else 2), timeout=3000, heap="6g" if fam == "num" else "3g")
        lines = sum(1 for _ in open(cases)) if os.path.exists(cases) else 0
        if lines == 0 or lines != r.distinct:
            ck.fatal("generator %s: %d lines for %s distinct states" % (fam, lines, r.distinct))
        s = ck.drive("helpers", "replay", "-cases", cases, "-out", ck.path("replay-%s.ndjson" % fam),
                     "-sample", (400 if thorough else 60) if fam == "num" else (40 if thorough else 10))
        os.remove(cases)
        return fam, r, s

    sums = {}
    with concurrent.futures.ThreadPoolExecutor(max_workers=len(FAMS)) as ex:
        for fam, r, s in ex.map(pipeline, FAMS):
            ck.cov["states"] += r.distinct or 0
            ck.cov["transitions"] += r.generated or 0
            sums[fam] = s
            if s["cases"] == 0:
                ck.fatal("generator %s produced no cases" % fam)
            if s["spec_std_disagree"]:
                ck.fatal("Helpers.tla disagrees with the stdlib fact it is defined to equal (%s): %s" % (fam, json.dumps(s.get("spec_std_samples"))[:1500]))
            ck.log("%-8s %8d cases, %8d calls, %d differ from the expectation, %d panics" % (fam, s["cases"], s["executions"], s["mismatches"], s["panics"]))
    ck.cov["exhaustive"] = True
    ck.cov["constants"] = {"tier": tier, "max_len": BOUNDS[tier], "hash_constants": st.get("hash_constants"),
                           "alphabets": {"num": "+ - . e E 0 9 % a x", "dec": "% h l H n + o", "text": "sp nl tab ff cr nw U l o",
                                         "fold": "s over 10 bytes around A-Z/a-z, target over 8 non-upper bytes",
                                         "enc": "all 256 bytes alone/doubled/in context + strings over 7 bytes, both tables",
                                         "datauri": "3 media types x 3 parameter lists x 6 encodings x payloads over 9 bytes + 21 malformed shapes",
                                         "media": "2 types x 2 subtypes x parameters (0-2 spaces ; 0-1 space k=v) x leading/trailing space"}}

    # --- code -> spec: seeded random calls around the syntax boundaries, hash tables, all byte values
    s2 = ck.drive("helpers", "record", "-n", 20000 if thorough else 1500, "-seed", ck.seed, "-out", ck.path("record.ndjson"))
    ck.log("record: %d traces, %d calls, %d panics" % (s2["traces"], s2["executions"], s2["panics"]))

    ck.cov["evaluations"] = sum(s["executions"] for s in sums.values()) + s2["executions"]
    ck.cov["distinct_nontrivial"] = sum(s["distinct_nontrivial"] for s in sums.values()) + s2["distinct_nontrivial"]
    ck.cov["cases_per_family"] = {f: sums[f]["cases"] for f in FAMS}
    ck.cov["cases_replayed_against_impl"] = sum(s["cases"] for s in sums.values())
    ck.cov["rule"] = ("replay: every case TLC enumerated; non-trivial = distinct argument whose expected observation is not the trivial one "
                      "(number length > 0; decoding/encoding/lower-casing/trimming changes the text; EqualFold true; any data URI; media type "
                      "with parameters). record: distinct (family, argument, target) longer than one byte")
    ck.cov["samples"] = [x for f in ("num", "dec", "datauri", "media") for x in (sums[f].get("samples") or [])[:1]] + (s2.get("samples") or [])[:1]

    # --- verdicts: the property-level trace specification judges all mismatching and sampled replay executions, and all recorded ones
    rejected = set()
    for fam in FAMS:
        fails = validate(ck, ck.path("replay-%s.ndjson" % fam))
        rejected |= {(fam, f["t"]) for f in fails}
        judge(ck, fails, "replay of TLC-enumerated function table '%s'" % fam)
        # an expectation of the generator that the property-level spec does not insist on is drift, not a violation
        drift = [m for m in (sums[fam].get("mismatch_list") or []) if (fam, m["t"]) not in rejected]
        if drift:
            ck.cov["model_drift"] += [{"family": fam, **m} for m in drift[:5]]
            ck.notes.append("MODEL-DRIFT: %d replay executions of '%s' differ from the generator's expectation but are accepted by Helpers.tla" % (len(drift), fam))
        if sums[fam]["undetermined_diff"]:
            ck.notes.append("%d malformed escapes are not left as they are by DecodeURL (allowed: the statement is silent there)" % sums[fam]["undetermined_diff"])
    judge(ck, validate(ck, ck.path("record.ndjson")), "recorded random calls")
    ck.assumptions += ["class representatives rotate with position and VERIF_SEED; expectations are computed by TLC on the concrete bytes",
                       "hash constants are read from the trailing comments of <pkg>/hash.go; encoding-table membership is logged per byte by the harness",
                       "DecodeURL on malformed escapes, Dimension's unit when there is no number, parameters inside DataURI's media type, "
                       "Mediatype on values that are not well-formed lower-case unquoted (or that mime rejects), EqualFold with a non-lower-case "
                       "target: unconstrained (statement silent)",
                       "a literal '+' in a percent-encoded data URI payload may decode to a space (form-encoding reading) or to '+' (RFC 3986 reading): "
                       "the statement does not choose; today DataURI returns a space, also for URIs written with the package's own DataURIEncodingTable"]
    c16extra.run(ck, thorough)   # growth beyond the property (DESIGN.md section 7 item 5): disagreements are NOTEs, never violations


def replay(ck, path):
    obj = json.load(open(path))
    tp = ck.path("rerun-in.json")
    json.dump(obj["trace"], open(tp, "w"))
    ck.drive("helpers", "rerun", "-trace", tp, "-out", ck.path("rerun.ndjson"))
    fails = ck.validate("text", "HelpersTrace", "HelpersTrace.cfg", ck.path("rerun.ndjson"), shards=1)
    ck.cov["samples"] = [obj["trace"][:3]]
    ck.cov["evaluations"] = 1
    for f in fails:
        sig, ev = sig_of(f)
        ck.violation(sig, "replayed: " + describe(f, ev), {"suite": "helpers", "trace": f["trace"], "rejected_event_index": f["i"]})
