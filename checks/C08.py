"""C08 - CSS parser emits a well-nested, token-conserving grammar stream.

P  spec/css/CssStream.tla       all inputs: nesting while no parse error, conservation of input tokens in source order, final io.EOF
I  spec/css/CssImpl.tla        css/parse.go's state-function stack over token classes; TLC: I => P for all sequences; differential replay (checks/c08impl.py)
G  spec/css/CssGrammar.tla      well-formed stylesheets / inline declaration lists with the units, names and Values() the statement prescribes
T  spec/css/CssStreamTrace.tla  judges traces of harness/suites/cssp
"""
import json
import os


def classify(f):
    tr = f["trace"]
    ev = next((x for x in tr if x["i"] == f["i"]), {})
    mode = "inline" if tr[0].get("inline") else "stylesheet"
    if ev.get("out") != "ret":
        return "cssp/%s/panic" % mode, ev
    if ev.get("ev") == "Finish":
        return "cssp/%s/stream-does-not-end-with-EOF" % mode, ev
    nones = [t for t in ev.get("toks", []) if t.get("k") == "none"]
    if nones:
        return "cssp/%s/%s/token-not-from-input" % (mode, ev.get("gt")), ev
    # order or nesting
    last = 0
    for x in tr[1:]:
        if x["i"] > f["i"]:
            break
        for t in x.get("toks", []):
            if t.get("k") in ("tok", "brace", "join", "custom"):
                if t["i"] <= last and x["i"] == f["i"]:
                    return "cssp/%s/%s/token-out-of-source-order" % (mode, ev.get("gt")), ev
                last = t.get("j", t["i"] + (1 if t["k"] == "join" else 0)) if t["k"] in ("custom", "join") else t["i"]
    if ev.get("gt") in ("EndAtRule", "EndRuleset"):
        return "cssp/%s/%s/unmatched-end" % (mode, ev.get("gt")), ev
    if ev.get("gt") == "Error" and ev.get("eof"):
        return "cssp/%s/unclosed-begin-at-end-of-input" % mode, ev
    return "cssp/%s/%s/rejected" % (mode, ev.get("gt")), ev


def reproduce(ck, inp, inline):
    p = ck.path("rerun-in.ndjson")
    with open(p, "w") as f:
        f.write(json.dumps({"input": inp, "inline": bool(inline)}) + "\n")
    ck.drive("cssp", "file", "-in", p, "-out", ck.path("rerun.ndjson"))
    again = ck.validate("css", "CssStreamTrace", "CssStreamTrace.cfg", ck.path("rerun.ndjson"), shards=1)
    ck.cov["traces_validated_against_impl"] -= 1
    return bool(again)


def judge(ck, fails, origin):
    for f in fails:
        sig, ev = classify(f)
        if sig in ck.violations or sig in ck.known_hits:
            ck.violation(sig, "", {})
            continue
        o = f["trace"][0]
        if not reproduce(ck, o["input"], o.get("inline")):
            ck.fatal("rejected trace did not reproduce: %s" % sig)
        ck.violation(sig, "css.Parser(%s) on %s: %s rejected by CssStream.tla" % (
            "inline" if o.get("inline") else "stylesheet", json.dumps(bytes(o["input"]).decode("utf-8", "replace")), json.dumps(ev)[:300]),
            {"suite": "cssp", "origin": origin, "input": o["input"], "inline": bool(o.get("inline")), "trace": f["trace"][: f["i"] + 1][-12:],
             "rejected_event_index": f["i"],
             "how": "bin/check C08 --replay <this file> parses the input again and validates the trace with spec/css/CssStreamTrace.tla"})


def run(ck):
    thorough = ck.tier == "thorough"
    cases = ck.path("strings.ndjson")
    ck.tlc("proto", "AllStrings", "AllStrings_css_thorough.cfg" if thorough else "AllStrings_css_quick.cfg",
           label="generator: all css class strings", env={"VERIF_CASES": cases}, timeout=1800)
    extra = []
    gen = os.path.join(os.path.dirname(__file__), "c08gen.py")
    if os.path.exists(gen):
        import c08gen
        extra = c08gen.run(ck, thorough)      # well-formed stylesheets from CssGrammar.tla: replay + inputs for the monitor
    if os.path.exists(os.path.join(os.path.dirname(__file__), "c08impl.py")):
        import c08impl
        c08impl.run(ck, thorough)             # CssImpl.tla: I => P by TLC, differential replay of the model's predictions (model drift only)
    s = ck.drive("cssp", "record", "-cases", cases, "-out", ck.path("record.ndjson"), "-seed", ck.seed, "-harvest", 1500 if thorough else 300,
                 "-muts", 10 if thorough else 6, *extra, timeout=3000)
    if s["executions"] == 0:
        ck.fatal("no executions")
    ck.cov["exhaustive"] = True
    ck.cov["evaluations"] += s["executions"]
    ck.cov["distinct_nontrivial"] += s["distinct_nontrivial"]
    ck.cov["samples"] += (s.get("samples") or [])[:2]
    ck.cov["rule"] += ("monitor: every css class string up to the bound (TLC), the repository's css test literals with seeded truncations / substitutions / "
                       "insertions, and the generated stylesheets, each in stylesheet and inline mode; non-trivial = distinct (mode, input) with at least 4 units. ")
    judge(ck, ck.validate("css", "CssStreamTrace", "CssStreamTrace.cfg", ck.path("record.ndjson"), timeout=3000), "record")
    ck.assumptions += ["tokens reported by the parser are located in the output of css.Lexer on the same input: by address when they alias the input, "
                       "else by type and (ASCII-case-folded) text at or after the last located token",
                       "allowed rewritings (DESIGN.md C08 reading): single-space whitespace token, synthesised '}', '*'+ident, lower-cased names, custom property value = source text"]


def replay(ck, path):
    obj = json.load(open(path))
    if obj.get("origin") == "generator":      # a generated document with its expected units (checks/c08gen.py)
        import c08gen
        return c08gen.replay(ck, obj)
    ck.cov["samples"] = [{"input": obj["input"], "inline": obj.get("inline")}]
    ck.cov["evaluations"] = 1
    if reproduce(ck, obj["input"], obj.get("inline")):
        ck.violation(obj["sig"], obj.get("what", "replayed input rejected again"), {"input": obj["input"], "inline": obj.get("inline")})
