"""C11 - XML lexer tokenises well-formed XML like a conforming XML reader.

G  spec/xml/XmlDoc.tla     XML 1.0 document grammar as grammar-as-behaviour; emits documents as atom sequences together with the
                           expected tokens (type, atoms of Text()/AttrVal()) and the element/attribute report of a conforming reader
P  spec/xml/XmlStream.tla  for ANY input: Attribute tokens only inside a tag, a NUL byte ends in a non-EOF error, the stream ends with
                           an error report; for generated documents: expected token list, EOF at the end, agreement of the three reports
                           (generator, xml.Lexer, encoding/xml)
T  spec/xml/XmlTrace.tla   judges the traces of harness/suites/xmldoc (generated documents in several spellings + seeded mutations)
I  spec/xml/XmlImpl.tla    xml/lex.go function by function over character classes: TLC checks I => P on every class string within a
                           bound and predicts the token list of each, replayed on the code (checks/c11impl.py; drift is evidence only)
"""
import concurrent.futures
import json
import os

import c11impl

WS = (9, 10, 13, 32)
NAMED = ("StartTag", "StartTagPI", "EndTag", "Attribute", "Text", "Comment", "CDATA", "DOCTYPE")
# atoms that are the plain spelling of their construct: they never make a signature more specific
PLAIN = {"s", "eq", "dq", "sq", "stag.lt", "stag.gt", "stag.void", "etag.lt", "etag.gt", "pi.open", "pi.close", "ename", "aname", "pitarget",
         "v.text", "c.text", "cd.text", "dc.text", "cmt.open", "cmt.close", "cd.open", "cd.close", "dt.open", "dt.close", "dt.s", "dt.name",
         "dt.dq", "dt.sq", "dt.lb", "dt.rb", "dt.SYSTEM", "xl.dq.text", "xl.sq.text", "el.dq.text", "el.sq.text", "chardata", "misc.s",
         "xd.xml", "xd.version", "xd.v10", "ds.entopen", "ds.declclose", "dc.open", "dc.close"}


def trim(b):
    b = list(b)
    while b and b[0] in WS:
        b.pop(0)
    while b and b[-1] in WS:
        b.pop()
    return b


def matches(x, ev):
    if x["k"] != ev.get("kname"):
        return False
    if x["k"] in NAMED:
        a, b = x["text"], ev.get("text", [])
        if x["k"] == "DOCTYPE":
            a, b = trim(a), trim(b)
        if a != b:
            return False
    if x["k"] == "Attribute" and x["val"] != ev.get("val", []):
        return False
    return True


def cls(a):
    return a.split(":")[0]


def features(o, x, nxt):
    """The non-plain atoms of the construct whose expected token is x (atoms from x.at up to the next expected token)."""
    atoms = o.get("atoms") or []
    lo = x["at"] - 1
    hi = (nxt["at"] - 1) if nxt else len(atoms)
    if x["k"] == "Attribute":
        lo = max(0, lo - 1)       # the white space before the name
    fs = sorted({cls(a) for a in atoms[lo:hi]} - PLAIN)
    if x["k"] == "Attribute":
        seq = [cls(a) for a in atoms[lo:hi]]
        if "eq" in seq:
            i = seq.index("eq")
            if i > 0 and seq[i - 1] == "s" and i - 1 > 0:
                fs.append("s=")
            if i + 1 < len(seq) and seq[i + 1] == "s":
                fs.append("=s")
        q = [a for a in seq if a in ("dq", "sq")]
        if q and q[0] == "sq":
            fs.append("sq")
    return fs


def classify(f):
    """-> (construct, features, what): the clause of XmlStream.tla that rejected the event, recomputed for the message."""
    tr = f["trace"]
    o = tr[0]
    ev = next((x for x in tr if x["i"] == f["i"]), {})
    if ev.get("out") != "ret":
        return "lexer", [], "panic", ev
    # replay the monitor up to the rejected event
    tag, idx, exp = "none", 0, o.get("exp") or []
    for x in tr[1:]:
        if x["i"] >= f["i"]:
            break
        if x["ev"] != "Tok":
            continue
        k = x["kname"]
        if o.get("wf"):
            if idx < len(exp) and exp[idx]["opt"] and not matches(exp[idx], x):
                idx += 1
            idx += 1
        tag = "elem" if k == "StartTag" else "pi" if k == "StartTagPI" else "none" if k.startswith("StartTagClose") else tag
    if ev["ev"] == "End":
        return "stream", [], "no-error-report", ev
    if ev["ev"] == "Tok":
        k = ev["kname"]
        if k == "Attribute" and tag == "none":
            return "stream", [], "attribute-outside-tag", ev
        if not o.get("wf"):
            return "stream", [], "token-after-end", ev
        j = idx
        if j < len(exp) and exp[j]["opt"] and not matches(exp[j], ev):
            j += 1
        if j >= len(exp):
            last = exp[-1] if exp else None
            return (last["k"] if last else "document"), (features(o, last, None) if last else []), "extra-token:%s" % k, ev
        x = exp[j]
        nxt = exp[j + 1] if j + 1 < len(exp) else None
        if x["k"] != k:
            # a token of another type: usually the previous construct ended early or swallowed this one
            return x["k"], features(o, x, nxt), "type:%s" % k, ev
        if x["k"] in NAMED and not matches({**x, "val": ev.get("val", [])}, ev):
            return x["k"], features(o, x, nxt), "text", ev
        return x["k"], features(o, x, nxt), "attrval", ev
    if ev["ev"] == "Err":
        if o.get("nul") and (ev.get("eof") or ev.get("none")):
            return "stream", [], "nul-ends-silently", ev
        if o.get("wf"):
            if not ev.get("eof"):
                return "document", [], "error-on-well-formed-document", ev
            rest = [x for x in exp[idx:] if not x["opt"]]
            if rest:
                return rest[0]["k"], features(o, rest[0], None), "token-missing", ev
            std, gen = o["std"], o["gen"]
            norm = [[32 if c in (9, 10, 13) else c for c in v] for v in std.get("avals", [])]
            if not std.get("ok"):
                return "document", [], "encoding/xml-rejects", ev
            for fld, val in (("names", std["names"]), ("anames", std["anames"]), ("avals", norm)):
                if val != gen[fld]:
                    return "report", [], "encoding/xml-disagrees:%s" % fld, ev
            return "report", [], "lexer-report-disagrees", ev
    return "stream", [], "rejected", ev


def reproduce(ck, open_ev):
    p = ck.path("rerun-in.ndjson")
    with open(p, "w") as f:
        f.write(json.dumps({k: open_ev[k] for k in ("input", "wf", "exp", "gen", "atoms") if k in open_ev}) + "\n")
    ck.drive("xmldoc", "file", "-in", p, "-out", ck.path("rerun.ndjson"))
    again = ck.validate("xml", "XmlTrace", "XmlTrace.cfg", ck.path("rerun.ndjson"), shards=1)
    ck.cov["traces_validated_against_impl"] -= 1
    return bool(again)


def as_text(inp):
    try:
        return bytes(inp).decode("utf-8")
    except Exception:
        return repr(bytes(inp))


def judge(ck, fails, origin):
    """Group the rejected traces by (construct, what); within a group keep the minimal feature sets (a rejected document whose
    non-plain atoms are a superset of another rejected document's is the same finding); one signature per minimal set."""
    groups = {}
    for f in fails:
        c, fs, what, ev = classify(f)
        groups.setdefault((c, what), []).append((frozenset(fs), f, ev))
    for (c, what), items in sorted(groups.items()):
        sets = {s for s, _, _ in items}
        minimal = sorted((s for s in sets if not any(t < s for t in sets)), key=lambda s: (len(s), sorted(s)))
        for s in minimal:
            mine = [(f, ev) for t, f, ev in items if t == s]
            covered = sum(1 for t, _, _ in items if t >= s)
            mine.sort(key=lambda fe: (len(fe[0]["trace"][0]["input"]), fe[0]["trace"][0]["input"]))
            f, ev = mine[0]
            sig = "xmldoc/%s[%s]/%s" % (c, "+".join(sorted(s)), what)
            o = f["trace"][0]
            if not reproduce(ck, o):
                ck.fatal("rejected trace did not reproduce: %s" % sig)
            x = None
            what_txt = "xml.Lexer on %s: event %s rejected by XmlStream.tla (%s; %d rejected documents contain these atoms)" % (
                json.dumps(as_text(o["input"])), json.dumps({k: (as_text(v) if k in ("text", "val", "data") else v) for k, v in ev.items() if k != "t"})[:400],
                what, covered)
            ck.violation(sig, what_txt, {"suite": "xmldoc", "origin": origin, **{k: o[k] for k in ("input", "wf", "exp", "gen", "atoms") if k in o},
                                         "trace": f["trace"][: f["i"] + 1][-12:], "rejected_event_index": f["i"],
                                         "how": "bin/check C11 --replay <this file> lexes the input again and validates the trace with spec/xml/XmlTrace.tla"})
            for _ in range(covered - 1):
                ck.violation(sig, "", {})


def one_round(ck, cases, label, variants, muts, need_atoms=None, chunk=20000):
    """Replay the cases (in chunks, so that a TLC validation shard stays small), validate, return the rejected events."""
    lines = open(cases).readlines()
    if not lines:
        ck.fatal("generator %s produced no cases" % label)
    fails, atom_count, kind_count, with_nul = [], {}, {}, 0
    for n, lo in enumerate(range(0, len(lines), chunk)):
        cp, tp = ck.path("cases-%s-%d.ndjson" % (label, n)), ck.path("trace-%s-%d.ndjson" % (label, n))
        with open(cp, "w") as f:
            f.writelines(lines[lo:lo + chunk])
        s = ck.drive("xmldoc", "replay", "-cases", cp, "-out", tp, "-seed", ck.seed, "-variants", variants, "-muts", muts, timeout=1200)
        if s.get("std_rejected"):
            ck.fatal("generator %s: %d generated documents are rejected by encoding/xml (the generator must only produce documents the "
                     "reference reader accepts), e.g. %s" % (label, s["std_rejected"], json.dumps(s.get("std_rejected_sample"))))
        for k, v in s["atom_count"].items():
            atom_count[k] = atom_count.get(k, 0) + v
        for k, v in s["kind_count"].items():
            kind_count[k] = kind_count.get(k, 0) + v
        with_nul += s.get("with_nul", 0)
        ck.cov["evaluations"] += s["executions"]
        ck.cov["distinct_nontrivial"] += s["distinct_nontrivial"]
        if n == 0:
            ck.cov["samples"] += (s.get("samples") or [])[:2]
        for k in ("mutated", "with_nul"):
            ck.cov[k] = ck.cov.get(k, 0) + s.get(k, 0)
        fails += ck.validate("xml", "XmlTrace", "XmlTrace.cfg", tp, timeout=1200)
        os.remove(tp)
    if need_atoms is not None:
        missing = sorted(a for a in need_atoms if not atom_count.get(a))
        if missing:
            ck.fatal("vacuity: atoms of XmlDoc.tla never used by the %s run: %s" % (label, missing))
        kinds = ("StartTag", "StartTagPI", "EndTag", "Attribute", "Text", "Comment", "CDATA", "DOCTYPE", "StartTagClose", "StartTagCloseVoid", "StartTagClosePI")
        missing = [k for k in kinds if not kind_count.get(k)]
        if missing:
            ck.fatal("vacuity: token types never expected by the %s run: %s" % (label, missing))
        if not with_nul:
            ck.fatal("vacuity: no mutated document contains a NUL byte")
        ck.cov["atom_use"] = {"min": min(atom_count.get(a, 0) for a in need_atoms), "classes": len(need_atoms)}
    return fails


# every atom class of XmlDoc.tla (productions + pieces); the quick run must use each at least once
ATOMS = """s eq dq sq stag.lt stag.gt stag.void etag.lt etag.gt pi.open pi.close xd.xml xd.version xd.v10 xd.encoding xd.utf8 xd.standalone
xd.yesno pitarget misc.s chardata ename aname v.text v.gt v.sp v.tab v.nl v.cr v.eq v.slashgt v.qgt v.sq v.dq cmt.open cmt.close c.text c.dash
c.dashgt c.gt c.lt c.quote c.qgt c.cdend c.tag c.amp cd.open cd.close cd.text cd.rb cd.rbrb cd.rbgt cd.gt cd.lt cd.amp cd.tag cd.cmt dt.open
dt.close dt.s dt.name dt.SYSTEM dt.PUBLIC dt.pubid dt.dq dt.sq dt.lb dt.rb ds.entopen ds.declclose ds.s ds.peref ds.elemdecl dc.open dc.close
dc.text dc.gt dc.dq dc.sq dc.lb dc.rb xl.dq.text xl.dq.gt xl.dq.sq xl.dq.lb xl.dq.rb xl.sq.text xl.sq.gt xl.sq.dq xl.sq.lb xl.sq.rb el.dq.text
el.dq.gt el.dq.sq el.dq.lb el.dq.rb el.sq.text el.sq.gt el.sq.dq el.sq.lb el.sq.rb""".split()


def run(ck):
    thorough = ck.tier == "thorough"
    fails = []
    # exhaustive: every derivation within the bounds
    cfg = "Gen_thorough.cfg" if thorough else "Gen_quick.cfg"
    cases = ck.path("cases.ndjson")
    ck.tlc("xml", "XmlDoc", cfg, label="generator: XML 1.0 derivations (exhaustive within bounds)", env={"VERIF_CASES": cases}, timeout=900)
    fails += one_round(ck, cases, "exhaustive", 2 if thorough else 3, 1 if thorough else 2, need_atoms=ATOMS)
    ck.cov["exhaustive"] = True
    ck.cov["constants"] = {"exhaustive": dict(cfg=cfg, **BOUNDS[cfg])}
    if thorough:
        # deep random derivations of the same specification: SIM_PROCS single-worker simulations (deterministic per seed) in parallel
        def sim(k):
            out = ck.path("cases-sim-%d.ndjson" % k)
            ck.tlc("xml", "XmlDoc", "Gen_deep.cfg", label="generator: deep random derivations (-simulate)", env={"VERIF_CASES": out},
                   simulate=SIM_TRACES, depth=400, seed=ck.seed * 100 + k, workers=1, timeout=900, count=False)
            return out
        cases2 = ck.path("cases-sim.ndjson")
        with concurrent.futures.ThreadPoolExecutor(max_workers=SIM_PROCS) as ex, open(cases2, "w") as f:
            for out in ex.map(sim, range(SIM_PROCS)):
                f.write(open(out).read())
        fails += one_round(ck, cases2, "deep", 2, 1)
        ck.cov["constants"]["simulate"] = dict(cfg="Gen_deep.cfg", processes=SIM_PROCS, traces_each=SIM_TRACES, depth=400, **BOUNDS["Gen_deep.cfg"])
    # growth: the implementation-shaped model (I => P, differential replay; traces the property rejects come back as candidates)
    fails += c11impl.run(ck, thorough)
    judge(ck, fails, "thorough" if thorough else "quick")
    ck.cov["rule"] = ("every document derivable from the XML 1.0 productions transcribed in XmlDoc.tla within the bounds (constructs, variations, "
                      "pieces per body), each spelled several times (plain spelling + seeded spellings of names, white space, text, pieces) and "
                      "mutated (truncated, one byte replaced by NUL / 0xFF / a lone UTF-8 lead byte); thorough adds deep random derivations "
                      "(TLC -simulate). non-trivial = distinct input that produced at least three tokens. Signatures: rejected documents are "
                      "grouped by (construct, clause) and reduced to the minimal sets of non-plain atoms.")
    ck.assumptions += [
        "white space between the constructs of prolog / epilogue (S of Misc) may or may not be returned as a Text token",
        "Text() of DOCTYPE is compared up to leading/trailing white space; Text() of the three closing tokens is not compared",
        "encoding/xml does not normalise tab/newline in attribute values (XML 1.0 3.3.3); the normalisation is applied to its values "
        "before the comparison (XmlStream!Norm); CR LF inside attribute values and ']]>' inside attribute values are not generated "
        "(the first is left open by the statement, the second is rejected by encoding/xml)",
        "PI content is generated as pseudo-attributes only (the statement's 'prolog and processing instructions')",
        "tokens are judged up to the first error report (lexers.RunTokens)"]


SIM_TRACES = 700
SIM_PROCS = 8
BOUNDS = {"Gen_quick.cfg": dict(MaxC=3, MaxV=2, MaxT=4, MaxP=2), "Gen_thorough.cfg": dict(MaxC=4, MaxV=2, MaxT=5, MaxP=2),
          "Gen_deep.cfg": dict(MaxC=9, MaxV=6, MaxT=15, MaxP=3)}


def replay(ck, path):
    obj = json.load(open(path))
    ck.cov["samples"] = [{"input": obj["input"]}]
    ck.cov["evaluations"] = 1
    if reproduce(ck, obj):
        ck.violation(obj["sig"], obj.get("what", "replayed input rejected again"), {k: obj[k] for k in ("input", "wf", "exp", "gen", "atoms") if k in obj})
