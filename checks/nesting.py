"""Deep-nesting step of C01: TLC (spec/proto/Nesting.tla) enumerates construct x depth x variant x entry point; each case runs in
its own child process (a fatal stack overflow cannot be recovered in Go); a child that dies becomes an event with out:"fatal"."""
import concurrent.futures
import json
import os
import subprocess
import threading


CHILD_LIMIT = 300      # seconds per child; the slowest case takes well under a minute on an idle machine
MAX_CONFIRMED = 2      # dead children (each confirmed by a second run) after which the remaining cases are skipped


def run(ck, thorough):
    cases = ck.path("nest-cases.ndjson")
    ck.tlc("proto", "Nesting", "Nesting_thorough.cfg" if thorough else "Nesting_quick.cfg", label="generator: nesting families x depth x variant",
           env={"VERIF_CASES": cases}, timeout=600, count=False)
    items = [json.loads(json.loads(l)) for l in open(cases) if l.strip()]
    if not items:
        ck.fatal("nesting generator produced no cases")
    outdir = ck.path("nest")
    os.makedirs(outdir, exist_ok=True)

    confirm_lock = threading.Lock()
    state = {"confirmed": 0, "unconfirmed": 0}

    def one(k):
        c = items[k]
        tp = os.path.join(outdir, "%d.ndjson" % k)
        args = [ck.vdrive, "lexers", "nest", "-lang", c["lang"], "-pre", c["pre"], "-open", c["open"], "-mid", c["mid"], "-close", c["close"],
                "-post", c["post"], "-depth", str(c["depth"]), "-variant", c["variant"], "-out", tp, "-tid", str(k + 1)]
        if state["confirmed"] >= MAX_CONFIRMED:
            return None                 # enough dead children confirmed: the verdict is settled, the remaining cases are skipped

        def child():
            try:
                p = subprocess.run(args, stdout=subprocess.PIPE, stderr=subprocess.PIPE, timeout=CHILD_LIMIT)
                return p.returncode, p.stderr[-400:].decode("utf-8", "replace")
            except subprocess.TimeoutExpired:
                return -1, "timeout (hang)"
        rc, err = child()
        if rc != 0:
            with confirm_lock:          # a dead child counts only if it dies again when run once more, one at a time
                if state["confirmed"] >= MAX_CONFIRMED:
                    return None
                rc, err = child()
                if rc != 0:
                    state["confirmed"] += 1
                else:
                    state["unconfirmed"] += 1
        if rc != 0:
            # the child died: fatal error (e.g. 'goroutine stack exceeds 1000000000-byte limit') or hang
            kind = "fatal" if rc != -1 else "hang"
            first = err.strip().split("\n")[0] if err.strip() else ""
            ev = "Parse" if c["lang"].startswith("js.parse") else "Next"
            with open(tp, "w") as f:
                f.write(json.dumps({"t": k + 1, "i": 0, "ev": "Open", "out": "ret", "lang": c["lang"], "family": "", "len": 0, "tokenLvl": False,
                                    "concat": False, "nest": c}) + "\n")
                f.write(json.dumps({"t": k + 1, "i": 1, "ev": ev, "out": kind, "stderr": first[:200]}) + "\n")
        return tp

    with concurrent.futures.ThreadPoolExecutor(max_workers=max(2, ck.cores // 2)) as ex:
        paths = list(ex.map(one, range(len(items))))
    allp = ck.path("nest.ndjson")
    skipped = sum(1 for p in paths if p is None)
    if skipped:
        ck.notes.append("nesting: %d dead children confirmed by a second run; the remaining %d cases were skipped" % (state["confirmed"], skipped))
    if state["unconfirmed"]:
        ck.notes.append("nesting: %d children died once but completed when re-run alone (machine load); not counted" % state["unconfirmed"])
    with open(allp, "w") as out:
        for p in paths:
            if p is not None:
                out.write(open(p).read())
    ck.cov["evaluations"] += len(items) - skipped
    ck.cov["distinct_nontrivial"] += len({(c["lang"], c["name"], c["variant"]) for c in items if c["depth"] > 1000})
    ck.cov["samples"].append(items[len(items) // 2])
    ck.cov["rule"] += ("nesting: %d cases = recursive construct x depth x {closed, open, half} x entry point, each in its own process under the "
                       "default 1 GB stack limit; non-trivial = distinct (entry point, construct, variant) at depth > 1000. " % len(items))
    return allp
