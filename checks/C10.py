"""C10 - JSON parser accepts every valid document and reproduces it.

I  spec/json/JsonImpl.tla      json.Parser.Next over token classes (state stack, needComma, every error branch); TLC: I => P for all sequences
P  spec/json/JsonStream.tla    push-down monitor over units for any input + acceptance/re-join rule for valid documents
G  spec/json/JsonGrammar.tla   RFC 8259 as grammar-as-behaviour (document skeletons); mode "all": every token-class sequence
T  spec/json/JsonTrace.tla     judges traces of harness/suites/jsonp
"""
import json
import os


def classify(f):
    tr = f["trace"]
    ev = next((x for x in tr if x["i"] == f["i"]), {})
    o = tr[0]
    if ev.get("out") != "ret":
        return "json/panic", ev
    if ev.get("err"):
        if o.get("valid"):
            return ("json/valid-document-rejected" if not ev.get("eof") else "json/valid-document-not-reproduced"), ev
        return "json/error-report-rejected", ev
    k = ev.get("kname")
    gap = ev.get("gap") or []
    # reconstruct the monitor's stack to name the clause
    stack, after_key, prev_val = [], False, False
    for x in tr[1:]:
        if x["i"] >= f["i"] or x.get("err"):
            break
        kk = x["kname"]
        is_key = bool(stack) and stack[-1] == "o" and not after_key and kk == "String"
        if kk.startswith("Start"):
            stack.append("o" if kk == "StartObject" else "a")
        elif kk.startswith("End") and stack:
            stack.pop()
        after_key = is_key
        prev_val = (not is_key) and not kk.startswith("Start")
    top = stack[-1] if stack else None
    if k == "EndObject" and top != "o" or k == "EndArray" and top != "a":
        c = "end-unit-for-unopened-or-other-container"
    elif top == "o" and not after_key and k not in ("String", "EndObject"):
        c = "non-string-key-delivered-as-unit:%s" % k
    elif top == "o" and after_key and gap != ["colon"]:
        c = "missing-colon-not-reported"
    elif prev_val and not k.startswith("End") and stack and gap != ["comma"]:
        c = "missing-comma-not-reported"
    else:
        c = "state-or-unit-mismatch:%s" % k
    return "json/%s" % c, ev


def reproduce(ck, inp, bystander=False):
    p = ck.path("rerun-in.ndjson")
    with open(p, "w") as f:
        f.write(json.dumps({"input": inp, "bystander": bool(bystander)}) + "\n")
    ck.drive("jsonp", "file", "-in", p, "-out", ck.path("rerun.ndjson"))
    again = ck.validate("json", "JsonTrace", "JsonTrace.cfg", ck.path("rerun.ndjson"), shards=1)
    ck.cov["traces_validated_against_impl"] -= 1
    return bool(again)


def judge(ck, fails, origin):
    for f in fails:
        sig, ev = classify(f)
        if sig in ck.violations or sig in ck.known_hits:
            ck.violation(sig, "", {})
            continue
        inp = f["trace"][0].get("input")
        by = bool(f["trace"][0].get("bystander"))
        if not reproduce(ck, inp, by):
            ck.fatal("rejected trace did not reproduce: %s" % sig)
        try:
            txt = bytes(inp).decode("utf-8")
        except Exception:
            txt = repr(bytes(inp))
        ck.violation(sig, "json.Parser on %s (encoding/json valid=%s%s): event %s rejected by JsonStream.tla" % (
            json.dumps(txt), f["trace"][0].get("valid"), "; a second Parser over another document was stepped between the calls" if by else "", json.dumps({k: v for k, v in ev.items() if k not in ("data", "t")})[:300]),
            {"suite": "jsonp", "origin": origin, "input": inp, "bystander": by, "trace": f["trace"][: f["i"] + 1][-10:], "rejected_event_index": f["i"],
             "how": "bin/check C10 --replay <this file> parses the input again and validates the trace with spec/json/JsonTrace.tla"})


def run(ck):
    thorough = ck.tier == "thorough"
    ck.tlc("json", "JsonImpl", "JsonImpl_thorough.cfg" if thorough else "JsonImpl_quick.cfg", timeout=3000, heap="12g", workers=min(12, ck.cores),
           label="I=>P: model of json.Parser.Next over every token-class sequence refines JsonStream")
    ck.tlc("json", "JsonImpl", "JsonImpl_defect.cfg", label="model of the pre-fix parser ('{[' delivered as a unit) is rejected by P", expect_violation="Refines")
    for mode, cfg, label in (("grammar", "Gen_grammar_thorough.cfg" if thorough else "Gen_grammar_quick.cfg", "RFC 8259 derivations"),
                             ("all", "Gen_all_thorough.cfg" if thorough else "Gen_all_quick.cfg", "every token-class sequence")):
        cases = ck.path("cases-%s.ndjson" % mode)
        ck.tlc("json", "JsonGrammar", cfg, label="generator: " + label, env={"VERIF_CASES": cases}, timeout=1800)
        tp = ck.path("trace-%s.ndjson" % mode)
        s = ck.drive("jsonp", "replay", "-cases", cases, "-out", tp, "-seed", ck.seed, "-variants", 4 if mode == "grammar" else 1,
                     "-muts", 4 if thorough else 3, timeout=3000)
        if s["cases"] == 0:
            ck.fatal("generator %s produced no cases" % mode)
        ck.cov["evaluations"] += s["executions"]
        ck.cov["distinct_nontrivial"] += s["distinct_nontrivial"]
        ck.cov["samples"] += (s.get("samples") or [])[:2]
        ck.cov.setdefault("valid_documents", 0)
        ck.cov["valid_documents"] += s.get("valid_documents", 0)
        judge(ck, ck.validate("json", "JsonTrace", "JsonTrace.cfg", tp, timeout=3000), mode)
    import c10jsjson
    c10jsjson.run(ck, ck.path("cases-grammar.ndjson"), thorough)     # growth: the same documents as JavaScript, through AST.JSON
    ck.cov["exhaustive"] = True
    ck.cov["constants"] = {"grammar MaxTok": 15 if thorough else 11, "all MaxTok": 6 if thorough else 5}
    ck.cov["rule"] = ("grammar: every document skeleton derivable from RFC 8259 with at most MaxTok tokens (TLC), each spelled several times "
                      "(all escape/number/literal forms, whitespace at every structural position, by seed) and mutated (token deleted, closer swapped, "
                      "token inserted, truncated); all: every sequence of token classes up to the bound incl. junk. non-trivial = distinct input "
                      "with at least three units.")
    ck.assumptions += ["validity and the whitespace-free form of an input are taken from encoding/json (Valid, Compact), as the statement names it",
                       "units are judged up to the first error report"]


def replay(ck, path):
    obj = json.load(open(path))
    ck.cov["samples"] = [{"input": obj["input"]}]
    ck.cov["evaluations"] = 1
    if reproduce(ck, obj["input"], obj.get("bystander")):
        ck.violation(obj["sig"], obj.get("what", "replayed input rejected again"), {"input": obj["input"]})
