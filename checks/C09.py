"""C09 - HTML lexer recognises tags, attributes, raw text and foreign content.

G  spec/html/HtmlDoc.tla     HTML constructs as grammar-as-behaviour: documents as atom sequences + the expected tokens
P  spec/html/HtmlStream.tla  the clauses for ALL inputs: attribute tokens only inside a tag, raw-text content is one text
                             token up to the matching end tag, template regions never split / HasTemplate exact
T  spec/html/HtmlTrace.tla   judges the traces of harness/suites/htmldoc (P on every trace; observed = expected token
                             list on generated documents)
I  spec/html/HtmlImpl.tla    html/lex.go function by function over a class alphabet; TLC: I => P for every class string,
                             differential replay of the predicted token lists (checks/c09impl.py)
"""
import json

CFG = {"html": ("Gen_html_quick.cfg", "Gen_html_thorough.cfg"), "tmpl": ("Gen_tmpl_quick.cfg", "Gen_tmpl_thorough.cfg")}
RAW = {"script", "style", "title", "textarea", "xmp", "iframe", "plaintext"}


def as_text(inp):
    try:
        return bytes(inp).decode("utf-8")
    except Exception:
        return repr(bytes(inp))


def stream_clause(tr, idx):
    """Re-run the monitor of HtmlStream.tla over the accepted prefix to name the clause the rejected event breaks."""
    in_tag, tag, phase, raw = False, "", "none", ""
    for x in tr[1:]:
        if x.get("ev") != "Tok" or x.get("out") != "ret":
            break
        k, name = x["kname"], x.get("tname", "")
        if x["i"] == idx:
            if k == "Attribute" and not in_tag:
                return "attribute-outside-tag"
            if k in ("StartTagClose", "StartTagVoid") and not in_tag:
                return "tag-close-without-start-tag"
            matching = k == "EndTag" and name == raw and raw != "plaintext"
            if phase == "content" and not (k == "Text" or matching):
                return "raw/content-ends-at-non-matching-end-tag" if k == "EndTag" else "raw/markup-instead-of-content:%s" % k
            if phase == "after" and not matching:
                if k == "EndTag":
                    return "raw/content-ends-at-non-matching-end-tag"
                return "raw/token-before-matching-end-tag:%s" % k
            return None
        enter = k == "StartTagClose" and tag in RAW
        if enter:
            raw = tag
        phase = "content" if enter else ("after" if phase == "content" and k == "Text" else "none")
        if k == "StartTag":
            in_tag, tag = True, name
        elif k in ("StartTagClose", "StartTagVoid"):
            in_tag = False
    return None


def generic(lbl):
    """raw.<element>.text -> raw.text: the element is reported in the text of the finding, the signature names the mechanism."""
    p = lbl.split(".")
    if len(p) >= 3 and p[0] == "raw":
        return ".".join(["raw"] + p[2:])
    return lbl


def classify(f):
    tr = f["trace"]
    ev = next((x for x in tr if x["i"] == f["i"]), {})
    o = tr[0]
    lang = o.get("lang", "?")
    # documents without template regions exercise the same mechanisms under every entry point
    fam = "tmpl." + (o.get("tcls") or lang.split(".")[-1]) if o.get("regs") else "html"
    if ev.get("out") != "ret":
        return "htmldoc/%s/panic" % fam, ev
    if o.get("checked") and ev.get("why"):
        cul = ev.get("culprit", "-")
        return "htmldoc/%s/%s/%s%s" % (fam, generic(ev.get("lbl", "?")), (cul + "/") if cul != "-" else "", ev["why"]), ev
    if ev.get("ev") == "Tok":
        c = stream_clause(tr, f["i"])
        if c:
            return "htmldoc/any-input/%s" % c, ev
    if o.get("known"):
        return "htmldoc/%s/template-region-split-or-flag" % fam, ev
    return "htmldoc/%s/%s-rejected" % (fam, ev.get("ev")), ev


def rerun_line(o):
    if o.get("case") is not None:
        return {"lang": o["lang"], "case": o["case"], "parts": o["parts"]}
    return {"lang": o["lang"], "input": o["input"]}


def reproduce(ck, line):
    p = ck.path("rerun-in.ndjson")
    with open(p, "w") as f:
        f.write(json.dumps(line) + "\n")
    ck.drive("htmldoc", "file", "-in", p, "-out", ck.path("rerun.ndjson"))
    again = ck.validate("html", "HtmlTrace", "HtmlTrace.cfg", ck.path("rerun.ndjson"), shards=1)
    ck.cov["traces_validated_against_impl"] -= 1
    return again


def judge(ck, fails, origin):
    for f in fails:
        sig, ev = classify(f)
        if sig in ck.violations or sig in ck.known_hits:
            ck.violation(sig, "", {})
            continue
        o = f["trace"][0]
        line = rerun_line(o)
        again = reproduce(ck, line)
        if not again or classify(again[0])[0] != sig:
            ck.fatal("rejected trace did not reproduce: %s" % sig)
        exp = " ".join(x["k"] for x in o.get("exp", []))
        obs = " ".join(x.get("kname", "End") for x in f["trace"][1: f["i"] + 1])
        what = "%s on %s: token %d rejected (%s); observed so far: %s%s" % (
            o["lang"], json.dumps(as_text(o["input"])), f["i"], ev.get("why") or "HtmlStream.tla",
            obs, ("; expected: " + exp) if o.get("checked") else " (mutated document, all-input clauses only)")
        ck.violation(sig, what, {"suite": "htmldoc", "origin": origin, "rerun": line, "input": o["input"], "lang": o["lang"],
                                 "constructs": o.get("cs"), "atoms": o.get("atoms"), "trace": f["trace"][1: f["i"] + 1][-8:],
                                 "rejected_event_index": f["i"],
                                 "how": "bin/check C09 --replay <this file> lexes the document again and validates the trace with spec/html/HtmlTrace.tla"})


def sort_cases(path):
    """TLC's workers append their lines in no particular order: sort them, so that trace ids and samples are reproducible."""
    lines = sorted(set(open(path).readlines()))
    with open(path, "w") as f:
        f.writelines(lines)


def run(ck):
    thorough = ck.tier == "thorough"
    consts = {}
    for mode in ("html", "tmpl"):
        cfg = CFG[mode][1 if thorough else 0]
        cases = ck.path("cases-%s.ndjson" % mode)
        kw = {}
        if thorough:
            n = 50000 if mode == "html" else 8000
            kw = dict(simulate=n, depth=6, seed=ck.seed, workers=1)   # every worker would replay the same random behaviours
            consts[mode] = {"MaxLen": 5, "Sample": True, "behaviours": n}
        else:
            consts[mode] = {"MaxLen": 3, "Sample": False}
        ck.tlc("html", "HtmlDoc", cfg, label="generator: %s documents" % mode, env={"VERIF_CASES": cases}, timeout=900, **kw)
        if thorough:
            # the exhaustive vocabulary of the quick tier is part of the thorough tier too
            q = ck.path("cases-%s-q.ndjson" % mode)
            ck.tlc("html", "HtmlDoc", CFG[mode][0], label="generator: %s documents (exhaustive part)" % mode, env={"VERIF_CASES": q}, timeout=900)
            with open(cases, "a") as out:
                first = True
                for line in open(q):
                    if first:       # one vacuity line is enough (the sampled file starts with the same one)
                        first = False
                        continue
                    out.write(line)
        sort_cases(cases)
        tp = ck.path("trace-%s.ndjson" % mode)
        s = ck.drive("htmldoc", "replay", "-cases", cases, "-out", tp, "-seed", ck.seed, "-variants", 2 if thorough and mode == "html" else 1,
                     "-muts", 1, "-alsotmpl", 5 if thorough else 7, timeout=1200)
        if s["cases"] == 0:
            ck.fatal("generator %s produced no cases" % mode)
        if s.get("required_but_unused"):
            ck.fatal("vacuity: classes listed in HtmlDoc.tla (Required) were never used in %s mode: %s" % (mode, ", ".join(s["required_but_unused"])))
        ck.cov["evaluations"] += s["executions"]
        ck.cov["distinct_nontrivial"] += s["distinct_nontrivial"]
        ck.cov["samples"] += (s.get("samples") or [])[:2]
        ck.cov.setdefault("mutated_documents", 0)
        ck.cov["mutated_documents"] += s.get("mutated", 0)
        ck.cov.setdefault("atom_classes_used", {})[mode] = len(s.get("atom_classes") or {})
        ck.cov.setdefault("token_labels_used", {})[mode] = len(s.get("labels") or {})
        judge(ck, ck.validate("html", "HtmlTrace", "HtmlTrace.cfg", tp, timeout=1200), mode)
    ck.cov["exhaustive"] = not thorough
    ck.cov["constants"] = consts
    ck.cov["rule"] = ("documents = sequences of constructs derived from HtmlDoc.tla (quick: every construct of the full vocabulary alone and in "
                      "every Pre/Post context plus all core documents of <= 3 constructs; thorough: that plus -simulate documents of 4-5 random "
                      "constructs), each spelled by seed per entry point (plain lexer; template documents under all six dialect names) and mutated "
                      "once (truncate / NUL / 0xFF / lone lead byte). non-trivial = distinct (entry point, document) with at least three expected tokens.")
    ck.assumptions += [
        "Doctype Text() is compared modulo leading whitespace; an Attribute token may or may not include the whitespace before the name",
        "an end tag with trailing attributes: Text() must begin with the lower-cased name",
        "a top-level template region is expected as its own Template token; AttrKey() of a name containing a region may keep its case",
        "tokens are located in the input by searching their bytes (case-insensitively) after the previous token; faithfulness itself is C02",
        "not generated: template regions in comments, doctype, CDATA, plaintext, svg/math, or directly followed by name characters inside a tag",
    ]
    # growth (DESIGN.md section 7 item 2): the implementation-shaped model of the lexer's automaton, TLC-checked against
    # HtmlStream / TokenStream and replayed differentially on the code - see checks/c09impl.py
    import c09impl
    c09impl.run(ck, thorough)


def replay(ck, path):
    obj = json.load(open(path))
    line = obj.get("rerun") or {"lang": obj["lang"], "input": obj["input"]}
    ck.cov["samples"] = [{"lang": obj.get("lang"), "input": as_text(obj.get("input", []))}]
    ck.cov["evaluations"] = 1
    again = reproduce(ck, line)
    if again:
        ck.violation(obj["sig"], obj.get("what", "replayed document rejected again"), {"rerun": line, "input": obj.get("input"), "lang": obj.get("lang")})
