"""C07, growth step (DESIGN.md section 7 item 2): the implementation-shaped model of css.Lexer.Next.

I  spec/css/CssLexImpl.tla   /repo/css/lex.go function by function over character classes (the switch of Next, consumeWhitespace,
                             consumeComment, consumeIdentToken / consumeEscape, consumeNumberToken / consumeNumeric, consumeString,
                             consumeUnicodeRangeToken, consumeIdentlike with url(, consumeUnquotedURL, consumeRemnantsBadURL, CDO/CDC,
                             at-keyword, hash, custom property, column, match operators, NUL / end of input).
   1. TLC, for EVERY atom string within the bound (families of sub-alphabets, each aimed at one sub-automaton):
        RefinesTok  I => proto/TokenStream.tla (css family: non-empty, contiguous, ordered, nothing skipped, one error report)
        AgreesStd   the token the model returns = the token the reference tokeniser css/CssRef.tla (CSS Syntax 4.3 transcribed)
                    returns at the same place: "control flow of lex.go = algorithm of the standard" on all strings up to the bound;
        Tight       a token the model flags as a deviation does differ from the standard's.
      The code leaves the standard at six named places (see the head of the spec).  As coded (what the replay uses) every such
      place is flagged and excused; REPAIRED (every switch on, nothing excused) agreement is total; with one flag not excused TLC
      must report the disagreement (CssLexImpl_dev_*.cfg), with that one switch on it must not (CssLexImpl_dev_*_std.cfg).
   2. differential replay: TLC writes every string with the predicted token list; `vdrive csstok impl` spells the classes (by seed),
      lexes the bytes and compares types and byte lengths.  A difference is MODEL DRIFT (evidence only); what the code did on a
      differing input is recorded as a csstok trace whose expectation is the standard's token list as TLC computed it, and
      css/CssTokensTrace.tla (the property) judges it - only a trace the PROPERTY rejects becomes a violation.
   3. defect configurations: models of plausible regressions that TLC must reject.
"""
import concurrent.futures
import json
import os
import re

import vcheck

LIBS = (vcheck.COMMON, os.path.join(vcheck.SPEC, "proto"))
ALL = ["letter", "e", "u", "r", "l", "hex", "digit", "nonascii", "plus", "dash", "dot", "bslash", "dq", "sq", "lparen", "rparen", "hash", "at",
       "slash", "star", "lt", "gt", "bang", "pipe", "tilde", "caret", "dollar", "eq", "pct", "qmark", "ws", "nl", "cr", "ff", "nul", "np", "other",
       "colon", "semi", "comma", "lbrack", "rbrack", "lbrace", "rbrace"]
# family -> (prefix atoms, alphabet, bound quick, bound thorough); the files spec/css/CssLexImpl_<family>_<tier>.cfg say the same
FAMILIES = {
    "all": (["none"], ALL, 3, 3),                                                                        # every class: all triples
    "ident": (["none"], ["letter", "hex", "digit", "dash", "bslash", "lparen", "hash", "at", "nonascii"], 5, 6),   # names, custom properties, hash, at-keyword
    "esc": (["none", "bshex", "bslash"], ["bslash", "hex", "digit", "d5", "ws", "nl", "cr", "crlf", "ff", "letter"], 4, 5),   # escapes and what ends them
    "num": (["none"], ["digit", "e", "dot", "plus", "dash", "pct", "letter", "bslash"], 5, 6),     # sign, fraction, exponent back-off, units
    "str": (["dq"], ["dq", "sq", "bslash", "nl", "cr", "crlf", "ff", "letter", "hex", "ws", "nul"], 4, 5),          # strings, escaped newlines, BadString
    "url": (["urlp"], ["ws", "dq", "sq", "bslash", "rparen", "lparen", "letter", "nl", "np"], 5, 6),          # unquoted url, whitespace, bad url recovery
    "urlq": (["urldq", "urlsq"], ["dq", "sq", "bslash", "nl", "ws", "rparen", "letter"], 5, 6),              # quoted url
    "urlx": (["urlp"], ["bshex", "nul", "ws", "rparen", "letter", "bslash", "dq"], 4, 6),                # url with hexadecimal escapes, NUL
    "urlname": (["none", "u", "bslash"], ["u", "r", "l", "bslash", "lparen", "letter", "rparen"], 5, 6),  # which names open a url
    "cmt": (["none", "copen"], ["slash", "star", "letter", "nl", "cclose", "copen"], 5, 6),             # comments
    "cdo": (["none"], ["lt", "bang", "dash", "gt", "digit", "letter", "cdo", "cdc"], 5, 6),             # <!-- --> and the other readings of '-'
    "ops": (["none"], ["pipe", "eq", "tilde", "caret", "dollar", "star", "slash", "colon", "letter", "ws"], 4, 5),   # match operators, column
    "ur": (["uplus"], ["e", "digit", "qmark", "dash", "d5", "plus", "letter", "gt"], 5, 6),             # unicode ranges
}
# repaired model (every deviation switched to the standard, nothing excused): total agreement; name -> (family, bound quick, bound thorough)
REPAIRED = {"all": ("all", 2, 3), "ur": ("ur", 4, 6), "str": ("str", 4, 5), "urlname": ("urlname", 4, 6), "url": ("url", 4, 6),
            "ident": ("ident", 4, 6), "esc": ("esc", 3, 5)}
# deviation of the code from the standard -> (prefixes, alphabet, bound, flag, what): as coded and NOT excused TLC must report AgreesStd
DEVIATIONS = {
    "unicode": (["uplus"], ["digit", "dash", "d5", "qmark"], 3, "unicode-range",
                "consumeUnicodeRangeToken gives up (Rewind) where 4.3.13 ends the token at the longest valid prefix: U+1- (known finding), more than six digits"),
    "badstring": (["dq"], ["letter", "nl", "cr"], 2, "badstring-newline", "consumeString consumes the newline that ends a bad string (the statement allows it)"),
    "bslasheof": (["none"], ["letter", "bslash", "hash"], 2, "bslash-eof", "a backslash as the last character is no escape (4.3.8: valid, U+FFFD)"),
    "dashed": (["none"], ["dash", "letter", "lparen"], 4, "dashed-function", "--x( is CustomPropertyName LeftParenthesis (4.3.4: Function)"),
    "urlname": (["u"], ["bslash", "r", "l", "lparen"], 5, "url-name", "the lexeme with ALL backslashes removed is compared with url: u\\\\rl( reads a url (4.3.4: value u\\rl, Function)"),
    "nul": (["none"], ["letter", "nul"], 2, "nul", "an embedded NUL is a non-printable delimiter (3.3: replaced by U+FFFD, a name code point)"),
}
# regression modelled -> (prefixes, alphabet, bound, what); TLC must report AgreesStd
DEFECTS = {
    "exp": (["none"], ["digit", "e", "plus"], 3, "exponent without digits stays part of the number (no Rewind): 1e is a Number"),
    "hexws": (["bshex"], ["ws", "letter"], 2, "a hexadecimal escape does not consume the whitespace behind it"),
    "urlquoted": (["urldq"], ["letter", "dq", "rparen"], 3, "url( does not look for a quoted argument: url(\"a\") is a BadURL"),
    "remnants": (["urlp"], ["lparen", "bslash", "rparen"], 4, "consumeRemnantsBadURL ignores escapes: a bad url ends at an escaped ')'"),
    "comment": (["copen"], ["star", "slash", "letter"], 4, "a '*' directly behind a '*' is skipped unexamined: '**/' does not end a comment"),
}
# css.TokenType values the lexer can return (EmptyToken and CustomPropertyValueToken are the parser's)
KINDS = ("Ident", "Function", "AtKeyword", "Hash", "String", "BadString", "URL", "BadURL", "Delim", "Number", "Percentage", "Dimension",
         "UnicodeRange", "IncludeMatch", "DashMatch", "PrefixMatch", "SuffixMatch", "SubstringMatch", "Column", "Whitespace", "CDO", "CDC",
         "Colon", "Semicolon", "Comma", "LeftBracket", "RightBracket", "LeftParenthesis", "RightParenthesis", "LeftBrace", "RightBrace",
         "Comment", "CustomPropertyName")
FLAGS = ("unicode-range", "badstring-newline", "bslash-eof", "dashed-function", "url-name")
ITEM_KIND = {"id.one": "Ident", "func.plain": "Function", "at.plain": "AtKeyword", "hash.id": "Hash", "str.dq": "String", "badstr.dq": "BadString",
             "url.unq": "URL", "badurl.quote": "BadURL", "delim.other": "Delim", "num.int": "Number", "pct.int": "Percentage", "dim.plain": "Dimension",
             "ur.single": "UnicodeRange", "match.incl": "IncludeMatch", "match.dash": "DashMatch", "match.prefix": "PrefixMatch",
             "match.suffix": "SuffixMatch", "match.substr": "SubstringMatch", "column": "Column", "sep.sp": "Whitespace", "cdo": "CDO", "cdc": "CDC",
             "colon": "Colon", "semi": "Semicolon", "comma": "Comma", "lbrack": "LeftBracket", "rbrack": "RightBracket", "lparen": "LeftParenthesis",
             "rparen": "RightParenthesis", "lbrace": "LeftBrace", "rbrace": "RightBrace", "sep.cmt": "Comment", "custom.plain": "CustomPropertyName"}
_RE_INIT = re.compile(r"Finished computing initial states: (?:\d+ states generated, with )?(\d+) (?:of them )?distinct")
PROPS = "RefinesTok, AgreesStd, Tight"


def judge(ck, fails, origin):
    """Traces CssTokensTrace rejected: what the code did on an input where it differs from the model breaks the property."""
    import C07
    for f in fails:
        o = f["trace"][0]
        j, what, ev = C07.locate(f)
        sig = "csstok/impl/%s/%s" % ("end" if j is None else ITEM_KIND.get(o["names"][j], o["names"][j]), what.split("/")[-1])
        if sig in ck.violations or sig in ck.known_hits or sig in getattr(ck, "known_alias", {}):
            ck.violation(sig, "", {})
            continue
        line = {"mode": "tok", "names": o["names"], "los": o["los"], "his": o["his"], "input": o["input"]}
        if not C07.reproduce(ck, line):
            ck.fatal("rejected trace did not reproduce: %s" % sig)
        obs = [(x["kname"], C07.txt(o["input"][x["lo"]:x["hi"]])) for x in f["trace"][1:] if x["ev"] == "Tok"]
        exp = [(ITEM_KIND.get(n, n), C07.txt(o["input"][o["los"][i]:o["his"][i]])) for i, n in enumerate(o["names"])]
        ck.violation(sig, "css.Lexer on %s (classes %s): the standard's tokens (CssRef.tla, computed by TLC) %s, observed %s; event %d rejected by "
                     "CssTokens.tla; the model CssLexImpl.tla differs too (%s)" % (C07.txt(o["input"]), " ".join(o.get("cls") or []), exp, obs, f["i"], o.get("detail")),
                     {"suite": "csstok", "origin": origin, "line": line, "trace": f["trace"][:40], "rejected_event_index": f["i"],
                      "how": "bin/check C07 --replay <this file> re-runs 'line' on /repo and validates the trace with spec/css/CssTokensTrace.tla"})


def selftest(ck):
    """The replay notices a wrong prediction (1e as one Number), and the property rejects what the code does against that expectation."""
    p = ck.path("impl-self.ndjson")
    with open(p, "w") as f:
        for c in ({"cls": ["digit", "e"], "ks": ["Dimension"], "ns": [2], "dev": [], "std": []},
                  {"cls": ["digit", "e", "ws"], "ks": ["Number", "Whitespace"], "ns": [2, 1], "dev": [], "std": []}):
            f.write(json.dumps(json.dumps(c)) + "\n")
    tp = ck.path("impl-self-trace.ndjson")
    s = ck.drive("csstok", "impl", "-cases", p, "-out", tp, "-seed", ck.seed, "-variants", 1)
    if s["cases"] != 2 or s["mismatches"] != 1 or s["judged_by_property"] != 1:
        ck.fatal("self-test: the replay reported %s differences on one right and one wrong prediction" % s["mismatches"])
    fails = ck.validate("css", "CssTokensTrace", "CssTokensTrace.cfg", tp, shards=1)
    ck.cov["traces_validated_against_impl"] -= 1
    if len({f["t"] for f in fails}) != 1:
        ck.fatal("self-test: CssTokensTrace did not reject the code's tokens against a wrong expectation")
    return "a wrong prediction (1e as a Number) is reported as a difference and its trace is rejected by CssTokensTrace"


def run(ck, thorough):
    tier = "thorough" if thorough else "quick"
    par = max(1, min(6, ck.cores // 2))                  # TLC processes side by side (2 workers each)
    kw = dict(lib_dirs=LIBS, workers=2, count=False, heap="2g" if thorough else "1g", timeout=3000 if thorough else 900)
    drift = {"cases": 0, "executions": 0, "differences": 0, "rejected_by_property": 0, "drift": 0, "differences_on_deviation_inputs": 0,
             "kinds": {}, "samples": []}
    kind_count, dev_count, info = {}, {}, {}

    def model(job):
        """One family as coded: TLC (I => P, agreement, cases) and the replay of its cases on the code."""
        n, name = job
        cfg = "CssLexImpl_%s_%s.cfg" % (name, tier)
        cases = ck.path("impl-cases-%s.ndjson" % name)
        r = ck.tlc("css", "CssLexImpl", cfg, label="I=>P (%s) as coded + predicted token lists: family '%s'" % (PROPS, name), env={"VERIF_CASES": cases}, **kw)
        m = _RE_INIT.search(r.out or "")
        lines = sorted(open(cases).readlines()) if os.path.exists(cases) else []      # TLC's workers write in no particular order
        # "the stream ends with one error report": every input reached its error report, where the case is written
        if not m or len(lines) != int(m.group(1)) or len(lines) < 2:
            ck.fatal("CssLexImpl %s: %s inputs but %d reached the error report" % (name, m.group(1) if m else "?", len(lines)))
        with open(cases, "w") as f:
            f.writelines(lines)
        tp = ck.path("impl-trace-%s.ndjson" % name)
        s = ck.drive("csstok", "impl", "-cases", cases, "-out", tp, "-seed", ck.seed, "-variants", 2, "-tidbase", (n + 1) * 10000000, timeout=1800)
        os.remove(cases)
        return name, r, tp, s

    def repaired(name):
        fam, q, t = REPAIRED[name]
        return ck.tlc("css", "CssLexImpl", "CssLexImpl_std_%s_%s.cfg" % (name, tier), env={"VERIF_CASES": ck.path("unused")},
                      label="REPAIRED model (every deviation switched to the standard, nothing excused): total agreement, family '%s'" % fam, **kw)

    def deviation(name):
        pre, alpha, n, flag, what = DEVIATIONS[name]
        ck.tlc("css", "CssLexImpl", "CssLexImpl_dev_%s.cfg" % name, expect_violation="AgreesStd", env={"VERIF_CASES": ck.path("unused")},
               label="deviation as coded, not excused - TLC reports the disagreement with the standard: " + what, **kw)
        if flag != "nul":
            return ck.tlc("css", "CssLexImpl", "CssLexImpl_dev_%s_std.cfg" % name, env={"VERIF_CASES": ck.path("unused")},
                          label="the same with the switch %s on: agreement" % flag, **kw)

    def defect(name):
        ck.tlc("css", "CssLexImpl", "CssLexImpl_defect_%s.cfg" % name, expect_violation="AgreesStd", env={"VERIF_CASES": ck.path("unused")},
               label="defect model rejected: " + DEFECTS[name][3], **kw)

    with concurrent.futures.ThreadPoolExecutor(max_workers=par) as ex:
        big = ("all", "num", "ident", "ur", "cdo", "urlname")     # the long runs first
        order = sorted(enumerate(FAMILIES), key=lambda j: j[1] not in big)
        fm = [ex.submit(model, j) for j in order[:3]]
        fr = [ex.submit(repaired, "all")]
        fm += [ex.submit(model, j) for j in order[3:]]
        fr += [ex.submit(repaired, n) for n in REPAIRED if n != "all"]
        fo = [ex.submit(deviation, n) for n in DEVIATIONS] + [ex.submit(defect, n) for n in DEFECTS]
        runs = [f.result() for f in fm]
        reps = [f.result() for f in fr]
        devs = [f.result() for f in fo]
    for r in reps + [d for d in devs if d]:
        ck.cov["states"] += r.distinct or 0
        ck.cov["transitions"] += r.generated or 0

    alltr = ck.path("impl-trace.ndjson")
    with open(alltr, "w") as out:
        for name, r, tp, s in runs:
            if s["cases"] == 0:
                ck.fatal("CssLexImpl %s emitted no cases" % name)
            ck.cov["states"] += r.distinct or 0
            ck.cov["transitions"] += r.generated or 0
            info[name] = {"inputs": s["cases"], "states": r.distinct, "wall_s": round(r.wall_s, 1)}
            for k, v in (s.get("kind_count") or {}).items():
                kind_count[k] = kind_count.get(k, 0) + v
            for k, v in (s.get("dev_count") or {}).items():
                dev_count[k] = dev_count.get(k, 0) + v
            ck.cov["evaluations"] += s["executions"]
            ck.cov["distinct_nontrivial"] += s["distinct_nontrivial"]
            drift["cases"] += s["cases"]
            drift["executions"] += s["executions"]
            drift["differences"] += s["mismatches"]
            drift["differences_on_deviation_inputs"] += s["differences_on_deviation_inputs"]
            for k, v in (s.get("drift_kinds") or {}).items():
                drift["kinds"][k] = drift["kinds"].get(k, 0) + v
            drift["samples"] += [dict(d, family=name) for d in (s.get("drift_samples") or [])][:3]
            if name == "num":
                ck.cov["samples"] += (s.get("samples") or [])[:1]
            out.write(open(tp).read())
            os.remove(tp)
    # vacuity: the model must have predicted every token type the lexer has, and raised every deviation flag
    missing = [k for k in KINDS if not kind_count.get(k)] + ["flag:" + k for k in FLAGS if not dev_count.get(k)]
    if missing:
        ck.fatal("vacuity: CssLexImpl never predicted %s" % ", ".join(missing))
    # what the code did on the differing inputs is judged by the property (expectation: the standard's tokens as TLC computed them)
    fails = ck.validate("css", "CssTokensTrace", "CssTokensTrace.cfg", alltr, timeout=1800) if os.path.getsize(alltr) else []
    drift["rejected_by_property"] = len({f["t"] for f in fails})
    drift["drift"] = drift["differences"] - drift["rejected_by_property"]
    drift["selftest"] = selftest(ck)
    judge(ck, fails, "differential replay of spec/css/CssLexImpl.tla")

    ck.cov["model_drift"] = ck.cov.get("model_drift") or []
    ck.cov["model_drift"].append({"model": "css/CssLexImpl.tla", **drift})
    ck.cov["constants"]["CssLexImpl"] = {
        "MaxLen": {k: v[3 if thorough else 2] for k, v in FAMILIES.items()}, "prefixes_and_alphabets": {k: v[:2] for k, v in FAMILIES.items()},
        "families": info, "properties": PROPS, "token_types_predicted": kind_count, "inputs_with_a_flagged_deviation": dev_count,
        "repaired_model_total_agreement": {k: {"family": v[0], "MaxLen": v[2 if thorough else 1]} for k, v in REPAIRED.items()},
        "deviations_from_the_standard_reported_by_TLC": {k: v[4] for k, v in DEVIATIONS.items()},
        "defect_models_rejected_by_TLC": {k: v[3] for k, v in DEFECTS.items()}}
    if drift["drift"]:
        ck.log("MODEL-DRIFT: css.Lexer differs from spec/css/CssLexImpl.tla on %d of %d inputs (%s): %d rejected by the property (see the violations), "
               "%d accepted by it, %d not judged (inputs at a flagged deviation); drift is not a verdict - see evidence" % (
                   drift["differences"], drift["executions"], drift["kinds"], drift["rejected_by_property"],
                   drift["drift"] - drift["differences_on_deviation_inputs"], drift["differences_on_deviation_inputs"]))
        ck.notes.append("MODEL-DRIFT CssLexImpl: %d of %d inputs differ (%s)" % (drift["drift"], drift["executions"], drift["kinds"]))
    else:
        ck.log("CssLexImpl: %d inputs replayed; the code differs from the model on %d (all rejected by the property); drift 0" % (
            drift["executions"], drift["differences"]))
    ck.assumptions += [
        "CssLexImpl: character classes are the byte tests of css/lex.go; 'nonascii' is one valid UTF-8 code point; the value of a hexadecimal "
        "escape is not determined on classes - spellings in which one reads u, r or l are not used (there the code compares the lexeme, the "
        "standard the value: \\75 rl( is a url for the standard only)",
        "CssLexImpl agrees with CssRef.tla (CSS Syntax 4.3) except at the flagged deviations: unicode-range given up instead of ended "
        "(known finding U+1-, and more than six digits), the newline that ends a bad string is part of the BadString, a backslash at the "
        "end of input is no escape, --x( is no Function, `u\\\\rl(` reads a url, NUL is not replaced by U+FFFD",
    ]


def gencfg():
    """Rewrite spec/css/CssLexImpl_*.cfg from the tables above (python3 checks/c07impl.py, with lib/ on PYTHONPATH)."""
    d = os.path.join(vcheck.SPEC, "css")
    sw = {"UnicodeRangeAsStandard": "unicode-range", "BadStringAsStandard": "badstring-newline", "BslashEofAsStandard": "bslash-eof",
          "DashedFunctionAsStandard": "dashed-function", "UrlNameAsStandard": "url-name"}

    def st(xs):
        return "{" + ", ".join('"%s"' % x for x in xs) + "}"

    def cfg(name, prefixes, alpha, maxlen, emit, std=(), nul=False, excuse=FLAGS, defect="none"):
        lines = ["SPECIFICATION Spec", "CONSTANTS", "  Prefixes = " + st(prefixes), "  Alphabet = " + st(alpha), "  MaxLen = %d" % maxlen,
                 "  Emit = %s" % ("TRUE" if emit else "FALSE")]
        lines += ["  %s = %s" % (k, "TRUE" if v in std else "FALSE") for k, v in sw.items()]
        lines += ["  NulAsStandard = %s" % ("TRUE" if nul else "FALSE"), "  Excuse = " + st(excuse), '  Defect = "%s"' % defect, "INVARIANT TypeOK",
                  "PROPERTY RefinesTok", "PROPERTY AgreesStd", "PROPERTY Tight", "CHECK_DEADLOCK FALSE", ""]
        with open(os.path.join(d, "CssLexImpl_%s.cfg" % name), "w") as f:
            f.write("\n".join(lines))

    for f in os.listdir(d):
        if f.startswith("CssLexImpl_") and f.endswith(".cfg"):
            os.remove(os.path.join(d, f))
    for name, (pre, alpha, q, t) in FAMILIES.items():
        cfg(name + "_quick", pre, alpha, q, True)
        cfg(name + "_thorough", pre, alpha, t, True)
    for name, (fam, q, t) in REPAIRED.items():
        pre, alpha = FAMILIES[fam][:2]
        cfg("std_%s_quick" % name, pre, alpha, q, False, std=FLAGS, excuse=[])
        cfg("std_%s_thorough" % name, pre, alpha, t, False, std=FLAGS, excuse=[])
    for name, (pre, alpha, n, flag, what) in DEVIATIONS.items():
        cfg("dev_" + name, pre, alpha, n, False, nul=(flag == "nul"), excuse=[x for x in FLAGS if x != flag])
        if flag != "nul":
            cfg("dev_" + name + "_std", pre, alpha, n, False, std=[flag], excuse=[x for x in FLAGS if x != flag])
    for name, (pre, alpha, n, what) in DEFECTS.items():
        cfg("defect_" + name, pre, alpha, n, False, defect=name)


if __name__ == "__main__":
    gencfg()
