"""C11, growth step (DESIGN.md section 7 item 2): the implementation-shaped model of xml.Lexer.Next.

I  spec/xml/XmlImpl.tla   /repo/xml/lex.go function by function over character classes (Next with inTag, shiftDOCTYPEText,
                          shiftCDATAText, shiftCommentText, shiftStartTag, shiftAttribute incl. the in-place rewrite of tab/LF/CR,
                          shiftEndTag, NUL / end of input).
   1. TLC: I => P for EVERY atom string within the bound: RefinesXml (all-input clauses of xml/XmlStream.tla) and RefinesTok
      (proto/TokenStream.tla as far as expressible on classes); several alphabets, each aimed at one sub-automaton.
   2. differential replay: TLC writes every string with the predicted token list; `vdrive xmldoc impl` spells the classes
      (by seed), lexes the bytes and compares.  A difference is MODEL DRIFT (evidence only): the differing inputs are
      recorded as xmldoc traces and judged by xml/XmlTrace.tla exactly like C11's other traces - only a trace the PROPERTY
      rejects becomes a violation.
   3. defect configurations: models of plausible regressions that TLC must reject, and one wrong model that the all-input
      clauses cannot see (DOCTYPE in-string flag toggled by both quotes) which the replay must report as drift.
"""
import concurrent.futures
import json
import os

import vcheck

PROTO = os.path.join(vcheck.SPEC, "proto")
LIBS = (vcheck.COMMON, PROTO)

CONFIGS = ("tag", "attr", "doctype", "cdata", "chars")
BOUNDS = {"quick": {"tag": 5, "attr": 5, "doctype": 5, "cdata": 5, "chars": 4},
          "thorough": {"tag": 6, "attr": 6, "doctype": 6, "cdata": 6, "chars": 5}}
# prefix atoms + alphabet of each configuration (as in spec/xml/XmlImpl_<name>_<tier>.cfg)
ALPHABETS = {
    "tag": (["none"], ["lt", "gt", "slash", "qmark", "eq", "sp", "nl", "x", "nul"]),
    "attr": (["stag"], ["attr", "eq", "dq", "sq", "sp", "nl", "x", "gt", "slash", "nul"]),
    "doctype": (["doctype"], ["cdo", "cdc", "lt", "gt", "lb", "rb", "dq", "sq", "x", "nul"]),
    "cdata": (["cdata", "cdo"], ["cdend", "cdc", "dash", "rb", "gt", "lt", "x", "nul"]),
    "chars": (["none"], ["lt", "gt", "slash", "bang", "qmark", "dash", "eq", "dq", "sq", "lb", "rb", "sp", "nl", "x", "nul"])}
# regression modelled -> (cfg, property TLC must report)
DEFECTS = (
    ("XmlImpl_defect_void.cfg", "RefinesXml", "inTag not cleared at '/>': an Attribute token outside a tag (XmlStream!Tok)"),
    ("XmlImpl_defect_name.cfg", "RefinesTok", "attribute-name loop stops at any '/' or '?': an empty Attribute token (TokenStream!Tok, n > 0)"),
    ("XmlImpl_defect_nulintag.cfg", "RefinesXml", "NUL inside a tag returns ErrorToken without setting l.err: Err() = nil (XmlStream!ErrRep)"),
    ("XmlImpl_defect_dtnul.cfg", "RefinesXml", "DOCTYPE literal scan without the NUL test: runs over the terminator (a panic is no step of P) "
                                               "or swallows an embedded NUL and ends with EOF (XmlStream!ErrRep)"),
)
KINDS = ("StartTag", "StartTagPI", "EndTag", "Attribute", "Text", "Comment", "CDATA", "DOCTYPE", "StartTagClose", "StartTagCloseVoid", "StartTagClosePI")


def run(ck, thorough):
    tier = "thorough" if thorough else "quick"
    drift = {"cases": 0, "executions": 0, "mismatches": 0, "kinds": {}, "samples": []}
    kind_count, end_count, norm_cases = {}, {}, 0

    def model(job):
        """One configuration: TLC (I => P, cases) and the replay of its cases on the code."""
        n, name = job
        cfg = "XmlImpl_%s_%s.cfg" % (name, tier)
        cases = ck.path("impl-cases-%s.ndjson" % name)
        ck.tlc("xml", "XmlImpl", cfg, label="I=>P (RefinesXml, RefinesTok) + predicted token lists: alphabet '%s'" % name,
               env={"VERIF_CASES": cases}, lib_dirs=LIBS, workers=4 if thorough else 3, heap="6g", timeout=1500 if thorough else 280)
        tp = ck.path("impl-trace-%s.ndjson" % name)
        s = ck.drive("xmldoc", "impl", "-cases", cases, "-out", tp, "-seed", ck.seed, "-variants", 2 if thorough else 1,
                     "-every", 400 if thorough else 100, "-tidbase", n * 10000000, timeout=1200)
        os.remove(cases)
        return name, tp, s

    def defect(d):
        cfg, prop, what = d
        ck.tlc("xml", "XmlImpl", cfg, label="defect model rejected: " + what, expect_violation=prop, lib_dirs=LIBS, workers=2,
               env={"VERIF_CASES": ck.path("unused")}, timeout=280)

    def wrong_model():
        """A wrong model that the all-input clauses cannot see: TLC accepts it, the replay must report differences."""
        cases = ck.path("impl-cases-toggle.ndjson")
        ck.tlc("xml", "XmlImpl", "XmlImpl_drift_dtquote.cfg", count=False, lib_dirs=LIBS, workers=2, timeout=280, env={"VERIF_CASES": cases},
               label="wrong model (DOCTYPE in-string flag toggled by both quotes): satisfies the all-input clauses")
        return ck.drive("xmldoc", "impl", "-cases", cases, "-out", ck.path("impl-trace-toggle.ndjson"), "-seed", ck.seed, "-every", 0, timeout=600)

    # the configurations are independent: side by side (thorough: the defect models first, then three at a time)
    with concurrent.futures.ThreadPoolExecutor(max_workers=3 if thorough else len(CONFIGS) + 2) as ex:
        fd = [ex.submit(defect, d) for d in DEFECTS]
        fw = ex.submit(wrong_model)
        runs = list(ex.map(model, enumerate(CONFIGS)))
        for f in fd:
            f.result()
        sw = fw.result()
    if not sw["mismatches"]:
        ck.fatal("self-test: the replay did not notice the wrong DOCTYPE model (0 differences in %d cases)" % sw["cases"])
    drift["selftest_wrong_model_differences"] = sw["mismatches"]

    alltr = ck.path("impl-trace.ndjson")
    with open(alltr, "w") as out:
        for name, tp, s in runs:
            if s["cases"] == 0:
                ck.fatal("XmlImpl %s emitted no cases" % name)
            for k, v in (s.get("kind_count") or {}).items():
                kind_count[k] = kind_count.get(k, 0) + v
            for k, v in (s.get("end_count") or {}).items():
                end_count[k] = end_count.get(k, 0) + v
            norm_cases += s.get("norm_cases", 0)
            ck.cov["evaluations"] += s["executions"]
            ck.cov["distinct_nontrivial"] += s["distinct_nontrivial"]
            drift["cases"] += s["cases"]
            drift["executions"] += s["executions"]
            drift["mismatches"] += s["mismatches"]
            for k, v in (s.get("drift_kinds") or {}).items():
                drift["kinds"][k] = drift["kinds"].get(k, 0) + v
            drift["samples"] += [dict(d, alphabet=name) for d in (s.get("drift_samples") or [])][:4]
            if name == "attr":
                ck.cov["samples"] += (s.get("samples") or [])[:1]
            out.write(open(tp).read())
            os.remove(tp)
    # vacuity: the model must have predicted every token type, both kinds of error report and an in-place rewrite
    missing = [k for k in KINDS if not kind_count.get(k)]
    if missing or not end_count.get("eof") or not end_count.get("error") or not norm_cases:
        ck.fatal("vacuity: XmlImpl never predicted %s (ends %s, rewrites %d)" % (missing, end_count, norm_cases))
    # what the code did on the differing inputs (and on a seeded sample of the others) is judged by the property
    fails = ck.validate("xml", "XmlTrace", "XmlTrace.cfg", alltr, timeout=1200)

    ck.cov["model_drift"] = ck.cov.get("model_drift") or []
    ck.cov["model_drift"].append({"model": "xml/XmlImpl.tla", **drift})
    ck.cov["constants"]["XmlImpl"] = {"MaxLen": BOUNDS[tier], "prefixes_and_alphabets": ALPHABETS, "token_types_predicted": kind_count,
                                      "error_reports_predicted": end_count, "cases_with_rewrite": norm_cases}
    if drift["mismatches"]:
        ck.log("MODEL-DRIFT: xml.Lexer differs from spec/xml/XmlImpl.tla on %d of %d inputs (%s); not a verdict - see evidence" % (
            drift["mismatches"], drift["executions"], drift["kinds"]))
        ck.notes.append("MODEL-DRIFT XmlImpl: %d of %d inputs differ (%s)" % (drift["mismatches"], drift["executions"], drift["kinds"]))
    else:
        ck.log("XmlImpl: %d inputs replayed, the code agrees with the model on every token" % drift["executions"])
    ck.assumptions += ["XmlImpl: character classes are those xml/lex.go distinguishes; every other byte is class 'x' (spelled by seed, "
                       "incl. multi-byte and invalid UTF-8); the model stops at the first error report like lexers.RunTokens"]
    return fails
