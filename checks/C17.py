"""C17 - Whitespace, entity and attribute normalisation preserves meaning.

P  spec/text/Normalise.tla       RMW by definition; ReplaceEntities: never longer, idempotent, HTML-decoded text unchanged
                                 (NUL references excepted); combined = the two in sequence; Escape*AttrVal: read back by
                                 the lexer as one attribute that decodes to the same text, unquoted / original quote kept
                                 as documented; EscapeCDATAVal declines or un-escapes to its input (judge)
G  spec/text/NormaliseGen.tla    TLC enumerates every whitespace string, entity-fragment sequence, attribute value x
                                 (lang, origQuote, mustQuote) and CDATA text up to a bound, with the expectation P fixes
T  spec/text/NormaliseTrace.tla  validates the observations recorded from the real code against P
"""
import concurrent.futures
import json
import os
import shutil

import tlc as tlcmod
import vcheck

SUITE = "normalise"
KINDS = ("ws", "ent", "attr", "cdata")
CONST = {
    "quick": {"ws": "MaxLen=7 over {sp,tab,nl,cr,ff,x}", "ent": "MaxLen=5 over 16 fragments", "attr": "MaxLen=5 over 10 symbols x 7 parameter sets",
              "cdata": "MaxLen=6 over {<,&,],>,x}"},
    "thorough": {"ws": "MaxLen=8", "ent": "MaxLen=5, plus length 6 with at least two '&' fragments", "attr": "MaxLen=6 x 7 parameter sets", "cdata": "MaxLen=8"},
}


def text(ints):
    return repr(bytes(ints))[1:]


def sig_of(f):
    ev = next((x for x in f["trace"] if x["i"] == f["i"]), {})
    call = ev.get("ev")
    new = f["trace"][0]
    if call == "Esc":
        call = "Esc-" + str(new.get("lang"))
    return "%s/%s/%s" % (SUITE, call, f.get("why", "rejected")), ev


def describe(f, ev):
    new = f["trace"][0]
    s = "in=%s" % text(new.get("in", []))
    if new.get("k") == "attr":
        s += " lang=%s origQuote=%s mustQuote=%s" % (new.get("lang"), new.get("oq"), new.get("mq"))
    if new.get("k") == "ent":
        s += " maps=cfg%s" % new.get("cfg")
    obs = {k: (text(v) if isinstance(v, list) and k != "tk" else v) for k, v in ev.items() if k not in ("t", "i", "ev")}
    return "%s: %s observed %s: rejected by Normalise.tla (%s)" % (ev.get("ev"), s, json.dumps(obs, sort_keys=True), f.get("why"))


def judge(ck, fails, origin):
    for f in fails:
        sig, ev = sig_of(f)
        if sig in ck.violations or sig in ck.known_hits:
            ck.violation(sig, "", {})   # counted, not re-examined
            continue
        # reproduce: re-execute the same calls on the code and validate that trace again
        tp = ck.path("rerun-in.json")
        json.dump(f["trace"], open(tp, "w"))
        ck.drive(SUITE, "rerun", "-trace", tp, "-out", ck.path("rerun.ndjson"))
        again = ck.validate("text", "NormaliseTrace", "NormaliseTrace.cfg", ck.path("rerun.ndjson"), shards=1)
        ck.cov["traces_validated_against_impl"] -= 1
        if not again or sig_of(again[0])[0] != sig:
            ck.fatal("rejected trace did not reproduce: %s" % sig)
        ck.violation(sig, describe(f, ev),
                     {"suite": SUITE, "origin": origin, "trace": f["trace"], "rejected_event_index": f["i"], "why": f.get("why"),
                      "how": "bin/check C17 --replay <this file> re-executes the calls of 'trace' on /repo and validates them with spec/text/NormaliseTrace.tla"})


def generate(ck, thorough):
    """The four enumerations are independent: run TLC on them side by side, account for them afterwards."""
    def one(kind):
        cfg = "NormGen_%s_%s.cfg" % (kind, "thorough" if thorough else "quick")
        cases = ck.path("cases-%s.ndjson" % kind)
        r = tlcmod.run_tlc(os.path.join(vcheck.SPEC, "text"), "NormaliseGen", cfg, ck.work, workers=6 if kind in ("ent", "attr") else 3,
                           lib_dirs=(vcheck.COMMON,), env={"VERIF_CASES": cases}, timeout=2400, heap="8g" if thorough else "4g")
        return kind, cfg, cases, r
    out = {}
    with concurrent.futures.ThreadPoolExecutor(4) as ex:
        for kind, cfg, cases, r in ex.map(one, KINDS):
            ck.cov["tlc_runs"].append({"spec": "text/NormaliseGen", "cfg": cfg, "generated": r.generated, "distinct": r.distinct, "depth": r.depth,
                                       "wall_s": round(r.wall_s, 2), "label": "enumeration of %s inputs with expectations" % kind})
            if not r.ok:
                ck.fatal("TLC text/NormaliseGen %s failed (violated=%s, error=%s)\n%s" % (cfg, r.violated, r.error, r.out[-3000:]))
            ck.cov["states"] += r.distinct or 0
            ck.cov["transitions"] += r.generated or 0
            shutil.rmtree(r.scratch, ignore_errors=True)
            out[kind] = cases
    return out


def run(ck):
    thorough = ck.tier == "thorough"
    cases = generate(ck, thorough)
    ck.cov["exhaustive"] = True
    ck.cov["constants"] = dict(CONST[ck.tier], entity_maps="cfg0: tests' maps + lt/gt, reverse {' -> &#39;, < -> &lt;}; cfg1: same, reverse nil")

    # --- spec -> code: every enumerated input, compared with TLC's expectation; candidates and a sample become traces
    sample = 2000 if thorough else 500

    def rp(kk):
        k, kind = kk
        return kind, ck.drive(SUITE, "replay", "-cases", cases[kind], "-out", ck.path("replay-%s.ndjson" % kind), "-seed", ck.seed,
                              "-sample", sample, "-tid0", k * 100000000)
    sums = {}
    with concurrent.futures.ThreadPoolExecutor(4) as ex:
        for kind, s in ex.map(rp, enumerate(KINDS)):
            if s["cases"] == 0:
                ck.fatal("generator produced no %s cases" % kind)
            sums[kind] = s
            ck.log("replayed %d %s cases, %d executions, %d candidates" % (s["cases"], kind, s["executions"], s["mismatches"]))
    with open(ck.path("replay.ndjson"), "w") as f:
        for kind in KINDS:
            with open(ck.path("replay-%s.ndjson" % kind)) as g:
                shutil.copyfileobj(g, f)

    # --- code -> spec: seeded random byte strings
    n = 60000 if thorough else 4000
    s2 = ck.drive(SUITE, "record", "-n", n, "-seed", ck.seed, "-out", ck.path("record.ndjson"))

    ck.cov["evaluations"] = sum(s["executions"] for s in sums.values()) + s2["executions"]
    ck.cov["distinct_nontrivial"] = sum(s["distinct_nontrivial"] for s in sums.values()) + s2["distinct_nontrivial"]
    ck.cov["rule"] = ("replay: every input TLC enumerated (x up to 3 seed-chosen concretisations of the symbol x, x 2 entity-map configurations); "
                      "record: seeded random byte strings from entity fragments, whitespace, text, multi-byte and invalid UTF-8. non-trivial = the function "
                      "changed its input (a run was collapsed / a reference replaced / quotes or escapes added / CDATA text escaped), distinct by "
                      "(kind, parameters, concrete input bytes)")
    ck.cov["samples"] = (sums["ent"].get("samples") or [])[:1] + (sums["attr"].get("samples") or [])[:1] + (s2.get("samples") or [])[:1]

    rejected = ck.validate("text", "NormaliseTrace", "NormaliseTrace.cfg", ck.path("replay.ndjson"), shards=min(ck.cores, 8))
    cand = sum(s["mismatches"] for s in sums.values())
    if cand != len(rejected):
        ck.notes.append("harness screen flagged %d replayed inputs, Normalise.tla rejected %d of the traces handed over (the T spec decides)" % (cand, len(rejected)))
    judge(ck, rejected, "replay of TLC-enumerated inputs")
    judge(ck, ck.validate("text", "NormaliseTrace", "NormaliseTrace.cfg", ck.path("record.ndjson"), shards=min(ck.cores, 8)), "recorded random input")
    ck.assumptions += [
        "HTML decoding is html.UnescapeString of the Go standard library, logged for input and output (the statement names it as the reference); "
        "its numeric accumulator wraps at 32 bits, so for references with more than 8 digits it is not the HTML standard's decoding",
        "'references NUL' = the input contains a complete &#0...0; or &#x0...0; (Normalise!RefsNUL); the decoded-text clause is waived for the whole input",
        "the statement does not fix the order of 'the two in sequence': the combined result may equal RE(RMW(x)) or RMW(RE(x))",
        "html.EscapeAttrVal: 'quoting requested' is read as mustQuote with an original quote to keep (mustQuote with origQuote=0 may return the value unquoted, "
        "as the library's own TestEscapeAttrValXML expects); an empty value may stay unquoted (the lexer reads <a x=> as an empty value)",
        "xml: decoded texts are compared after XML attribute-value normalisation (tab/newline/cr read as space), which the xml lexer applies; "
        "html.UnescapeString is used for both sides in both languages",
        "EscapeCDATAVal: 'text' is read as character data the xml lexer returns as one Text token from <a>TEXT</a>",
        "every in-place call runs on a private copy inside a larger array, twice with different surrounding bytes: the surroundings must stay intact and must not matter",
    ]


def replay(ck, path):
    obj = json.load(open(path))
    tp = ck.path("rerun-in.json")
    json.dump(obj["trace"], open(tp, "w"))
    ck.drive(SUITE, "rerun", "-trace", tp, "-out", ck.path("rerun.ndjson"))
    fails = ck.validate("text", "NormaliseTrace", "NormaliseTrace.cfg", ck.path("rerun.ndjson"), shards=1)
    ck.cov["samples"] = [obj["trace"][:2]]
    ck.cov["evaluations"] = 1
    for f in fails:
        sig, ev = sig_of(f)
        ck.violation(sig, "replayed trace: " + describe(f, ev), {"suite": SUITE, "trace": f["trace"], "rejected_event_index": f["i"], "why": f.get("why")})
