"""Growth beyond C16 (DESIGN.md section 7 item 5): public helpers that none of the listed properties mentions.

P  spec/text/Helpers2.tla       AppendEscape, QuoteEntity, Printable, IsWhitespace/IsNewline, Copy, Indenter (parse);
                                AsIdentifierName, AsDecimalLiteral (js); IsIdent, IsURLUnquoted (css; cross-checked inside
                                the generator against spec/css/CssRef.tla); LenUint (strconv) - each from its doc comment
                                and the standard it refers to
G  spec/text/Helpers2Gen.tla    TLC enumerates every argument over small atom alphabets up to a bound, with the
                                TLA+-computed expectation
T  spec/text/Helpers2Trace.tla  judges the traces of the real functions: all kinds of mismatching + sampled replay
                                executions and seeded random calls with longer arguments

These functions are OUTSIDE the statement of C16: a reproduced disagreement is reported with ck.beyond (a NOTE in the
output and `beyond_property` in the evidence), never as a violation of C16.
"""
import json
import os

import vcheck

CSS = os.path.join(vcheck.SPEC, "css")
FAMS = ["esc", "quote", "print", "byte", "copy", "indent", "jsid", "jsnum", "cssid", "cssurl", "lenuint", "unitab"]
# functions with a boolean result: the enumeration must expect both answers (else the table is vacuous)
BOOLS = ["AsIdentifierName", "AsDecimalLiteral", "IsIdent", "IsURLUnquoted", "QuoteEntity", "IsIdentifierStart", "IsIdentifierContinue", "IsIdentifierEnd"]


def txt(a):
    try:
        return repr(bytes(a))[1:]
    except (TypeError, ValueError):
        return str(a)


def sig_of(f):
    """A specific signature: function / direction of the disagreement : class of the argument (named by the harness)."""
    tr = f["trace"]
    new = tr[0]
    ev = next((x for x in tr if x["i"] == f["i"]), {})
    name = ev.get("ev", "?")
    if ev.get("out") == "panic":
        return "helpers2/%s/panic" % name, ev
    if name in ("AsIdentifierName", "AsDecimalLiteral", "IsIdent", "IsURLUnquoted"):
        cls = new.get({"AsIdentifierName": "cls_id", "AsDecimalLiteral": "cls_num", "IsIdent": "cls_id", "IsURLUnquoted": "cls_url"}[name], "?")
        kind = "true-on-invalid" if ev.get("r") else "false-on-valid"
        return "helpers2/%s/%s:%s" % (name, kind, cls), ev
    if name in ("IsIdentifierStart", "IsIdentifierContinue", "IsIdentifierEnd"):
        return "helpers2/%s/%s" % (name, "true-on-other-character" if ev.get("r") else "false-on-identifier-character"), ev
    if name == "QuoteEntity":
        kind = "quote-not-recognised" if ev.get("q") == 0 else "wrong-quote-or-length"
        return "helpers2/QuoteEntity/%s:%s" % (kind, new.get("cls", "?")), ev
    if name == "AppendEscape":
        return "helpers2/AppendEscape/wrong-result:%s" % new.get("cls", "?"), ev
    if name == "Out":
        kind = "depends-on-chunking" if ev.get("o") != ev.get("whole") else "wrong-output"
        return "helpers2/Indenter.Write/%s" % kind, ev
    if name == "WriteCounts":
        return "helpers2/Indenter.Write/count-exceeds-len", ev
    if name == "Indent":
        return "helpers2/Indenter.Indent/wrong-result", ev
    return "helpers2/%s/wrong-result" % name, ev


def describe(f, ev):
    new = f["trace"][0]
    name = ev.get("ev")
    obs = {k: (txt(v) if isinstance(v, list) and v and all(isinstance(x, int) for x in v) and k in ("r", "o", "whole", "sAfter") else v)
           for k, v in ev.items() if k not in ("t", "i", "ev", "out", "cap")}
    if name in ("Out", "WriteCounts", "Indent"):
        writes = [txt(x["p"]) for x in f["trace"] if x.get("ev") == "Write"]
        arg = "NewIndenter(w, %d)%s; Write %s" % (new.get("n"), "" if new.get("n2", -1) < 0 else " wrapped by NewIndenter(., %d)" % new["n2"], ", ".join(writes))
    elif name == "AppendEscape":
        arg = "AppendEscape(%s, %s, %s, %s)" % (txt(new["b"]), txt(new["s"]), txt(new["chars"]), txt([new["esc"]]))
    elif name == "Printable":
        arg = "Printable(%d) [unicode.IsGraphic: %s]" % (new.get("r"), new.get("graphic"))
    elif name in ("IsWhitespace", "IsNewline"):
        arg = "%s(%d)" % (name, new.get("c"))
    elif name == "LenUint":
        arg = "LenUint(%s)" % "".join(map(str, new.get("d", [])))
    else:
        arg = "%s(%s)" % (name, txt(new.get("s", [])))
    return "%s observed %s: rejected by Helpers2.tla" % (arg, json.dumps(obs, sort_keys=True))


def validate(ck, path, shards):
    return ck.validate("text", "Helpers2Trace", "Helpers2Trace.cfg", path, shards=shards, extra_dirs=("css",))


def run(ck, thorough):
    tier = "thorough" if thorough else "quick"
    cases = ck.path("h2-cases.ndjson")

    # --- spec -> code: TLC enumerates the function tables (one run, all families), the harness replays them
    r = ck.tlc("text", "Helpers2Gen", "Gen2_%s.cfg" % tier, label="growth: function tables of Helpers2.tla", lib_dirs=(vcheck.COMMON, CSS),
               env={"VERIF_SEED": ck.seed, "VERIF_CASES": cases}, workers=min(8, ck.cores), timeout=1500 if thorough else 280, heap="4g")
    if not os.path.exists(cases) or os.path.getsize(cases) == 0:
        ck.fatal("Helpers2Gen wrote no cases (%s distinct states)" % r.distinct)
    s = ck.drive("helpers2", "replay", "-cases", cases, "-out", ck.path("h2-replay.ndjson"), "-sample", 150 if thorough else 40)
    os.remove(cases)
    for fam in FAMS:
        if not s["per_family"].get(fam):
            ck.fatal("Helpers2Gen produced no case of family %s" % fam)
    if s["spec_std_disagree"]:
        ck.fatal("the Unicode sample of Helpers2.tla disagrees with Go's unicode tables: %s" % json.dumps(s.get("spec_std_samples"))[:1500])
    for fn in BOOLS:
        for want in ("true", "false"):
            if not s["expected"].get("%s=%s" % (fn, want)):
                ck.fatal("vacuous table: no enumerated case expects %s = %s" % (fn, want))
    ck.log("helpers2  %8d cases, %8d calls, %d differ from the expectation (%d kinds), %d open, %d panics" %
           (s["cases"], s["executions"], s["mismatches"], len(s.get("mismatch_keys") or {}), s["undetermined"], s["panics"]))

    # --- code -> spec: seeded random calls with longer arguments built from the same atoms
    s2 = ck.drive("helpers2", "record", "-n", 1500 if thorough else 120, "-seed", ck.seed, "-out", ck.path("h2-record.ndjson"))
    ck.log("helpers2  record: %d traces, %d calls, %d panics" % (s2["traces"], s2["executions"], s2["panics"]))

    # --- verdicts: Helpers2Trace.tla judges every kind of mismatching and the sampled replay executions, and all recorded ones
    both = ck.path("h2-traces.ndjson")
    with open(both, "w") as out:
        for p in ("h2-replay.ndjson", "h2-record.ndjson"):
            with open(ck.path(p)) as f:
                out.write(f.read())
    n = sum(1 for _ in open(both))
    fails = validate(ck, both, max(1, min(ck.cores // 2, n // 4000)))
    rejected = {f["t"] for f in fails}
    cands = {}
    for f in fails:
        sig, ev = sig_of(f)
        cands.setdefault(sig, {"f": f, "ev": ev, "count": 0})["count"] += 1

    # reproduce: re-execute one trace per signature on the code (one harness run) and validate those traces again
    sigs = sorted(cands)
    if sigs:
        tp = ck.path("h2-rerun-in.json")
        json.dump([cands[x]["f"]["trace"] for x in sigs], open(tp, "w"))
        ck.drive("helpers2", "rerun", "-traces", tp, "-out", ck.path("h2-rerun.ndjson"))
        again = {}
        for f in validate(ck, ck.path("h2-rerun.ndjson"), 1):
            again.setdefault(f["t"], set()).add(sig_of(f)[0])
        ck.cov["traces_validated_against_impl"] -= len(sigs)
        for k, sig in enumerate(sigs):
            c = cands[sig]
            if sig not in again.get(k + 1, ()):
                ck.fatal("rejected trace did not reproduce: %s" % sig)
            for _ in range(c["count"]):
                ck.beyond(sig, describe(c["f"], c["ev"]),
                          {"suite": "helpers2", "spec": "spec/text/Helpers2.tla", "trace": c["f"]["trace"], "rejected_event_index": c["f"]["i"],
                           "how": "vdrive helpers2 rerun -traces <file holding [trace]> re-executes the calls on /repo; "
                                  "spec/text/Helpers2Trace.tla validates them"})

    # an expectation of the generator that the property-level spec does not insist on is drift (a bug of the generator)
    drift = [m for m in (s.get("mismatch_list") or []) if m["t"] not in rejected]
    if drift:
        ck.cov["model_drift"] += [{"family": "helpers2/" + m["fam"], **m} for m in drift[:5]]
        ck.notes.append("MODEL-DRIFT: %d replay executions of helpers2 differ from the generator's expectation but are accepted by Helpers2.tla" % len(drift))

    ck.cov["evaluations"] += s["executions"] + s2["executions"]
    ck.cov["distinct_nontrivial"] += s["distinct_nontrivial"] + s2["distinct_nontrivial"]
    ck.cov.setdefault("cases_per_family", {}).update({"helpers2/" + k: v for k, v in s["per_family"].items()})
    ck.cov["cases_replayed_against_impl"] = ck.cov.get("cases_replayed_against_impl", 0) + s["cases"]
    ck.cov["growth_helpers2"] = {
        "functions": ["parse.AppendEscape", "parse.QuoteEntity", "parse.Printable", "parse.IsWhitespace", "parse.IsNewline", "parse.Copy",
                      "parse.NewIndenter/Indenter.Write/Indent", "js.AsIdentifierName", "js.AsDecimalLiteral", "js.IsIdentifierStart", "js.IsIdentifierContinue", "js.IsIdentifierEnd", "css.IsIdent", "css.IsURLUnquoted",
                      "strconv.LenUint"],
        "cases": s["cases"], "calls": s["executions"], "open_cases": s["undetermined"], "expected_answers": s["expected"],
        "mismatch_kinds": s.get("mismatch_keys"), "recorded_traces": s2["traces"], "states": r.distinct,
        "rule": "non-trivial = an escape was inserted; a quote entity or an open spelling; a rune outside 32..126; a whitespace byte; a "
                "non-empty copy; a text with a newline; an argument one of the two js / css predicates must accept; every LenUint argument",
        "samples": (s.get("samples") or [])[:3]}
    ck.assumptions += [
        "growth (Helpers2.tla): ID_Start/ID_Continue of non-ASCII code points is a sample of 21 code points (checked against Go's unicode "
        "tables by the harness); arguments with other non-ASCII code points are not determined",
        "growth: open (any result accepted): QuoteEntity on spellings where XML and HTML differ (&#X22; a missing semicolon, &QUOT;); "
        "AsDecimalLiteral with '_' or 0 followed by a digit; css predicates on a NUL byte or a backslash as the last byte; whether the first "
        "line and an empty last line written through an Indenter are indented",
        "growth: AppendEscape and Indenter have no doc comment: demanded is what their names, signatures, the package's example tables and "
        "io.Writer's contract say (see the comments in Helpers2.tla)"]
