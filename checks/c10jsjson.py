"""Growth step run with C10 (beyond the listed properties): JSON documents and JavaScript respellings of the same value through
js.Parse and AST.JSON, judged by spec/json/JsJson.tla.  Disagreements are NOTEs (ck.beyond), never violations of C10."""
import json


def text(b):
    return bytes(b or []).decode("utf-8", "replace")


def run(ck, cases, thorough):
    tp = ck.path("jsjson.ndjson")
    s = ck.drive("jsonp", "jsjson", "-cases", cases, "-out", tp, "-seed", ck.seed, "-variants", 3 if thorough else 1, timeout=1500)
    if not s.get("executions"):
        ck.fatal("jsjson: no JSON document was run")
    for need in ("json", "single-quoted-strings", "trailing-commas", "js-number-forms", "unquoted-keys", "template-strings", "comments"):
        if not (s.get("by_origin") or {}).get(need):
            ck.fatal("jsjson: no text of kind %s was run (vacuous)" % need)
    ck.cov["growth_jsjson"] = {"documents": s.get("cases"), "texts": s.get("executions"), "by_kind": s.get("by_origin"), "differ_in_pre_check": s.get("mismatches")}
    for f in ck.validate("json", "JsJson", "JsJson.cfg", tp, timeout=1500):
        o = f["trace"][0]
        ev = next((x for x in f["trace"] if x["i"] == f["i"]), {})
        if ev.get("out") != "ret":
            what = "panic"
        elif not ev.get("parsed"):
            what = "not-parsed"
        elif ev.get("err"):
            what = "json-text-declined"
        elif not ev.get("valid"):
            what = "output-is-not-json"
        else:
            what = "output-denotes-another-value"
        sig = "jsjson/%s/%s" % (o.get("which") or "json", what)
        ck.beyond(sig, "js.Parse + AST.JSON on %s (value of the JSON document %s): %s%s; rejected by JsJson.tla" % (
            json.dumps("(" + text(o.get("text")) + ")"), json.dumps(text(o.get("doc"))), what,
            (" " + json.dumps(text(ev.get("o")))) if ev.get("o") else (" " + json.dumps(ev.get("etext", "")))),
            {"suite": "jsonp", "text": text(o.get("text")), "doc": text(o.get("doc")), "event": {k: v for k, v in ev.items() if k not in ("t",)}})
