package binary

import (
	"encoding/json"
	"flag"
	"fmt"
	"math/rand"
	"os"
	"runtime"
	"sync"

	"verif/harness/internal/reg"
	"verif/harness/internal/tr"
)

// gop is one call of a TLC scenario with what Binary.tla says must be observed (see BinaryGen.tla, Rec).
type gop struct {
	Op  string   `json:"op"`
	W   int      `json:"w"`
	N   int      `json:"n"`
	K   int      `json:"k"`
	Off int      `json:"off"`
	Wh  int      `json:"wh"`
	V   []int    `json:"v"`
	B   []int    `json:"b"`
	R   int      `json:"r"`
	Es  []string `json:"es"`
	P   int      `json:"p"`
	Plo int      `json:"plo"`
	Phi int      `json:"phi"`
	X   string   `json:"x"`
}

type scenario struct {
	Kind  string `json:"kind"`
	Len   int    `json:"len"`
	Order string `json:"order"`
	Fwd   bool   `json:"fwd"`
	Ops   []gop  `json:"ops"`
	Bytes []int  `json:"bytes"`
	Bits  []int  `json:"bits"`
}

type summary struct {
	Suite      string         `json:"suite"`
	Mode       string         `json:"mode"`
	Cases      int            `json:"cases"`
	Executions int            `json:"executions"`
	Mismatches int            `json:"mismatches"` // executions that differ from the canonical expectation TLC emitted (Binary.tla decides)
	Diverged   int            `json:"diverged"`   // executions that took another result the property allows
	Dropped    int            `json:"dropped"`    // differing executions not written because enough traces of the same shape were kept
	Traces     int            `json:"traces"`
	Events     int            `json:"events"`
	Nontrivial int            `json:"distinct_nontrivial"`
	PerBackend map[string]int `json:"per_backend"`
	Shapes     map[string]int `json:"mismatch_shapes"`
	Samples    []interface{}  `json:"samples"`
	Drift      []interface{}  `json:"drift_samples"`
}

func eqInts(a, b []int) bool {
	if len(a) != len(b) {
		return false
	}
	for i := range a {
		if a[i] != b[i] {
			return false
		}
	}
	return true
}

func ints(e tr.E, k string) []int {
	v, _ := e[k].([]int)
	return v
}

func inSet(s []string, x interface{}) bool {
	for _, y := range s {
		if y == x {
			return true
		}
	}
	return false
}

const (
	stOK = iota
	stDiverged
	stMismatch
)

// compare one observed reader event with the expectation; returns the status and the first differing field.
func compare(g gop, ev tr.E) (int, string) {
	if ev["out"] != "ret" {
		return stMismatch, "out"
	}
	switch g.Op {
	case "Fixed":
		if ev["xs"] != false {
			return stMismatch, "xs"
		}
		if !eqInts(ints(ev, "v"), g.V) {
			return stMismatch, "v"
		}
	case "ReadByte":
		if !inSet(g.Es, ev["e"]) {
			return stMismatch, "e"
		}
		if ev["e"] == "nil" && !eqInts(ints(ev, "v"), g.V) {
			return stMismatch, "v"
		}
	case "ReadBytes":
		if !eqInts(ints(ev, "b"), g.B) {
			return stMismatch, "b"
		}
	case "Read", "ReadAt":
		if ev["n"] != g.N {
			return stMismatch, "n"
		}
		if !eqInts(ints(ev, "b"), g.B) {
			return stMismatch, "b"
		}
		if !inSet(g.Es, ev["e"]) {
			return stMismatch, "e"
		}
	case "Seek":
		if !inSet(g.Es, ev["e"]) {
			return stMismatch, "e"
		}
		if ev["e"] == "nil" && ev["r"] != g.R {
			return stMismatch, "r"
		}
	}
	if ev["x"] != g.X {
		return stMismatch, "x"
	}
	p, _ := ev["p"].(int)
	if p < g.Plo || p > g.Phi {
		return stMismatch, "p"
	}
	if p != g.P {
		return stDiverged, "p"
	}
	return stOK, ""
}

type result struct {
	m      *machine
	status int
	shape  string // abstract shape of the first difference (only used to bound the number of kept traces)
	sample bool
}

func fitClass(need, avail int) string {
	switch {
	case need == 0:
		return "zero"
	case need < avail:
		return "fit"
	case need == avail:
		return "exact"
	}
	return "short"
}

func callOf(g gop, signed bool) call {
	switch g.Op {
	case "Fixed":
		return call{Op: fixedName("Read", g.W, signed), W: g.W}
	case "ReadBytes":
		return call{Op: "ReadBytes", N: g.N}
	case "Read":
		return call{Op: "Read", K: g.K}
	case "ReadAt":
		return call{Op: "ReadAt", K: g.K, Off: g.Off}
	case "Seek":
		return call{Op: "Seek", Off: g.Off, Wh: g.Wh}
	case "Write":
		return call{Op: fixedName("Write", g.W, signed), W: g.W, V: g.V}
	case "WriteBytes":
		return call{Op: "WriteBytes", B: g.B}
	}
	return call{Op: g.Op}
}

func iota1(n int) []byte {
	b := make([]byte, n)
	for i := range b {
		b[i] = byte(i + 1)
	}
	return b
}

func (r *result) note(status int, shape string) {
	if status > r.status {
		r.status = status
		r.shape = shape
	}
}

// runReader executes a reader scenario on one backend.
func runReader(e *env, sc *scenario, idx int, backend string, seed int64) *result {
	chunk := int((seed + int64(idx)) % 4)
	m, err := newMachine(e, "reader", backend, sc.Order, iota1(sc.Len), chunk)
	if err != nil {
		fatal(err.Error())
	}
	defer m.close()
	res := &result{m: m}
	if m.forwardOnly() && !sc.Fwd {
		return nil
	}
	pos := 0
	for i, g := range sc.Ops {
		signed := (seed+int64(idx)+int64(i))%2 == 1
		ev := m.step(callOf(g, signed))
		if res.status == stOK {
			st, field := compare(g, ev)
			if st != stOK {
				need := g.W
				if g.Op == "ReadBytes" {
					need = g.N
				} else if g.Op == "Read" || g.Op == "ReadAt" {
					need = g.K
				}
				avail := sc.Len - pos
				if g.Op == "ReadAt" {
					avail = sc.Len - g.Off
				}
				res.note(st, fmt.Sprintf("%s/%s/wh%d/%s/%s", m.fam, ev["ev"], g.Wh, fitClass(need, avail), field))
			}
		}
		if m.broken {
			break
		}
		lv := m.step(call{Op: "Len"})
		if res.status == stOK && lv["r"] != sc.Len-g.P {
			res.note(stMismatch, fmt.Sprintf("%s/Len/after-%s", m.fam, g.Op))
		}
		pos = g.P
	}
	if !m.broken {
		m.step(call{Op: "Pos"})
		m.step(call{Op: "Err"})
	}
	return res
}

// runWriter executes the typed writes of a writer scenario, then reads them back type for type on one backend.
func runWriter(e *env, sc *scenario, idx int, backend string, seed int64) *result {
	m, err := newMachine(e, "writer", "", sc.Order, nil, 0)
	if err != nil {
		fatal(err.Error())
	}
	defer m.close()
	res := &result{m: m}
	signed := func(i int) bool { return (seed+int64(idx)+int64(i))%2 == 0 }
	for i, g := range sc.Ops {
		ev := m.step(callOf(g, signed(i)))
		if ev["out"] != "ret" || ev["n"] != g.N || !eqInts(ints(ev, "tail"), g.B) {
			res.note(stMismatch, fmt.Sprintf("writer/%s/tail", ev["ev"]))
		}
		if m.broken {
			return res
		}
	}
	if ev := m.step(call{Op: "WBytes"}); !eqInts(ints(ev, "b"), sc.Bytes) {
		res.note(stMismatch, "writer/WBytes/b")
	}
	m.step(call{Op: "WLen"})
	m.step(call{Op: "Open", Backend: backend, Order: sc.Order, Chunk: int((seed + int64(idx)) % 4)})
	for i, g := range sc.Ops {
		var ev tr.E
		if g.Op == "Write" {
			ev = m.step(call{Op: fixedName("Read", g.W, signed(i)), W: g.W})
			switch {
			case ev["out"] != "ret":
				res.note(stMismatch, fmt.Sprintf("%s/roundtrip/%s/out", m.fam, ev["ev"]))
			case ev["xs"] != false:
				res.note(stMismatch, fmt.Sprintf("%s/roundtrip/%s/xs", m.fam, ev["ev"]))
			case !eqInts(ints(ev, "v"), g.V):
				res.note(stMismatch, fmt.Sprintf("%s/roundtrip/%s/v", m.fam, ev["ev"]))
			case ev["x"] != "nil":
				res.note(stMismatch, fmt.Sprintf("%s/roundtrip/%s/x", m.fam, ev["ev"]))
			}
		} else {
			ev = m.step(call{Op: "ReadBytes", N: g.K})
			if ev["out"] != "ret" || !eqInts(ints(ev, "b"), g.B) || ev["x"] != "nil" {
				res.note(stMismatch, fmt.Sprintf("%s/roundtrip/ReadBytes/%s", m.fam, fitClass(g.K, len(sc.Bytes)-(g.N-g.K))))
			}
		}
		if m.broken {
			return res
		}
	}
	if ev := m.step(call{Op: "Len"}); ev["r"] != 0 {
		res.note(stMismatch, m.fam+"/roundtrip/Len")
	}
	if ev := m.step(call{Op: "Err"}); ev["e"] != "nil" {
		res.note(stMismatch, m.fam+"/roundtrip/Err")
	}
	// one read that runs past the end
	w := []int{2, 3, 4, 8, 1}[idx%5]
	ev := m.step(call{Op: fixedName("Read", w, idx%2 == 0), W: w})
	if ev["out"] != "ret" || ev["x"] != "eof" {
		res.note(stMismatch, fmt.Sprintf("%s/past-end/%s", m.fam, ev["ev"]))
	}
	if !m.broken {
		m.step(call{Op: "Err"})
	}
	return res
}

// runBits: bits through BitmapWriter, its buffer through BitmapReader (kind bitw), or a raw buffer (kind bitr).
func runBits(e *env, sc *scenario) *result {
	var m *machine
	var err error
	if sc.Kind == "bitw" {
		m, err = newMachine(e, "bitw", "", "BE", nil, 0)
	} else {
		m, err = newMachine(e, "bitr", "", "BE", toBytes(sc.Bytes), 0)
	}
	if err != nil {
		fatal(err.Error())
	}
	res := &result{m: m}
	if sc.Kind == "bitw" {
		for _, b := range sc.Bits {
			if ev := m.step(call{Op: "BitWrite", Bit: b}); ev["out"] != "ret" {
				res.note(stMismatch, "bitmap/BitWrite/out")
				return res
			}
		}
		m.step(call{Op: "BitWLen"})
		m.step(call{Op: "BitOpen"})
	}
	total := 8 * len(m.data)
	if sc.Kind == "bitw" && m.br == nil {
		return res
	}
	for k := 0; k < total+2; k++ {
		ev := m.step(call{Op: "BitRead"})
		if m.broken {
			res.note(stMismatch, "bitmap/BitRead/out")
			return res
		}
		if k < total {
			if ev["eof"] != false {
				res.note(stMismatch, "bitmap/BitRead/early-eof")
			} else if k < len(sc.Bits) && ev["bit"] != sc.Bits[k] {
				res.note(stMismatch, "bitmap/BitRead/bit")
			}
		} else if ev["eof"] != true {
			res.note(stMismatch, "bitmap/BitRead/no-eof")
		}
	}
	m.step(call{Op: "BitPos"})
	m.step(call{Op: "BitEOF"})
	return res
}

// Replay runs every TLC scenario on every backend; it writes the traces that differ from the canonical
// expectation (a bounded number per shape of difference) plus every sample-th execution, for Binary.tla to judge.
func Replay(args []string) {
	fs := flag.NewFlagSet("binary replay", flag.ExitOnError)
	cases := fs.String("cases", "", "ndjson emitted by TLC from BinaryGen")
	out := fs.String("out", "", "trace file")
	tmp := fs.String("tmp", "", "scratch directory for the file-backed sources")
	sample := fs.Int("sample", 1999, "also keep the trace of every n-th execution")
	perShape := fs.Int("pershape", 3, "differing traces kept per shape of difference")
	seed := fs.Int64("seed", 1, "seed (signedness of the typed calls, chunking of the plain readers)")
	fs.Parse(args)
	e, err := newEnv(*tmp)
	if err != nil {
		fatal(err.Error())
	}
	defer e.cleanup()
	w := tr.NewWriter(*out)
	sum := summary{Suite: "binary", Mode: "replay", PerBackend: map[string]int{}, Shapes: map[string]int{}}
	kept := map[string]int{}
	tid := 0
	const batch = 8192
	type caseRes struct {
		sc  scenario
		res []*result
	}
	workers := runtime.NumCPU()
	base := 0 // index of the first case of the current batch
	process := func(raws [][]byte) {
		lo, hi := base, base+len(raws)
		outs := make([]caseRes, hi-lo)
		var wg sync.WaitGroup
		next := make(chan int, hi-lo)
		for i := lo; i < hi; i++ {
			next <- i
		}
		close(next)
		for k := 0; k < workers; k++ {
			wg.Add(1)
			go func() {
				defer wg.Done()
				for i := range next {
					cr := &outs[i-lo]
					if err := json.Unmarshal(raws[i-lo], &cr.sc); err != nil {
						fatal("bad case: " + err.Error())
					}
					sc := &cr.sc
					switch sc.Kind {
					case "reader", "writer":
						for bi, b := range Backends {
							if b == "mmap" && !haveMmap {
								continue
							}
							var r *result
							if sc.Kind == "reader" {
								r = runReader(e, sc, i, b, *seed)
							} else {
								r = runWriter(e, sc, i, b, *seed)
							}
							if r != nil {
								r.sample = (i*len(Backends)+bi)%*sample == 0
								if r.status == stOK && !r.sample {
									r.m.evs = nil // not going to be written
								}
								cr.res = append(cr.res, r)
							}
						}
					default:
						r := runBits(e, sc)
						r.sample = i%7 == 0
						cr.res = append(cr.res, r)
					}
				}
			}()
		}
		wg.Wait()
		for i := range outs {
			cr := &outs[i]
			sum.Cases++
			nt := false
			for _, g := range cr.sc.Ops {
				if g.P > 0 || g.X == "eof" || g.Op == "Write" || g.Op == "WriteBytes" {
					nt = true
				}
			}
			if nt || len(cr.sc.Bits) > 0 {
				sum.Nontrivial++
			}
			for _, r := range cr.res {
				sum.Executions++
				b := r.m.backend
				if b == "" {
					b = r.m.kind
				}
				sum.PerBackend[b]++
				keep := r.sample
				switch r.status {
				case stMismatch:
					sum.Mismatches++
				case stDiverged:
					sum.Diverged++
				}
				if r.status != stOK {
					sum.Shapes[r.shape]++
					if kept[r.shape] < *perShape {
						kept[r.shape]++
						keep = true
						if len(sum.Drift) < 8 && kept[r.shape] == 1 {
							sum.Drift = append(sum.Drift, map[string]interface{}{"shape": r.shape, "events": r.m.evs})
						}
					} else if !keep {
						sum.Dropped++
					}
				} else if keep && len(sum.Samples) < 3 && cr.sc.Kind != "bitw" {
					sum.Samples = append(sum.Samples, map[string]interface{}{"backend": b, "events": r.m.evs})
				}
				if keep {
					tid++
					r.m.flush(w, tid)
				}
			}
		}
		base = hi
	}
	var raws [][]byte
	if err := tr.ReadCases(*cases, func(line int, raw []byte) {
		raws = append(raws, append([]byte{}, raw...))
		if len(raws) == batch {
			process(raws)
			raws = raws[:0]
		}
	}); err != nil {
		fatal("replay: " + err.Error())
	}
	if len(raws) > 0 {
		process(raws)
	}
	w.Close()
	sum.Traces, sum.Events = w.Traces, w.Events
	e.cleanup()
	json.NewEncoder(os.Stdout).Encode(sum)
}

func randData(rng *rand.Rand) []byte {
	n := rng.Intn(13)
	if rng.Intn(8) == 0 {
		n = rng.Intn(41)
	}
	b := make([]byte, n)
	for i := range b {
		switch rng.Intn(5) {
		case 0:
			b[i] = 0
		case 1:
			b[i] = 0xFF
		case 2:
			b[i] = 0x80
		default:
			b[i] = byte(rng.Intn(256))
		}
	}
	return b
}

var widths = []int{1, 2, 3, 4, 8}

func randInts(rng *rand.Rand, n int) []int {
	v := make([]int, n)
	for i := range v {
		switch rng.Intn(4) {
		case 0:
			v[i] = 0xFF
		case 1:
			v[i] = []int{0, 0x80, 0x7F, 1}[rng.Intn(4)]
		default:
			v[i] = rng.Intn(256)
		}
	}
	return v
}

// near picks an integer around the interesting boundaries 0 and hi.
func near(rng *rand.Rand, hi int) int {
	switch rng.Intn(4) {
	case 0:
		return hi + rng.Intn(4) - 2
	case 1:
		return rng.Intn(3) - 1
	}
	if hi <= 0 {
		return 0
	}
	return rng.Intn(hi + 1)
}

func recordReader(e *env, rng *rand.Rand, steps int) *machine {
	backend := Backends[rng.Intn(len(Backends))]
	if backend == "mmap" && !haveMmap {
		backend = "mem"
	}
	data := randData(rng)
	N := len(data)
	m, err := newMachine(e, "reader", backend, []string{"BE", "LE"}[rng.Intn(2)], data, rng.Intn(4))
	if err != nil {
		fatal(err.Error())
	}
	steps = 4 + rng.Intn(steps) // a history ends at the first rejected event: many short ones see more than few long ones
	for s := 0; s < steps && !m.broken; s++ {
		pos := int(m.r.Pos())
		rem := N - pos
		if rem < 0 {
			rem = 0
		}
		var c call
		switch rng.Intn(12) {
		case 0, 1, 2, 3:
			w := widths[rng.Intn(5)]
			c = call{Op: fixedName("Read", w, rng.Intn(2) == 0), W: w}
		case 4:
			c = call{Op: "ReadByte"}
		case 5:
			c = call{Op: "ReadBytes", N: []int{0, 1, 2, rng.Intn(5), rem, rem + 1}[rng.Intn(6)]}
		case 6:
			c = call{Op: "Read", K: []int{0, 1, 3, rem, rem + 1, rem + 3}[rng.Intn(6)]}
		case 7:
			c = call{Op: "ReadAt", K: []int{0, 1, 2, 4, N + 1}[rng.Intn(5)], Off: near(rng, N)}
			if m.forwardOnly() {
				continue // the plain reader cannot serve ReadAt without losing its place
			}
		case 8, 9:
			wh := rng.Intn(3)
			t := near(rng, N)
			if m.forwardOnly() && t >= 0 && t <= N {
				t = pos // a plain reader is only asked to stay where it is (or is given an invalid target)
			}
			c = call{Op: "Seek", Wh: wh, Off: t - []int{0, pos, N}[wh]}
		case 10:
			c = call{Op: []string{"Pos", "Len", "Err"}[rng.Intn(3)]}
		case 11:
			c = call{Op: "Len"}
		}
		m.step(c)
	}
	if !m.broken {
		m.step(call{Op: "Pos"})
		m.step(call{Op: "Len"})
		m.step(call{Op: "Err"})
	}
	m.close()
	return m
}

func recordRoundTrip(e *env, rng *rand.Rand) *machine {
	order := []string{"BE", "LE"}[rng.Intn(2)]
	var prefix []byte
	if rng.Intn(4) == 0 {
		prefix = randData(rng)
		if len(prefix) > 4 {
			prefix = prefix[:4]
		}
	}
	m, err := newMachine(e, "writer", "", order, prefix, 0)
	if err != nil {
		fatal(err.Error())
	}
	type wr struct {
		w      int
		signed bool
		n      int
	}
	var ws []wr
	nw := rng.Intn(9)
	for i := 0; i < nw && !m.broken; i++ {
		if rng.Intn(5) == 0 {
			b := randInts(rng, rng.Intn(6))
			m.step(call{Op: "WriteBytes", B: b})
			ws = append(ws, wr{n: len(b)})
		} else {
			w := widths[rng.Intn(5)]
			sg := rng.Intn(2) == 0
			m.step(call{Op: fixedName("Write", w, sg), W: w, V: randInts(rng, w)})
			ws = append(ws, wr{w: w, signed: sg})
		}
		if rng.Intn(6) == 0 {
			m.step(call{Op: "WLen"})
		}
	}
	if m.broken {
		return m
	}
	m.step(call{Op: "WBytes"})
	backend := Backends[rng.Intn(len(Backends))]
	if backend == "mmap" && !haveMmap {
		backend = "mem"
	}
	ro := order
	if rng.Intn(8) == 0 {
		ro = []string{"BE", "LE"}[rng.Intn(2)]
	}
	m.step(call{Op: "Open", Backend: backend, Order: ro, Chunk: rng.Intn(4)})
	if len(prefix) > 0 {
		m.step(call{Op: "ReadBytes", N: len(prefix)})
	}
	for _, x := range ws {
		if m.broken {
			break
		}
		if x.w == 0 {
			m.step(call{Op: "ReadBytes", N: x.n})
		} else {
			m.step(call{Op: fixedName("Read", x.w, x.signed), W: x.w})
		}
	}
	if !m.broken {
		m.step(call{Op: "Len"})
		m.step(call{Op: "Err"})
		w := widths[rng.Intn(5)]
		m.step(call{Op: fixedName("Read", w, rng.Intn(2) == 0), W: w})
	}
	if !m.broken {
		m.step(call{Op: "Err"})
		m.step(call{Op: "Pos"})
	}
	m.close()
	return m
}

func recordBits(e *env, rng *rand.Rand) *machine {
	var m *machine
	var err error
	if rng.Intn(3) == 0 {
		d := randData(rng)
		if len(d) > 5 {
			d = d[:5]
		}
		m, err = newMachine(e, "bitr", "", "BE", d, 0)
	} else {
		m, err = newMachine(e, "bitw", "", "BE", nil, 0)
		if err == nil {
			nb := rng.Intn(41)
			for i := 0; i < nb && !m.broken; i++ {
				m.step(call{Op: "BitWrite", Bit: rng.Intn(2)})
			}
			if !m.broken {
				m.step(call{Op: "BitWLen"})
				m.step(call{Op: "BitOpen"})
			}
		}
	}
	if err != nil {
		fatal(err.Error())
	}
	if m.br == nil {
		return m
	}
	total := 8*len(m.data) + 1 + rng.Intn(3)
	for k := 0; k < total && !m.broken; k++ {
		m.step(call{Op: "BitRead"})
		if rng.Intn(10) == 0 {
			m.step(call{Op: []string{"BitPos", "BitEOF"}[rng.Intn(2)]})
		}
	}
	if !m.broken {
		m.step(call{Op: "BitPos"})
		m.step(call{Op: "BitEOF"})
	}
	return m
}

// Record drives seeded random histories: reader call sequences per backend, writer->reader round trips with
// random typed writes, and bitmaps. The harness only chooses arguments; all judging is done by the trace spec.
func Record(args []string) {
	fs := flag.NewFlagSet("binary record", flag.ExitOnError)
	out := fs.String("out", "", "trace file")
	tmp := fs.String("tmp", "", "scratch directory for the file-backed sources")
	n := fs.Int("n", 600, "number of traces")
	steps := fs.Int("steps", 30, "calls per reader history")
	seed := fs.Int64("seed", 1, "seed")
	fs.Parse(args)
	e, err := newEnv(*tmp)
	if err != nil {
		fatal(err.Error())
	}
	defer e.cleanup()
	rng := rand.New(rand.NewSource(*seed))
	w := tr.NewWriter(*out)
	sum := summary{Suite: "binary", Mode: "record", PerBackend: map[string]int{}}
	seen := map[string]bool{}
	for t := 1; t <= *n; t++ {
		var m *machine
		switch k := rng.Intn(10); {
		case k < 6:
			m = recordReader(e, rng, *steps)
		case k < 9:
			m = recordRoundTrip(e, rng)
		default:
			m = recordBits(e, rng)
		}
		sum.Executions++
		b := m.backend
		if b == "" {
			b = m.kind
		}
		sum.PerBackend[b]++
		if key := fmt.Sprint(m.evs[0]["kind"], b, m.evs[0]["data"], len(m.evs)); len(m.evs) > 3 && !seen[key] {
			seen[key] = true
			sum.Nontrivial++
		}
		if len(sum.Samples) < 2 && len(m.evs) > 4 {
			k := len(m.evs)
			if k > 8 {
				k = 8
			}
			sum.Samples = append(sum.Samples, map[string]interface{}{"backend": b, "events": m.evs[:k]})
		}
		m.flush(w, t)
	}
	w.Close()
	sum.Traces, sum.Events = w.Traces, w.Events
	e.cleanup()
	json.NewEncoder(os.Stdout).Encode(sum)
}

// Rerun re-executes the calls of one recorded trace (a JSON array of events) on the current code and records a
// fresh trace: the reproduction step before a rejected trace is reported, and the --replay entry point.
func Rerun(args []string) {
	fs := flag.NewFlagSet("binary rerun", flag.ExitOnError)
	in := fs.String("trace", "", "JSON array of events")
	out := fs.String("out", "", "trace file")
	tmp := fs.String("tmp", "", "scratch directory for the file-backed sources")
	fs.Parse(args)
	raw, err := os.ReadFile(*in)
	if err != nil {
		fatal(err.Error())
	}
	var evs []map[string]interface{}
	if err := json.Unmarshal(raw, &evs); err != nil || len(evs) == 0 {
		fatal(fmt.Sprint("bad trace ", err))
	}
	e, err := newEnv(*tmp)
	if err != nil {
		fatal(err.Error())
	}
	defer e.cleanup()
	num := func(e map[string]interface{}, k string) int {
		if v, ok := e[k].(float64); ok {
			return int(v)
		}
		return 0
	}
	str := func(e map[string]interface{}, k string) string {
		s, _ := e[k].(string)
		return s
	}
	arr := func(e map[string]interface{}, k string) []int {
		var r []int
		if a, ok := e[k].([]interface{}); ok {
			for _, v := range a {
				f, _ := v.(float64)
				r = append(r, int(f))
			}
		}
		return r
	}
	n0 := evs[0]
	m, err := newMachine(e, str(n0, "kind"), str(n0, "backend"), str(n0, "order"), toBytes(arr(n0, "data")), num(n0, "chunk"))
	if err != nil {
		e.cleanup()
		fatal(err.Error())
	}
	for _, x := range evs[1:] {
		m.step(call{Op: str(x, "ev"), W: num(x, "w"), N: num(x, "n"), K: num(x, "k"), Off: num(x, "off"), Wh: num(x, "wh"),
			V: arr(x, "v"), B: arr(x, "b"), Bit: num(x, "bit"), Backend: str(x, "backend"), Order: str(x, "order"), Chunk: num(x, "chunk")})
		if m.broken {
			break
		}
	}
	m.close()
	w := tr.NewWriter(*out)
	m.flush(w, 1)
	w.Close()
	e.cleanup()
	json.NewEncoder(os.Stdout).Encode(summary{Suite: "binary", Mode: "rerun", Executions: 1, Traces: 1, Events: w.Events})
}

func init() {
	reg.Register("binary", "replay", Replay)
	reg.Register("binary", "record", Record)
	reg.Register("binary", "rerun", Rerun)
}
