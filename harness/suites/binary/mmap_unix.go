//go:build unix

package binary

import "github.com/tdewolff/parse/v2"

func openMmap(path string) (*parse.BinaryReader, error) { return parse.NewBinaryReaderMmapPath(path) }

const haveMmap = true
