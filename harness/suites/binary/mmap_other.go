//go:build !unix

package binary

import (
	"errors"

	"github.com/tdewolff/parse/v2"
)

func openMmap(path string) (*parse.BinaryReader, error) {
	return nil, errors.New("no mmap backend on this platform")
}

const haveMmap = false
