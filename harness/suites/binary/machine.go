// Package binary drives parse.BinaryReader / BinaryWriter / BitmapWriter / BitmapReader (property C19) on every
// backend the library offers. It replays the scenarios TLC enumerates from spec/binary/BinaryGen.tla, records
// seeded random histories and writer->reader round trips, and re-executes recorded traces. Every public call is
// one trace event carrying its observed result; spec/binary/BinaryTrace.tla (the property-level spec) judges.
package binary

import (
	"bytes"
	"crypto/sha1"
	"encoding/binary"
	"encoding/hex"
	"fmt"
	"io"
	"os"
	"path/filepath"
	"strings"
	"sync"

	"github.com/tdewolff/parse/v2"

	"verif/harness/internal/tr"
)

// Backends are the ways a BinaryReader can be given its data.
var Backends = []string{"mem", "bytesrd", "reader", "readereof", "readall", "seeker", "seekerneg", "readerat", "readerateof", "file", "mmap"}

// chunkReader is a plain io.Reader (no Seek, no ReadAt, no Bytes) delivering at most chunk bytes per call.
// eofWith: it reports io.EOF together with the last bytes, as io.Reader explicitly allows.
type chunkReader struct {
	data    []byte
	chunk   int
	eofWith bool
}

func (r *chunkReader) Read(p []byte) (int, error) {
	if len(r.data) == 0 {
		return 0, io.EOF
	}
	n := r.chunk
	if n <= 0 || n > len(r.data) {
		n = len(r.data)
	}
	if n > len(p) {
		n = len(p)
	}
	copy(p, r.data[:n])
	r.data = r.data[n:]
	if r.eofWith && len(r.data) == 0 && n > 0 {
		return n, io.EOF
	}
	return n, nil
}

// onlyReadSeeker hides everything but Read and Seek.
type onlyReadSeeker struct{ r *bytes.Reader }

func (o onlyReadSeeker) Read(p []byte) (int, error)            { return o.r.Read(p) }
func (o onlyReadSeeker) Seek(off int64, wh int) (int64, error) { return o.r.Seek(off, wh) }

// onlyReaderAt hides everything but Read and ReadAt.
type onlyReaderAt struct{ r *bytes.Reader }

func (o onlyReaderAt) Read(p []byte) (int, error)              { return o.r.Read(p) }
func (o onlyReaderAt) ReadAt(p []byte, off int64) (int, error) { return o.r.ReadAt(p, off) }

// eagerEOFReaderAt is a ReaderAt that reports io.EOF together with the bytes when a read ends exactly at the end of the data
// (io.ReaderAt: "ReadAt may return either err == EOF or err == nil" in that case); bytes.Reader and os.File never do.
type eagerEOFReaderAt struct{ d []byte }

func (o eagerEOFReaderAt) Read(p []byte) (int, error) { return 0, io.EOF } // never used: the ReaderAt path is taken
func (o eagerEOFReaderAt) ReadAt(p []byte, off int64) (int, error) {
	if off < 0 {
		return 0, fmt.Errorf("negative offset")
	}
	if off >= int64(len(o.d)) {
		return 0, io.EOF
	}
	n := copy(p, o.d[off:])
	if int(off)+n == len(o.d) {
		return n, io.EOF
	}
	return n, nil
}

// env holds the scratch directory for the file-backed sources.
type env struct {
	dir   string
	mu    sync.Mutex
	files map[string]string
}

func newEnv(tmp string) (*env, error) {
	if tmp == "" {
		return nil, fmt.Errorf("-tmp <dir> is required (scratch directory for the file and mmap backends)")
	}
	if err := os.MkdirAll(tmp, 0o755); err != nil {
		return nil, err
	}
	d, err := os.MkdirTemp(tmp, "c19-files-")
	if err != nil {
		return nil, err
	}
	activeEnv = &env{dir: d, files: map[string]string{}}
	return activeEnv, nil
}

var activeEnv *env

func (e *env) cleanup() { os.RemoveAll(e.dir) }

func (e *env) fileFor(data []byte) (string, error) {
	h := sha1.Sum(data)
	key := hex.EncodeToString(h[:10])
	e.mu.Lock()
	defer e.mu.Unlock()
	if p, ok := e.files[key]; ok {
		return p, nil
	}
	p := filepath.Join(e.dir, key+".dat")
	if err := os.WriteFile(p, data, 0o600); err != nil {
		return "", err
	}
	e.files[key] = p
	return p, nil
}

// call is one public call: the event name plus its arguments.
type call struct {
	Op      string
	W       int   // width of a fixed read / write
	N       int   // ReadBytes(n)
	K       int   // len(p) of Read / ReadAt
	Off     int   // ReadAt / Seek offset
	Wh      int   // Seek whence
	V       []int // value to write: its W bytes, most significant first
	B       []int // bytes to write
	Bit     int
	Backend string // Open
	Order   string // Open
	Chunk   int    // Open
}

// machine is one object under test plus the events recorded so far.
type machine struct {
	env     *env
	kind    string
	r       *parse.BinaryReader
	w       *parse.BinaryWriter
	bw      *parse.BitmapWriter
	br      *parse.BitmapReader
	backend string
	fam     string
	data    []byte
	evs     []tr.E
	closers []func()
	broken  bool // a call panicked
}

// fatal: the harness itself cannot go on (never a verdict)
func fatal(msg string) {
	if activeEnv != nil {
		activeEnv.cleanup()
	}
	fmt.Fprintln(os.Stderr, "binary harness:", msg)
	os.Exit(2)
}

func orderOf(o string) binary.ByteOrder {
	if o == "LE" {
		return binary.LittleEndian
	}
	return binary.BigEndian
}

func errName(err error) string {
	switch {
	case err == nil:
		return "nil"
	case err == io.EOF:
		return "eof"
	}
	return "other"
}

// openReader builds a BinaryReader over a private copy of data on the named backend.
func (m *machine) openReader(backend, order string, data []byte, chunk int) error {
	d := append([]byte{}, data...)
	n := int64(len(d))
	var r *parse.BinaryReader
	var err error
	switch backend {
	case "mem":
		r = parse.NewBinaryReaderBytes(d)
	case "bytesrd":
		r, err = parse.NewBinaryReaderReader(bytes.NewBuffer(d), n)
	case "reader":
		r, err = parse.NewBinaryReaderReader(&chunkReader{data: d, chunk: chunk}, n)
	case "readereof":
		r, err = parse.NewBinaryReaderReader(&chunkReader{data: d, chunk: chunk, eofWith: true}, n)
	case "readall":
		r, err = parse.NewBinaryReaderReader(&chunkReader{data: d, chunk: chunk}, -1)
	case "seeker":
		r, err = parse.NewBinaryReaderReader(onlyReadSeeker{bytes.NewReader(d)}, n)
	case "seekerneg":
		r, err = parse.NewBinaryReaderReader(onlyReadSeeker{bytes.NewReader(d)}, -1)
	case "readerat":
		r, err = parse.NewBinaryReaderReader(onlyReaderAt{bytes.NewReader(d)}, n)
	case "readerateof":
		r, err = parse.NewBinaryReaderReader(eagerEOFReaderAt{d}, n)
	case "file":
		var p string
		if p, err = m.env.fileFor(d); err == nil {
			r, err = parse.NewBinaryReaderPath(p)
		}
	case "mmap":
		var p string
		if p, err = m.env.fileFor(d); err == nil {
			r, err = openMmap(p)
		}
	default:
		err = fmt.Errorf("unknown backend %q", backend)
	}
	if err != nil {
		return err
	}
	if backend == "file" || backend == "mmap" {
		f := r.IBinaryReader()
		m.closers = append(m.closers, func() { f.Close() })
	}
	r.ByteOrder = orderOf(order)
	m.r, m.backend, m.data = r, backend, d
	// which IBinaryReader implementation the constructor selected (observed, not assumed)
	m.fam = strings.ToLower(strings.TrimPrefix(fmt.Sprintf("%T", r.IBinaryReader()), "*parse.binaryReader"))
	return nil
}

// forwardOnly: the selected source cannot serve bytes at another offset than the current one.
func (m *machine) forwardOnly() bool { return m.fam == "reader" }

func newMachine(e *env, kind, backend, order string, data []byte, chunk int) (*machine, error) {
	m := &machine{env: e, kind: kind}
	ev := tr.E{"kind": kind, "order": order, "data": tr.Ints(data), "backend": "", "fam": "", "chunk": chunk}
	switch kind {
	case "reader":
		if err := m.openReader(backend, order, data, chunk); err != nil {
			return nil, err
		}
		ev["backend"], ev["fam"] = backend, m.fam
	case "writer":
		w := parse.NewBinaryWriter(append([]byte{}, data...))
		if order == "LE" {
			w.ByteOrder = binary.LittleEndian
		}
		m.w = w
	case "bitw":
		m.bw = parse.NewBitmapWriter(nil)
	case "bitr":
		m.br = parse.NewBitmapReader(append([]byte{}, data...))
	default:
		return nil, fmt.Errorf("unknown kind %q", kind)
	}
	ev["ev"] = "New"
	m.evs = append(m.evs, ev)
	return m, nil
}

func (m *machine) close() {
	for _, c := range m.closers {
		c()
	}
	m.closers = nil
}

// ---- integers as byte sequences (most significant first); values never reach TLC as numbers ----

func ubytes(v uint64, w int) ([]int, bool) {
	b := make([]int, w)
	for i := 0; i < w; i++ {
		b[w-1-i] = int(byte(v >> (8 * uint(i))))
	}
	return b, w < 8 && v>>(8*uint(w)) != 0
}

func sbytes(v int64, w int) ([]int, bool) {
	b, _ := ubytes(uint64(v), w)
	if w == 8 {
		return b, false
	}
	lim := int64(1) << (8*uint(w) - 1)
	return b, v < -lim || v >= lim
}

func fromBytes(v []int) uint64 {
	var u uint64
	for _, c := range v {
		u = u<<8 | uint64(byte(c))
	}
	return u
}

// the signed value whose w-byte two's complement representation is v
func signedFrom(v []int) int64 {
	u := fromBytes(v)
	w := len(v)
	if w < 8 && w > 0 && u>>(8*uint(w)-1) != 0 {
		u |= ^uint64(0) << (8 * uint(w))
	}
	return int64(u)
}

func toBytes(v []int) []byte {
	b := make([]byte, len(v))
	for i, c := range v {
		b[i] = byte(c)
	}
	return b
}

func tail(b []byte, n int) []int {
	if n > len(b) {
		n = len(b)
	}
	return tr.Ints(b[len(b)-n:])
}

var fixedWidth = map[string]int{"ReadUint8": 1, "ReadUint16": 2, "ReadUint24": 3, "ReadUint32": 4, "ReadUint64": 8,
	"ReadInt8": 1, "ReadInt16": 2, "ReadInt24": 3, "ReadInt32": 4, "ReadInt64": 8,
	"WriteUint8": 1, "WriteUint16": 2, "WriteUint24": 3, "WriteUint32": 4, "WriteUint64": 8,
	"WriteInt8": 1, "WriteInt16": 2, "WriteInt24": 3, "WriteInt32": 4, "WriteInt64": 8}

// FixedName gives the method name for a w-byte read or write.
func fixedName(prefix string, w int, signed bool) string {
	s := "Uint"
	if signed {
		s = "Int"
	}
	return fmt.Sprintf("%s%s%d", prefix, s, 8*w)
}

// step performs one call on the real object and records its event (always with every field the trace spec reads).
func (m *machine) step(c call) (ev tr.E) {
	ev = tr.E{"ev": c.Op, "out": "ret"}
	if c.V == nil {
		c.V = []int{} // never a JSON null
	}
	if c.B == nil {
		c.B = []int{}
	}
	defer func() {
		if p := recover(); p != nil {
			ev["out"] = "panic"
			ev["panic"] = fmt.Sprint(p)
			m.broken = true
		}
		if m.r != nil && m.kind == "reader" {
			if _, ok := ev["p"]; !ok {
				ev["p"] = int(m.r.Pos())
				ev["x"] = errName(m.r.Err())
			}
		}
		m.evs = append(m.evs, ev)
	}()
	after := func() {
		ev["p"] = int(m.r.Pos())
		ev["x"] = errName(m.r.Err())
	}
	if w, ok := fixedWidth[c.Op]; ok && strings.HasPrefix(c.Op, "Read") {
		ev["w"] = w
		ev["v"], ev["xs"] = []int{}, false
		r := m.r
		var v []int
		var xs bool
		switch c.Op {
		case "ReadUint8":
			v, xs = ubytes(uint64(r.ReadUint8()), w)
		case "ReadUint16":
			v, xs = ubytes(uint64(r.ReadUint16()), w)
		case "ReadUint24":
			v, xs = ubytes(uint64(r.ReadUint24()), w)
		case "ReadUint32":
			v, xs = ubytes(uint64(r.ReadUint32()), w)
		case "ReadUint64":
			v, xs = ubytes(r.ReadUint64(), w)
		case "ReadInt8":
			v, xs = sbytes(int64(r.ReadInt8()), w)
		case "ReadInt16":
			v, xs = sbytes(int64(r.ReadInt16()), w)
		case "ReadInt24":
			v, xs = sbytes(int64(r.ReadInt24()), w)
		case "ReadInt32":
			v, xs = sbytes(int64(r.ReadInt32()), w)
		case "ReadInt64":
			v, xs = sbytes(r.ReadInt64(), w)
		}
		ev["v"], ev["xs"] = v, xs
		after()
		return ev
	}
	if w, ok := fixedWidth[c.Op]; ok { // Write*
		ev["w"], ev["v"] = w, c.V
		u, s := fromBytes(c.V), signedFrom(c.V)
		wr := m.w
		switch c.Op {
		case "WriteUint8":
			wr.WriteUint8(uint8(u))
		case "WriteUint16":
			wr.WriteUint16(uint16(u))
		case "WriteUint24":
			wr.WriteUint24(uint32(u))
		case "WriteUint32":
			wr.WriteUint32(uint32(u))
		case "WriteUint64":
			wr.WriteUint64(u)
		case "WriteInt8":
			wr.WriteInt8(int8(s))
		case "WriteInt16":
			wr.WriteInt16(int16(s))
		case "WriteInt24":
			wr.WriteInt24(int32(s))
		case "WriteInt32":
			wr.WriteInt32(int32(s))
		case "WriteInt64":
			wr.WriteInt64(s)
		}
		ev["n"], ev["tail"] = int(wr.Len()), tail(wr.Bytes(), w)
		return ev
	}
	switch c.Op {
	case "ReadByte":
		ev["v"], ev["e"] = []int{0}, "nil"
		b, err := m.r.ReadByte()
		ev["v"], ev["e"] = []int{int(b)}, errName(err)
		after()
	case "ReadBytes":
		ev["n"], ev["b"] = c.N, []int{}
		ev["b"] = tr.Ints(m.r.ReadBytes(int64(c.N)))
		after()
	case "Read":
		ev["k"], ev["n"], ev["b"], ev["e"] = c.K, 0, []int{}, "nil"
		buf := make([]byte, c.K)
		n, err := m.r.Read(buf)
		ev["n"], ev["e"] = n, errName(err)
		if n >= 0 && n <= len(buf) {
			ev["b"] = tr.Ints(buf[:n])
		}
		after()
	case "ReadAt":
		ev["k"], ev["off"], ev["n"], ev["b"], ev["e"] = c.K, c.Off, 0, []int{}, "nil"
		buf := make([]byte, c.K)
		n, err := m.r.ReadAt(buf, int64(c.Off))
		ev["n"], ev["e"] = n, errName(err)
		if n >= 0 && n <= len(buf) {
			ev["b"] = tr.Ints(buf[:n])
		}
		after()
	case "Seek":
		ev["off"], ev["wh"], ev["r"], ev["e"] = c.Off, c.Wh, 0, "nil"
		p, err := m.r.Seek(int64(c.Off), c.Wh)
		ev["r"], ev["e"] = int(p), errName(err)
		after()
	case "Pos":
		ev["r"] = int(m.r.Pos())
	case "Len":
		ev["r"] = int(m.r.Len())
	case "Err":
		ev["e"] = errName(m.r.Err())
	case "WriteBytes":
		ev["b"] = c.B
		m.w.WriteBytes(toBytes(c.B))
		ev["n"], ev["tail"] = int(m.w.Len()), tail(m.w.Bytes(), len(c.B))
	case "WBytes":
		ev["b"] = tr.Ints(m.w.Bytes())
	case "WLen":
		ev["r"] = int(m.w.Len())
	case "Open": // read back what the writer produced
		d := append([]byte{}, m.w.Bytes()...)
		ev["data"], ev["order"], ev["backend"], ev["chunk"], ev["fam"] = tr.Ints(d), c.Order, c.Backend, c.Chunk, ""
		if err := m.openReader(c.Backend, c.Order, d, c.Chunk); err != nil {
			fatal("open: " + err.Error())
		}
		ev["fam"] = m.fam
		m.kind = "reader"
		ev["p"], ev["x"] = 0, "nil" // not read by the trace spec for Open; keeps the deferred observer quiet
	case "BitWrite":
		ev["bit"], ev["buf"] = c.Bit, []int{}
		m.bw.Write(c.Bit != 0)
		ev["buf"] = tr.Ints(m.bw.Bytes())
	case "BitWLen":
		ev["r"] = int(m.bw.Len())
	case "BitOpen":
		d := append([]byte{}, m.bw.Bytes()...)
		ev["data"] = tr.Ints(d)
		m.br = parse.NewBitmapReader(d)
		m.data = d
		m.kind = "bitr"
	case "BitRead":
		ev["bit"], ev["p"], ev["eof"] = 0, 0, false
		b := m.br.Read()
		if b {
			ev["bit"] = 1
		}
		ev["p"], ev["eof"] = int(m.br.Pos()), m.br.EOF()
	case "BitPos":
		ev["r"] = int(m.br.Pos())
	case "BitEOF":
		ev["e"] = m.br.EOF()
	default:
		fatal("unknown op " + c.Op)
	}
	return ev
}

// flush writes the machine's events as trace number id.
func (m *machine) flush(w *tr.Writer, id int) {
	w.Begin(id)
	for _, e := range m.evs {
		name := e["ev"].(string)
		w.Ev(name, e)
	}
	w.End(true)
}
