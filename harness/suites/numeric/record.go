package numeric

import (
	"encoding/json"
	"flag"
	"fmt"
	"math"
	"math/rand"
	"os"
	std "strconv"
	"strings"

	"github.com/tdewolff/parse/v2/strconv"

	"verif/harness/internal/tr"
)

// ---------------------------------------------------------------- seeded random material

func randInt64(rng *rand.Rand) int64 {
	u := rng.Uint64() >> uint(rng.Intn(64)) // every magnitude
	switch rng.Intn(12) {
	case 0:
		return math.MaxInt64 - int64(rng.Intn(3))
	case 1:
		return math.MinInt64 + int64(rng.Intn(3))
	case 2: // around a power of ten
		p := int64(1)
		for k := rng.Intn(19); k > 0; k-- {
			p *= 10
		}
		u = uint64(p + int64(rng.Intn(3)) - 1)
	}
	v := int64(u)
	if rng.Intn(2) == 0 {
		v = -v
	}
	return v
}

func randFloat(rng *rand.Rand) float64 {
	switch k := rng.Intn(16); {
	case k < 5: // any bit pattern: exponents are uniform, so every magnitude from subnormal to 1e308, NaN and Inf included
		return math.Float64frombits(rng.Uint64())
	case k < 11: // human-scale numbers: a few digits times a small power of ten
		m := float64(rng.Int63n(1 << uint(1+rng.Intn(53))))
		f := m * math.Pow10(rng.Intn(30)-20)
		if rng.Intn(2) == 0 {
			f = -f
		}
		return f
	case k < 13: // subnormals
		f := math.Float64frombits(rng.Uint64() >> 12 >> uint(rng.Intn(52)))
		if rng.Intn(2) == 0 {
			f = -f
		}
		return f
	case k < 14: // around |f| = 1e-291 .. 1e-280 and the top of the range
		f := math.Float64frombits(rng.Uint64()&(1<<52-1) | uint64(40+rng.Intn(40))<<52)
		switch rng.Intn(3) {
		case 0:
			f = -f
		case 1:
			f = f * 1e300 * 1e290
		}
		return f
	default:
		sp := []float64{math.NaN(), math.Inf(1), math.Inf(-1), 0, math.Copysign(0, -1), math.MaxFloat64, -math.MaxFloat64,
			math.SmallestNonzeroFloat64, 2.2250738585072014e-308, 1, -1, 0.5, 9.5, 99.5, 1e15, 1e16, 1e17, 1e18, 9.223372036854775e18, 1e19, 1e21, 1e22, 1e23, 0.1, 0.3, -0.096}
		return sp[rng.Intn(len(sp))]
	}
}

const numAlphabet = "0123456789+-.eE"

// random text for the parsers
func randText(rng *rand.Rand) []byte {
	var sb strings.Builder
	switch k := rng.Intn(10); {
	case k < 2: // an integer near every magnitude, perhaps with a sign, leading zeros and a continuation
		if rng.Intn(3) == 0 {
			sb.WriteByte("+-"[rng.Intn(2)])
		}
		sb.WriteString(strings.Repeat("0", rng.Intn(3)))
		if rng.Intn(2) == 0 {
			sb.WriteString(std.FormatUint(rng.Uint64()>>uint(rng.Intn(64)), 10))
		} else {
			sb.WriteString(std.FormatInt(randInt64(rng), 10))
		}
	case k < 3: // 18..22 random digits
		for n := 18 + rng.Intn(5); n > 0; n-- {
			sb.WriteByte(byte('0' + rng.Intn(10)))
		}
	case k < 7: // a float64 written by the standard library in some format
		f := randFloat(rng)
		for math.IsNaN(f) || math.IsInf(f, 0) {
			f = randFloat(rng)
		}
		prec := rng.Intn(22) - 1
		sb.WriteString(std.FormatFloat(f, "efgEG"[rng.Intn(5)], prec, 64))
	case k < 8: // digits, a dot somewhere, an exponent that compensates a long run of zeros
		z := rng.Intn(340)
		mant := std.FormatUint(rng.Uint64()>>uint(rng.Intn(60)), 10)
		if rng.Intn(2) == 0 {
			sb.WriteString("0." + strings.Repeat("0", z) + mant)
			if rng.Intn(2) == 0 {
				sb.WriteString("e" + std.Itoa(z+rng.Intn(40)-20))
			}
		} else {
			sb.WriteString(mant + strings.Repeat("0", z))
			if rng.Intn(2) == 0 {
				sb.WriteString("e-" + std.Itoa(z+rng.Intn(40)-20))
			}
		}
	default: // soup over the numeric alphabet
		for n := rng.Intn(14); n > 0; n-- {
			sb.WriteByte(numAlphabet[rng.Intn(len(numAlphabet))])
		}
	}
	if rng.Intn(3) == 0 { // continuation
		sb.WriteByte(others[rng.Intn(len(others))])
		for n := rng.Intn(3); n > 0; n-- {
			sb.WriteByte(numAlphabet[rng.Intn(len(numAlphabet))])
		}
	}
	return []byte(sb.String())
}

func randSyms(rng *rand.Rand) (rune, rune) {
	return pickSyms(1+rng.Intn(4), 1+rng.Intn(4), rng)
}

// Record drives seeded random calls; one trace per call.
func Record(args []string) {
	fs := flag.NewFlagSet("numeric record", flag.ExitOnError)
	out := fs.String("out", "", "trace file")
	n := fs.Int("n", 2000, "number of calls")
	seed := fs.Int64("seed", 1, "seed")
	fs.Parse(args)
	rng := rand.New(rand.NewSource(*seed))
	sum := &summary{Suite: "numeric", Mode: "record", ByKind: map[string]int{}, ByCall: map[string]int{}}
	r := &runner{w: tr.NewWriter(*out), sum: sum, sample: 1, count: map[string]int{}, kept: map[string]int{}}
	seen := map[string]bool{}
	note := func(key string) {
		if !seen[key] {
			seen[key] = true
			sum.Nontrivial++
		}
	}
	for t := 0; t < *n; t++ {
		sp := spares[rng.Intn(len(spares))]
		switch k := rng.Intn(20); {
		case k < 2:
			b := randText(rng)
			ev := evParseInt(b)
			r.emit("ParseInt", ev, false, nil)
			if geti(ev, "n") > 0 {
				note("pi" + string(b))
			}
		case k < 4:
			b := randText(rng)
			ev := evParseUint(b)
			r.emit("ParseUint", ev, false, nil)
			if geti(ev, "n") > 0 {
				note("pu" + string(b))
			}
		case k < 8:
			b := randText(rng)
			ev, _ := evParseFloatLike(b, strconv.ParseFloat)
			r.emit("ParseFloat", ev, false, nil)
			if geti(ev, "n") > 0 {
				note("pf" + string(b))
			}
		case k < 10:
			b := randText(rng)
			ev, _ := evParseFloatLike(b, strconv.ParseDecimal)
			r.emit("ParseDecimal", ev, false, nil)
			if geti(ev, "n") > 0 {
				note("pd" + string(b))
			}
		case k < 12:
			v := randInt64(rng)
			r.emit("AppendInt", evAppendInt(v, sp), false, nil)
			note(fmt.Sprint("ai", v))
		case k < 15:
			f, p := randFloat(rng), rng.Intn(20)-1
			r.emit("AppendFloat", evAppendFloat(f, p, sp), false, nil)
			note(fmt.Sprint("af", math.Float64bits(f), p))
		case k < 18:
			f, p := randFloat(rng), rng.Intn(20)-1
			r.emit("AppendDecimal", evAppendDecimal(f, nil, p, sp), false, nil)
			note(fmt.Sprint("ad", math.Float64bits(f), p))
		default:
			v, dec, gs := randInt64(rng), rng.Intn(19), rng.Intn(7)
			gr, dr := randSyms(rng)
			r.emit("AppendNumber", evAppendNumber(v, dec, gs, gr, dr, sp), false, nil)
			note(fmt.Sprint("an", v, dec, gs, gr, dr))
		}
	}
	r.w.Close()
	sum.Traces, sum.Events = r.w.Traces, r.w.Events
	json.NewEncoder(os.Stdout).Encode(sum)
}

// Rerun re-executes the calls of one recorded trace (a JSON array of events) on the current code and records a
// fresh trace: the reproduction step before a rejected trace is reported, and the --replay entry point.
func Rerun(args []string) {
	fs := flag.NewFlagSet("numeric rerun", flag.ExitOnError)
	in := fs.String("trace", "", "JSON array of events")
	out := fs.String("out", "", "trace file")
	fs.Parse(args)
	raw, err := os.ReadFile(*in)
	if err != nil {
		fmt.Fprintln(os.Stderr, err)
		os.Exit(2)
	}
	// either one trace (an array of events) or several (an array of arrays); trace ids 1..k in input order
	var traces [][]map[string]interface{}
	if err := json.Unmarshal(raw, &traces); err != nil {
		var evs []map[string]interface{}
		if err := json.Unmarshal(raw, &evs); err != nil || len(evs) == 0 {
			fmt.Fprintln(os.Stderr, "bad trace", err)
			os.Exit(2)
		}
		traces = [][]map[string]interface{}{evs}
	}
	num := func(e map[string]interface{}, k string) int {
		if v, ok := e[k].(float64); ok {
			return int(v)
		}
		return 0
	}
	arr := func(e map[string]interface{}, k string) []int {
		a, _ := e[k].([]interface{})
		r := make([]int, 0, len(a))
		for _, v := range a {
			if x, ok := v.(float64); ok {
				r = append(r, int(x))
			}
		}
		return r
	}
	boolf := func(e map[string]interface{}, k string) bool {
		v, _ := e[k].(bool)
		return v
	}
	w := tr.NewWriter(*out)
	calls := 0
	for ti, evs := range traces {
		w.Begin(ti + 1)
		w.Ev("Begin", tr.E{})
		for _, e := range evs {
			calls++
			name, _ := e["ev"].(string)
			var ev tr.E
			switch name {
			case "Begin":
				continue
			case "ParseInt":
				ev = evParseInt(bytesOfInts(arr(e, "b")))
			case "ParseUint":
				ev = evParseUint(bytesOfInts(arr(e, "b")))
			case "ParseFloat":
				ev, _ = evParseFloatLike(bytesOfInts(arr(e, "b")), strconv.ParseFloat)
			case "ParseDecimal":
				ev, _ = evParseFloatLike(bytesOfInts(arr(e, "b")), strconv.ParseDecimal)
			case "AppendInt":
				v, ok := intOfDigits(boolf(e, "neg"), arr(e, "d"))
				if !ok {
					fmt.Fprintln(os.Stderr, "AppendInt argument does not fit int64")
					os.Exit(2)
				}
				ev = evAppendInt(v, num(e, "spare"))
			case "AppendFloat":
				ev = evAppendFloat(floatOfBits(arr(e, "bits")), num(e, "prec"), num(e, "spare"))
			case "AppendDecimal":
				var sh *shortDec
				if boolf(e, "short") {
					sh = &shortDec{Sd: arr(e, "sd"), Ss: num(e, "ss")}
				}
				ev = evAppendDecimal(floatOfBits(arr(e, "bits")), sh, num(e, "dec"), num(e, "spare"))
			case "AppendNumber":
				v, ok := intOfDigits(boolf(e, "neg"), arr(e, "d"))
				if !ok {
					fmt.Fprintln(os.Stderr, "AppendNumber argument does not fit int64")
					os.Exit(2)
				}
				ev = evAppendNumber(v, num(e, "dec"), num(e, "gs"), rune(num(e, "gr")), rune(num(e, "dr")), num(e, "spare"))
			default:
				fmt.Fprintln(os.Stderr, "unknown event", name)
				os.Exit(2)
			}
			w.Ev(name, ev)
		}
		w.End(true)
	}
	w.Close()
	json.NewEncoder(os.Stdout).Encode(summary{Suite: "numeric", Mode: "rerun", Executions: calls - len(traces), Traces: w.Traces, Events: w.Events})
}
