// Package numeric drives parse/strconv (property C14). It replays the cases that TLC enumerates from
// spec/strconv/NumericGen.tla (symbol strings, digit strings, symbol lengths -> concrete bytes, int64, float64,
// runes), compares what the code does with the expectation TLC emitted, and records seeded random calls; every
// execution that is kept is written as a trace that spec/strconv/NumericTrace.tla (the property-level spec) judges.
//
// The harness never decides the property. It projects machine values into what the specification can read:
// integers become digit strings, a float64 becomes (class, sign, first 17 significant decimal digits, decimal
// exponent), texts become arrays of byte values, the two AppendNumber symbols become the tokens 300 / 301.
package numeric

import (
	"bytes"
	"errors"
	"fmt"
	"math"
	std "strconv"
	"unicode/utf8"

	"github.com/tdewolff/parse/v2/strconv"

	"verif/harness/internal/tr"
)

// ---------------------------------------------------------------- projections

func digitsOfText(s string) []int {
	d := make([]int, 0, len(s))
	for i := 0; i < len(s); i++ {
		if '0' <= s[i] && s[i] <= '9' {
			d = append(d, int(s[i]-'0'))
		}
	}
	return d
}

func textOfDigits(d []int) string {
	b := make([]byte, len(d))
	for i, v := range d {
		b[i] = byte('0' + v)
	}
	if len(b) == 0 {
		return "0"
	}
	return string(b)
}

func projInt(r int64) (bool, []int) {
	if r < 0 {
		return true, digitsOfText(std.FormatUint(uint64(-r), 10)) // -MinInt64 wraps to 2^63 as uint64
	}
	return false, digitsOfText(std.FormatUint(uint64(r), 10))
}

func projUint(r uint64) []int { return digitsOfText(std.FormatUint(r, 10)) }

// int64 value of (neg, digits); ok=false if it does not fit.
func intOfDigits(neg bool, d []int) (int64, bool) {
	s := textOfDigits(d)
	if neg {
		s = "-" + s
	}
	v, err := std.ParseInt(s, 10, 64)
	return v, err == nil
}

type fproj struct {
	Cls string
	Neg bool
	M   []int
	E   int
}

// projFloat: class, sign, the 17 significant digits of the correctly rounded shortest-17 decimal, exponent of the first.
func projFloat(f float64) fproj {
	switch {
	case math.IsNaN(f):
		return fproj{Cls: "nan", M: []int{}}
	case math.IsInf(f, 0):
		return fproj{Cls: "inf", Neg: f < 0, M: []int{}}
	case f == 0:
		return fproj{Cls: "zero", Neg: math.Signbit(f), M: []int{}}
	}
	s := std.FormatFloat(math.Abs(f), 'e', 16, 64) // d.dddddddddddddddde±xx
	var mant string
	var e int
	for i := 0; i < len(s); i++ {
		if s[i] == 'e' {
			mant = s[:i]
			e, _ = std.Atoi(s[i+1:])
			break
		}
	}
	return fproj{Cls: "fin", Neg: f < 0, M: digitsOfText(mant), E: e}
}

func (p fproj) put(e tr.E, pre string) {
	e[pre+"cls"] = p.Cls
	e[pre+"neg"] = p.Neg
	e[pre+"m"] = p.M
	e[pre+"e"] = p.E
}

func bitsOf(f float64) []int {
	u := math.Float64bits(f)
	b := make([]int, 8)
	for i := 0; i < 8; i++ {
		b[i] = int(u >> (56 - 8*uint(i)) & 0xFF)
	}
	return b
}

func floatOfBits(b []int) float64 {
	var u uint64
	for i := 0; i < 8 && i < len(b); i++ {
		u = u<<8 | uint64(b[i]&0xFF)
	}
	return math.Float64frombits(u)
}

func ints(b []byte) []int { return tr.Ints(b) }

func bytesOfInts(v []int) []byte {
	b := make([]byte, len(v))
	for i, x := range v {
		b[i] = byte(x)
	}
	return b
}

// ---------------------------------------------------------------- destination slices

var prefixMark = []byte{0xA5, 'p', '7', '-', '.', 0x00, 'e'}

// dst returns a pre-filled destination with the given spare capacity (0 = tight).
func dst(spare int) []byte {
	b := make([]byte, len(prefixMark), len(prefixMark)+spare)
	copy(b, prefixMark)
	return b
}

// split checks that the prefix survived (in the result and in the original array) and returns the appended bytes.
func split(orig, res []byte) (appended []byte, kept bool) {
	kept = len(res) >= len(prefixMark) && bytes.Equal(res[:len(prefixMark)], prefixMark) &&
		bytes.Equal(orig[:len(prefixMark)], prefixMark)
	if len(res) >= len(prefixMark) {
		return res[len(prefixMark):], kept
	}
	return []byte{}, kept
}

// ---------------------------------------------------------------- one call = one event

// guard runs fn, turning a panic into out:"panic".
func guard(ev tr.E, fn func()) {
	defer func() {
		if r := recover(); r != nil {
			ev["out"] = "panic"
			ev["panic"] = fmt.Sprint(r)
		}
	}()
	fn()
}

func evParseInt(b []byte) tr.E {
	ev := tr.E{"b": ints(b), "n": -1, "neg": false, "d": []int{}}
	guard(ev, func() {
		r, n := strconv.ParseInt(b)
		ev["n"] = n
		ev["neg"], ev["d"] = projInt(r)
	})
	return ev
}

func evParseUint(b []byte) tr.E {
	ev := tr.E{"b": ints(b), "n": -1, "neg": false, "d": []int{}}
	guard(ev, func() {
		r, n := strconv.ParseUint(b)
		ev["n"] = n
		ev["d"] = projUint(r)
	})
	return ev
}

// refFloat: strconv.ParseFloat of the consumed prefix, logged as an observed fact (the statement's reference).
func refFloat(ev tr.E, b []byte, n int) {
	ev["rerr"] = "none"
	fproj{Cls: "zero", M: []int{}}.put(ev, "r")
	if n <= 0 || n > len(b) {
		return
	}
	r, err := std.ParseFloat(string(b[:n]), 64)
	switch {
	case err == nil:
		ev["rerr"] = "nil"
	case errors.Is(err, std.ErrRange):
		ev["rerr"] = "range"
	default:
		ev["rerr"] = "syntax"
		return
	}
	projFloat(r).put(ev, "r")
}

func evParseFloatLike(b []byte, fn func([]byte) (float64, int)) (tr.E, float64) {
	ev := tr.E{"b": ints(b), "n": -1}
	fproj{Cls: "nan", M: []int{}}.put(ev, "")
	refFloat(ev, b, 0)
	var f float64
	guard(ev, func() {
		var n int
		f, n = fn(b)
		ev["n"] = n
		projFloat(f).put(ev, "")
		refFloat(ev, b, n)
	})
	return ev, f
}

func evAppendInt(num int64, spare int) tr.E {
	neg, d := projInt(num)
	ev := tr.E{"neg": neg, "d": d, "spare": spare, "o": []int{}, "std": []int{}, "len": -1, "pk": false}
	guard(ev, func() {
		orig := dst(spare)
		res := strconv.AppendInt(orig, num)
		o, kept := split(orig, res)
		ev["o"], ev["pk"] = ints(o), kept
		ev["std"] = ints(std.AppendInt(nil, num, 10))
		ev["len"] = strconv.LenInt(num)
	})
	return ev
}

func evAppendFloat(f float64, prec, spare int) tr.E {
	ev := tr.E{"bits": bitsOf(f), "prec": prec, "spare": spare, "o": []int{}, "pk": false}
	projFloat(f).put(ev, "")
	guard(ev, func() {
		orig := dst(spare)
		res := strconv.AppendFloat(orig, f, prec)
		o, kept := split(orig, res)
		ev["o"], ev["pk"] = ints(o), kept
	})
	return ev
}

// short != nil: f is the float64 nearest to the short decimal (-1)^neg * sd * 10^-ss.
type shortDec struct {
	Sd []int
	Ss int
}

func evAppendDecimal(f float64, sh *shortDec, dec, spare int) tr.E {
	ev := tr.E{"bits": bitsOf(f), "dec": dec, "spare": spare, "o": []int{}, "pk": false, "short": sh != nil, "sd": []int{}, "ss": 0}
	if sh != nil {
		ev["sd"], ev["ss"] = sh.Sd, sh.Ss
	}
	projFloat(f).put(ev, "")
	guard(ev, func() {
		orig := dst(spare)
		res := strconv.AppendDecimal(orig, f, dec)
		o, kept := split(orig, res)
		ev["o"], ev["pk"] = ints(o), kept
	})
	return ev
}

const tokGroup, tokDec = 300, 301

// tokens of an AppendNumber output: the group / decimal symbol's encodings become 300 / 301, other bytes themselves.
func tokenise(o []byte, gr, dr rune) []int {
	g := []byte(string(gr))
	d := []byte(string(dr))
	t := make([]int, 0, len(o))
	for i := 0; i < len(o); {
		switch {
		case bytes.HasPrefix(o[i:], g):
			t = append(t, tokGroup)
			i += len(g)
		case bytes.HasPrefix(o[i:], d):
			t = append(t, tokDec)
			i += len(d)
		default:
			t = append(t, int(o[i]))
			i++
		}
	}
	return t
}

func evAppendNumber(num int64, dec, gs int, gr, dr rune, spare int) tr.E {
	neg, d := projInt(num)
	ev := tr.E{"neg": neg, "d": d, "dec": dec, "gs": gs, "gr": int(gr), "dr": int(dr), "gl": utf8.RuneLen(gr), "dl": utf8.RuneLen(dr),
		"spare": spare, "o": []int{}, "olen": -1, "pk": false, "pneg": false, "pd": []int{}, "pdec": -1, "pn": -1}
	guard(ev, func() {
		orig := dst(spare)
		res := strconv.AppendNumber(orig, num, dec, gs, gr, dr)
		o, kept := split(orig, res)
		ev["o"], ev["olen"], ev["pk"] = tokenise(o, gr, dr), len(o), kept
		pnum, pdec, pn := strconv.ParseNumber(append([]byte{}, o...), gr, dr)
		ev["pneg"], ev["pd"] = projInt(pnum)
		ev["pdec"], ev["pn"] = pdec, pn
	})
	return ev
}
