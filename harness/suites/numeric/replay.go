package numeric

import (
	"encoding/json"
	"flag"
	"fmt"
	"math"
	"math/rand"
	"os"
	std "strconv"

	"github.com/tdewolff/parse/v2/strconv"

	"verif/harness/internal/reg"
	"verif/harness/internal/tr"
)

// ---------------------------------------------------------------- cases emitted by NumericGen.tla

type intExp struct {
	N   int   `json:"n"`
	Neg bool  `json:"neg"`
	D   []int `json:"d"`
}

type fltExp struct {
	N    int   `json:"n"`
	Neg  bool  `json:"neg"`
	D    []int `json:"d"`
	E10  int   `json:"e10"`
	Free bool  `json:"free"`
}

type gcase struct {
	K string `json:"k"`
	// parse
	S    []int   `json:"s"`
	Int  *intExp `json:"int"`
	Uint *intExp `json:"uint"`
	Flt  *fltExp `json:"flt"`
	DecE *fltExp `json:"-"`
	// formatting
	Neg   bool  `json:"neg"`
	D     []int `json:"d"`
	Sd    []int `json:"sd"`
	Ss    int   `json:"ss"`
	O     []int `json:"o"`
	Gs    int   `json:"gs"`
	Gl    int   `json:"gl"`
	Dl    int   `json:"dl"`
	Bytes int   `json:"bytes"`
	Pneg  bool  `json:"pneg"`
	Pd    []int `json:"pd"`
	Pdec  int   `json:"pdec"`
	Pn    int   `json:"pn"`
	// "dec" is the ParseDecimal expectation in parse cases and the decimals argument in formatting cases
	DecRaw json.RawMessage `json:"dec"`
	Dec    int             `json:"-"`
}

func (c *gcase) fix() error {
	if c.K == "parse" {
		c.DecE = &fltExp{}
		return json.Unmarshal(c.DecRaw, c.DecE)
	}
	if len(c.DecRaw) > 0 {
		return json.Unmarshal(c.DecRaw, &c.Dec)
	}
	return nil
}

// ---------------------------------------------------------------- concretisation

// spellings of the generator's symbol 256 ("x": any byte that is not part of the numeric alphabet), including the
// immediate neighbours of the digits and letters that other float syntaxes use
var others = []byte{'a', ' ', 0x00, 0xFF, '/', ':', ',', '_', 'x', 'f', 'n', 'i', 'p', '\n', 0x80, 0xC3, '\'', 'd', 'F', '*'}

func concretise(s []int, rng *rand.Rand) []byte {
	b := make([]byte, len(s))
	for i, v := range s {
		if v >= 256 {
			b[i] = others[rng.Intn(len(others))]
		} else {
			b[i] = byte(v)
		}
	}
	return b
}

// runes usable as group / decimal symbols, by UTF-8 length (no digits, no minus)
var symPool = map[int][]rune{
	1: {'.', ',', ' ', '\'', '_', 'x', 0x7F, '+'},
	2: {0xE9, 0xB7, 0xA0, 0x7FF, 0x80},
	3: {0x20AC, 0x2009, 0x202F, 0x800, 0xFFFD},
	4: {0x1F600, 0x10000, 0x10FFFF},
}

func pickSyms(gl, dl int, rng *rand.Rand) (rune, rune) {
	g := symPool[gl][rng.Intn(len(symPool[gl]))]
	for {
		d := symPool[dl][rng.Intn(len(symPool[dl]))]
		if d != g {
			return g, d
		}
	}
}

var spares = []int{0, 1, 3, 64}

// float64 nearest to (-1)^neg * d * 10^e10 (strconv.ParseFloat: correctly rounded); ±Inf / 0 out of range
func floatOfDecimal(neg bool, d []int, e10 int) float64 {
	s := textOfDigits(d) + "e" + std.Itoa(e10)
	if neg {
		s = "-" + s
	}
	f, _ := std.ParseFloat(s, 64)
	return f
}

func sameInts(a, b []int) bool {
	if len(a) != len(b) {
		return false
	}
	for i := range a {
		if a[i] != b[i] {
			return false
		}
	}
	return true
}

func geti(e tr.E, k string) int {
	if v, ok := e[k].(int); ok {
		return v
	}
	return -999
}

func getis(e tr.E, k string) []int {
	v, _ := e[k].([]int)
	return v
}

// suspicious float result: differs from the value the specification gave by more than a few ulp. This only selects
// what is sent to the trace specification (which applies the statement's 1e-14); it is deliberately stricter.
func floatDiffers(got, want float64) bool {
	if got == want {
		return false
	}
	if math.IsNaN(got) || math.IsInf(got, 0) || math.IsInf(want, 0) || want == 0 {
		return true
	}
	return math.Abs(got-want) > 1e-15*math.Abs(want)
}

type summary struct {
	Suite      string         `json:"suite"`
	Mode       string         `json:"mode"`
	Cases      int            `json:"cases"`
	Executions int            `json:"executions"`
	Mismatches int            `json:"mismatches"` // code differs from the expectation TLC emitted (candidates: the trace spec decides)
	Traces     int            `json:"traces"`
	Events     int            `json:"events"`
	Nontrivial int            `json:"distinct_nontrivial"`
	Classes    int            `json:"mismatch_classes"`
	ByKind     map[string]int `json:"by_kind"`
	ByCall     map[string]int `json:"by_call"`
	Samples    []interface{}  `json:"samples"`
	Drift      []interface{}  `json:"drift_samples"`
}

type runner struct {
	w      *tr.Writer // sampled executions that agree with the generator's expectation
	wm     *tr.Writer // executions that differ from it (nil: everything goes to w)
	sum    *summary
	tid    int
	sample int
	cap    int // at most this many differing executions are kept per coarse class (all are counted)
	count  map[string]int
	kept   map[string]int
}

// coarse class of a differing execution, only used to bound how many look-alikes are handed to the trace spec
func classOf(name string, ev tr.E) string {
	k := name + "|" + fmt.Sprint(ev["out"], ev["neg"], ev["pk"])
	has := func(o []int, v int) bool {
		for _, x := range o {
			if x == v {
				return true
			}
		}
		return false
	}
	bucket := func(e int) int {
		switch {
		case e < -308:
			return -4
		case e < -290:
			return -3
		case e < -22:
			return -2
		case e < 0:
			return -1
		case e <= 22:
			return e / 3
		case e <= 290:
			return 10
		case e <= 308:
			return 11
		}
		return 12
	}
	switch name {
	case "ParseInt", "ParseUint":
		k += fmt.Sprint(geti(ev, "n") > 0, len(getis(ev, "b")) > 18)
	case "ParseFloat", "ParseDecimal":
		k += fmt.Sprint(ev["cls"], ev["rcls"], ev["rerr"], bucket(geti(ev, "e")), bucket(geti(ev, "re")), len(getis(ev, "b")) > 30)
	case "AppendInt":
		k += fmt.Sprint(len(getis(ev, "d")))
	case "AppendFloat":
		k += fmt.Sprint(ev["cls"], geti(ev, "prec"), bucket(geti(ev, "e")))
	case "AppendDecimal":
		o := getis(ev, "o")
		k += fmt.Sprint(ev["cls"], geti(ev, "dec"), geti(ev, "e"), has(o, '-'), has(o, '.'))
	case "AppendNumber":
		k += fmt.Sprint(geti(ev, "gl"), geti(ev, "dl") > 1, geti(ev, "gs"), geti(ev, "dec") > 0, has(getis(ev, "o"), 0))
	}
	return k
}

// emit writes one call as a trace of its own (Begin + call) if it is a mismatch or falls on the sampling grid.
func (r *runner) emit(name string, ev tr.E, mism bool, ctx interface{}) {
	r.sum.Executions++
	r.sum.ByCall[name]++
	r.count[name]++
	if ev["out"] == "panic" {
		mism = true
	}
	if mism {
		r.sum.Mismatches++
		if len(r.sum.Drift) < 12 {
			r.sum.Drift = append(r.sum.Drift, map[string]interface{}{"call": name, "case": ctx, "observed": ev})
		}
	}
	keep := mism || r.sample <= 1 || r.count[name]%r.sample == 0
	w := r.w
	if mism && r.wm != nil {
		w = r.wm
		if r.cap > 0 {
			key := classOf(name, ev)
			r.kept[key]++
			keep = r.kept[key] <= r.cap
		}
	}
	if !keep {
		return
	}
	if !mism && len(r.sum.Samples) < 4 && r.count[name]%(7*r.sample+1) == 0 {
		r.sum.Samples = append(r.sum.Samples, map[string]interface{}{"call": name, "observed": ev})
	}
	r.tid++
	w.Begin(r.tid)
	w.Ev("Begin", tr.E{})
	w.Ev(name, ev)
	w.End(true)
}

// Replay runs every TLC-emitted case on the real code.
func Replay(args []string) {
	fs := flag.NewFlagSet("numeric replay", flag.ExitOnError)
	cases := fs.String("cases", "", "ndjson emitted by TLC from NumericGen")
	out := fs.String("out", "", "trace file: sampled executions that agree with the expectation")
	outm := fs.String("outm", "", "trace file: executions that differ from the expectation")
	capn := fs.Int("cap", 12, "differing executions kept per coarse class (0: all)")
	sample := fs.Int("sample", 25, "besides all mismatches keep every n-th execution of each call")
	spell := fs.Int("spellings", 3, "concrete spellings per abstract string that contains the symbol x")
	seed := fs.Int64("seed", 1, "seed")
	fs.Parse(args)
	rng := rand.New(rand.NewSource(*seed))
	sum := &summary{Suite: "numeric", Mode: "replay", ByKind: map[string]int{}, ByCall: map[string]int{}}
	r := &runner{w: tr.NewWriter(*out), wm: tr.NewWriter(*outm), sum: sum, sample: *sample, cap: *capn, count: map[string]int{}, kept: map[string]int{}}
	err := tr.ReadCases(*cases, func(line int, raw []byte) {
		var c gcase
		if err := json.Unmarshal(raw, &c); err == nil {
			err = c.fix()
			if err != nil {
				fmt.Fprintln(os.Stderr, "bad case:", err)
				os.Exit(2)
			}
		} else {
			fmt.Fprintln(os.Stderr, "bad case:", err)
			os.Exit(2)
		}
		sum.Cases++
		sum.ByKind[c.K]++
		switch c.K {
		case "parse":
			r.parseCase(&c, rng, *spell)
		case "int":
			r.intCase(&c)
		case "dec":
			r.decCase(&c, rng)
		case "num":
			r.numCase(&c, rng)
		default:
			fmt.Fprintln(os.Stderr, "unknown case kind", c.K)
			os.Exit(2)
		}
	})
	if err != nil {
		fmt.Fprintln(os.Stderr, "replay:", err)
		os.Exit(2)
	}
	r.w.Close()
	r.wm.Close()
	sum.Traces, sum.Events = r.w.Traces+r.wm.Traces, r.w.Events+r.wm.Events
	sum.Classes = len(r.kept)
	json.NewEncoder(os.Stdout).Encode(sum)
}

func (r *runner) parseCase(c *gcase, rng *rand.Rand, spell int) {
	hasX := false
	for _, v := range c.S {
		if v >= 256 {
			hasX = true
		}
	}
	if c.Int.N > 0 || c.Uint.N > 0 || c.Flt.N > 0 || (!c.DecE.Free && c.DecE.N > 0) {
		r.sum.Nontrivial++
	}
	k := 1
	if hasX {
		k = spell
	}
	for j := 0; j < k; j++ {
		b := concretise(c.S, rng)
		ctx := map[string]interface{}{"s": c.S, "b": ints(b)}

		ev := evParseInt(b)
		r.emit("ParseInt", ev, geti(ev, "n") != c.Int.N || ev["neg"] != c.Int.Neg || !sameInts(getis(ev, "d"), c.Int.D), ctx)

		ev = evParseUint(b)
		r.emit("ParseUint", ev, geti(ev, "n") != c.Uint.N || !sameInts(getis(ev, "d"), c.Uint.D), ctx)

		ev, f := evParseFloatLike(b, strconv.ParseFloat)
		r.emit("ParseFloat", ev, floatMismatch(ev, f, c.Flt), ctx)

		ev, f = evParseFloatLike(b, strconv.ParseDecimal)
		r.emit("ParseDecimal", ev, !c.DecE.Free && floatMismatch(ev, f, c.DecE), ctx)
	}
}

func floatMismatch(ev tr.E, f float64, x *fltExp) bool {
	if geti(ev, "n") != x.N {
		return true
	}
	if x.N == 0 {
		return f != 0
	}
	return floatDiffers(f, floatOfDecimal(x.Neg, x.D, x.E10))
}

func (r *runner) intCase(c *gcase) {
	num, ok := intOfDigits(c.Neg, c.D)
	if !ok {
		fmt.Fprintln(os.Stderr, "int case does not fit int64:", c.D)
		os.Exit(2)
	}
	r.sum.Nontrivial++
	for _, sp := range spares {
		ev := evAppendInt(num, sp)
		r.emit("AppendInt", ev, !sameInts(getis(ev, "o"), c.O) || geti(ev, "len") != len(c.O) || ev["pk"] != true, c)
	}
}

func (r *runner) decCase(c *gcase, rng *rand.Rand) {
	f := floatOfDecimal(c.Neg, c.Sd, -c.Ss)
	if len(c.O) > 1 {
		r.sum.Nontrivial++
	}
	sp := spares[rng.Intn(len(spares))]
	ev := evAppendDecimal(f, &shortDec{Sd: c.Sd, Ss: c.Ss}, c.Dec, sp)
	r.emit("AppendDecimal", ev, !sameInts(getis(ev, "o"), c.O) || ev["pk"] != true, c)
	// AppendFloat has no expectation of its own in the generator (the statement gives a tolerance, not a text):
	// every sampled call is judged by the trace specification; calls whose output does not even parse back to
	// within the requested digits with the standard library are always kept.
	sp = spares[rng.Intn(len(spares))]
	ev = evAppendFloat(f, c.Dec, sp)
	r.emit("AppendFloat", ev, appendFloatSuspicious(ev, f, c.Dec), c)
}

func appendFloatSuspicious(ev tr.E, f float64, prec int) bool {
	if ev["pk"] != true {
		return true
	}
	o := bytesOfInts(getis(ev, "o"))
	if math.IsNaN(f) || math.IsInf(f, 0) {
		return len(o) != 0
	}
	g, err := std.ParseFloat(string(o), 64)
	if err != nil {
		return true
	}
	if f == 0 || g == 0 {
		return f != g && (prec > 0 || g != 0)
	}
	if prec < 0 || prec > 17 {
		prec = 17
	}
	return (g < 0) != (f < 0) || math.Abs(g-f) > math.Abs(f)*math.Pow10(1-prec)
}

func (r *runner) numCase(c *gcase, rng *rand.Rand) {
	num, ok := intOfDigits(c.Neg, c.D)
	if !ok {
		fmt.Fprintln(os.Stderr, "num case does not fit int64:", c.D)
		os.Exit(2)
	}
	if len(c.O) > 1 {
		r.sum.Nontrivial++
	}
	gr, dr := pickSyms(c.Gl, c.Dl, rng)
	sp := spares[rng.Intn(len(spares))]
	ev := evAppendNumber(num, c.Dec, c.Gs, gr, dr, sp)
	mism := !sameInts(getis(ev, "o"), c.O) || geti(ev, "olen") != c.Bytes || ev["pk"] != true ||
		ev["pneg"] != c.Pneg || !sameInts(getis(ev, "pd"), c.Pd) || geti(ev, "pdec") != c.Pdec || geti(ev, "pn") != c.Bytes
	r.emit("AppendNumber", ev, mism, c)
}

func init() {
	reg.Register("numeric", "replay", Replay)
	reg.Register("numeric", "record", Record)
	reg.Register("numeric", "rerun", Rerun)
}
