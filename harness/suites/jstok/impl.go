package jstok

// Differential replay of spec/js/JsLexImpl.tla (kind I): TLC writes every class string up to the bound with the reports the
// model of js.Lexer predicts (token type, length of the data, cursor after the call, whether the report came from RegExp(),
// which error, and `det`: whether the property-level definition PRESCRIBES that token there - TLC checks that flag against
// JsTokens.tla's own operators, property DetSound). This mode spells the classes with representative bytes chosen by seed,
// runs the real lexer (RegExp() where the model's driver calls it) and compares. A difference is MODEL DRIFT; it is a
// CANDIDATE VIOLATION exactly when the first differing report is one the model flags det (and all reports before it agree,
// the input is valid UTF-8 and spelled with exact representatives): such a trace is written with the model's tokens up to
// that report as the EXPECTATION (a prefix: what follows it is free), so that spec/js/JsTokensTrace.tla (Matches) judges
// these reports like those of a generator case; the same record replayed on a lexer that delivers them is accepted. The other
// differing traces (and every -traceevery-th case) are written free: only the all-input invariants apply. Nothing here is
// a verdict.

import (
	"encoding/json"
	"flag"
	"fmt"
	"hash/fnv"
	"os"
	"sort"
	"strings"
	"unicode/utf8"

	"verif/harness/internal/reg"
	"verif/harness/internal/tr"
)

// representatives of the classes of JsLexImpl.tla. The letters are chosen so that no concatenation of representatives
// (and of the keyword atoms) spells a word of js.Keywords other than a keyword atom standing alone.
var implBytes = map[string][]string{
	"slash": {"/"}, "star": {"*"}, "lt": {"<"}, "gt": {">"}, "eq": {"="}, "bang": {"!"}, "dash": {"-"}, "plus": {"+"}, "dot": {"."},
	"qmark": {"?"}, "amp": {"&"}, "pipe": {"|"}, "caret": {"^"}, "tilde": {"~"}, "pct": {"%"}, "lbrace": {"{"}, "rbrace": {"}"},
	"lparen": {"("}, "rparen": {")"}, "lbrack": {"["}, "rbrack": {"]"}, "semi": {";"}, "comma": {","}, "colon": {":"},
	"digit0": {"0"}, "digit1": {"1"}, "digit": {"2", "3", "5", "7"}, "digit8": {"8", "9"},
	"letter_e": {"e", "E"}, "letter_n": {"n"}, "letter_x": {"x", "X"}, "letter_b": {"b", "B"}, "letter_o": {"o", "O"}, "letter_u": {"u"},
	"hexletter": {"a", "c", "A", "C", "D", "F"}, "letter": {"g", "z", "Q", "k", "j", "Z", "N", "U", "h"},
	"kw_in": {"in"}, "kw_of": {"of"}, "kw_let": {"let"}, "kw_async": {"async"}, "kw_yield": {"yield"},
	"dollar": {"$"}, "underscore": {"_"}, "backtick": {"`"}, "dquote": {"\""}, "squote": {"'"}, "bslash": {"\\"}, "hash": {"#"},
	"ws": {" ", "\t", "\v", "\f"}, "nl": {"\n"}, "cr": {"\r"}, "nul": {"\x00"}, "other": {"@", "\x7f", "\x01"},
	"uletter": {"\u00e9", "\u2113", "\U0001D4B3", "\u65e5"}, "ucont": {"\u0301", "\u200C", "\u200D", "\u0663"},
	"uws": {"\u00A0", "\uFEFF", "\u2003", "\u3000"}, "uls": {"\u2028", "\u2029"}, "uother": {"\u2020", "\U0001F600", "\u0080"},
}

// implInexact lists the representatives ("class/spelling") for which the class abstraction is NOT exact with respect to
// ECMA-262, i.e. the standard could treat the spelling differently from the other members of its class; an input spelled
// with one of them is never a candidate violation (drift only). None at present: every representative belongs to its class
// by the standard's own definition - digits, letters, '$' '_' (IdentifierStartChar), U+00E9 U+2113 U+1D4B3 U+65E5 (ID_Start),
// U+0301 U+0663 (ID_Continue), U+200C U+200D (IdentifierPartChar), TAB VT FF SP U+00A0 U+FEFF U+2003 U+3000 (WhiteSpace),
// LF CR U+2028 U+2029 (LineTerminator); NUL, '@', DEL, U+0001, U+2020, U+1F600, U+0080 are SourceCharacters that start no
// token and are none of the above (the model flags nothing det that starts with them; inside strings, templates, comments
// and regular expressions they are ordinary characters for the standard and for the model alike). The keyword atoms are the
// words themselves.
var implInexact = map[string]bool{}

type implTok struct {
	Tt  string `json:"tt"`
	N   int    `json:"n"`
	Hi  int    `json:"hi"`
	Re  bool   `json:"re"`
	Err string `json:"err"`
	Det bool   `json:"det"` // the property-level definition prescribes this token here (JsLexImpl.tla, Det / DetSound)
	Pre string `json:"pre"` // for a report of RegExp(): what Next() had returned ("/" or "/=")
}

type implCase struct {
	Cls  []string  `json:"cls"`
	Toks []implTok `json:"toks"`
}

type implObs struct {
	Kind  string `json:"kind"`
	Len   int    `json:"len"`
	Hi    int    `json:"hi"`
	Re    bool   `json:"re"`
	Same  bool   `json:"same"`
	Eof   bool   `json:"eof,omitempty"`
	Etext string `json:"err,omitempty"`
}

var otherUnexpected = []string{"unexpected EOF in comment", "unexpected identifier after number", "unexpected EOF or newline"}

// errAgrees: the model names an error by the fixed part of the message ("EOF": Err() is io.EOF; "unexpected": "unexpected <rune>").
func errAgrees(model string, o implObs) bool {
	switch model {
	case "":
		return o.Etext == "" && !o.Eof
	case "EOF":
		return o.Eof
	case "unexpected":
		if !strings.HasPrefix(o.Etext, "unexpected ") {
			return false
		}
		for _, p := range otherUnexpected {
			if strings.HasPrefix(o.Etext, p) {
				return false
			}
		}
		return true
	}
	return !o.Eof && strings.HasPrefix(o.Etext, model)
}

type implSummary struct {
	Suite      string         `json:"suite"`
	Mode       string         `json:"mode"`
	Cases      int            `json:"cases"`
	Executions int            `json:"executions"`
	Mismatches int            `json:"mismatches"`
	Candidates int            `json:"candidates"`  // differing cases whose first differing report is prescribed (written with an expectation)
	DetReports int            `json:"det_reports"` // compared reports that the model flags det
	DetTypes   map[string]int `json:"det_types"`   // predicted token types flagged det at least once (vacuity of the flag)
	Inexact    int            `json:"inexact_inputs"`
	Traces     int            `json:"traces"`
	Events     int            `json:"events"`
	Nontrivial int            `json:"distinct_nontrivial"`
	Reports    int            `json:"reports_compared"`
	RegExps    int            `json:"regexp_calls"`
	Classes    map[string]int `json:"classes"`
	Types      map[string]int `json:"types"`
	Errs       map[string]int `json:"errs"`
	Drift      []interface{}  `json:"drift_samples"`
	CandSample []interface{}  `json:"candidate_samples"`
	Samples    []interface{}  `json:"samples"`
}

// Impl: replay of the cases of JsLexImpl.tla.
func Impl(args []string) {
	fs := flag.NewFlagSet("jstok impl", flag.ExitOnError)
	cases := fs.String("cases", "", "ndjson {cls, toks} written by JsLexImpl.tla")
	out := fs.String("out", "", "trace file (free traces for JsTokensTrace.tla)")
	seed := fs.Int64("seed", 1, "seed")
	variants := fs.Int("variants", 1, "spellings per case")
	traceevery := fs.Int("traceevery", 16, "besides the differing cases, keep the trace of every n-th case (0: none)")
	fs.Parse(args)
	w := tr.NewWriter(*out)
	sum := implSummary{Suite: "jstok", Mode: "impl", Classes: map[string]int{}, Types: map[string]int{}, Errs: map[string]int{}, DetTypes: map[string]int{}}
	seen := map[uint64]bool{} // several configurations write the same class string (and the same prediction): once is enough
	tid := 1
	err := tr.ReadCases(*cases, func(line int, raw []byte) {
		var c implCase
		if err := json.Unmarshal(raw, &c); err != nil || len(c.Toks) == 0 {
			fmt.Fprintln(os.Stderr, "jstok impl: bad case:", err, string(raw))
			os.Exit(2)
		}
		hh := fnv.New64a()
		hh.Write(raw)
		h := hh.Sum64()
		if seen[h] {
			return
		}
		seen[h] = true
		sum.Cases++
		for _, x := range c.Cls {
			sum.Classes[x]++
		}
		for _, t := range c.Toks {
			sum.Types[t.Tt]++
			if t.Tt == "Error" {
				sum.Errs[t.Err]++
				if t.Det {
					fmt.Fprintln(os.Stderr, "jstok impl: an error report flagged det:", string(raw))
					os.Exit(2)
				}
			}
			if t.Det {
				sum.DetTypes[t.Tt]++
			}
		}
		rng := caseRng(*seed, h)
		prevInputs := map[string]bool{}
		// spelling v of class position i is reps[(r0[i]+v) % len(reps)]: with v = 0..k-1 every representative of a class with at
		// most k representatives occurs at every position (boundary values such as '9' are not left to chance)
		r0 := make([]int, len(c.Cls))
		for i := range r0 {
			r0[i] = rng.Intn(1 << 16)
		}
		for v := 0; v < *variants; v++ {
			// spell the classes; off[i] = byte offset of class i
			var b []byte
			exact := true
			off := make([]int, len(c.Cls)+1)
			for i, x := range c.Cls {
				reps, ok := implBytes[x]
				if !ok {
					fmt.Fprintln(os.Stderr, "jstok impl: unknown class", x)
					os.Exit(2)
				}
				off[i] = len(b)
				r := reps[(r0[i]+v)%len(reps)]
				b = append(b, r...)
				exact = exact && !implInexact[x+"/"+r]
			}
			exact = exact && utf8.Valid(b)
			off[len(c.Cls)] = len(b)
			if prevInputs[string(b)] {
				continue
			}
			prevInputs[string(b)] = true
			// where the model's driver calls RegExp(): at the start of the reports that came from it
			e := &expect{Free: true, Input: tr.Ints(b), Plan: "impl"}
			end := 0
			for _, t := range c.Toks {
				if t.Re {
					e.Ek, e.Elo, e.Ehi, e.Epre = append(e.Ek, "RegExp"), append(e.Elo, off[end]), append(e.Ehi, off[end]), append(e.Epre, t.Pre)
					sum.RegExps++
				}
				if t.Tt != "Error" {
					end = t.Hi
				}
			}
			w.Begin(tid)
			toks := run(w, b, e)
			sum.Executions++
			if toks >= 2 {
				sum.Nontrivial++
			}
			var obs []implObs
			for _, ev := range w.Buf() {
				if ev["ev"] != "Tok" {
					continue
				}
				if ev["out"] != "ret" {
					obs = append(obs, implObs{Kind: "panic"})
					continue
				}
				o := implObs{Kind: ev["kname"].(string), Hi: ev["hi"].(int), Len: ev["hi"].(int) - ev["lo"].(int), Re: ev["pre"].(string) != "", Same: ev["same"].(bool), Eof: ev["eof"].(bool)}
				if s, ok := ev["etext"].(string); ok {
					o.Etext = s
				}
				obs = append(obs, o)
			}
			diff := -1
			for k := 0; k < len(c.Toks) || k < len(obs); k++ {
				if k >= len(c.Toks) || k >= len(obs) {
					diff = k
					break
				}
				m, o := c.Toks[k], obs[k]
				sum.Reports++
				// (the model's data is the piece of the input that the call consumed: Same)
				if m.Tt != o.Kind || off[m.Hi]-off[m.Hi-m.N] != o.Len || off[m.Hi] != o.Hi || m.Re != o.Re || !o.Same || !errAgrees(m.Err, o) {
					diff = k
					break
				}
				if m.Det {
					sum.DetReports++
				}
			}
			if !exact {
				sum.Inexact++
			}
			keep := *traceevery > 0 && h%uint64(*traceevery) == 0
			if diff >= 0 {
				sum.Mismatches++
				keep = true
				// the reports before `diff` agree (it is the first difference); is the model's token there prescribed?
				cand := exact && diff < len(c.Toks) && c.Toks[diff].Det
				if len(sum.Drift) < 12 {
					sum.Drift = append(sum.Drift, map[string]interface{}{"cls": c.Cls, "input": string(b), "report": diff + 1, "model": c.Toks, "observed": obs, "candidate": cand})
				}
				if cand {
					// the same input once more, now with the model's tokens up to the differing one as the expectation: the
					// trace spec compares kind, extent, text and the token before RegExp() (JsTokens!Matches) and rejects
					// the trace at the first report that is not the expected one
					sum.Candidates++
					e2 := &expect{Free: false, Pfx: true, Input: tr.Ints(b), Plan: "impl"}
					for _, t := range c.Toks[:diff+1] {
						e2.Units = append(e2.Units, strings.Join(c.Cls[t.Hi-t.N:t.Hi], "+"))
						e2.Ek, e2.Elo, e2.Ehi, e2.Epre = append(e2.Ek, t.Tt), append(e2.Elo, off[t.Hi-t.N]), append(e2.Ehi, off[t.Hi]), append(e2.Epre, t.Pre)
					}
					w.Begin(tid)
					run(w, b, e2)
					if len(sum.CandSample) < 6 {
						sum.CandSample = append(sum.CandSample, map[string]interface{}{"cls": c.Cls, "input": string(b), "report": diff + 1, "prescribed": c.Toks[diff], "observed": obs})
					}
				}
			}
			if len(sum.Samples) < 3 && len(c.Toks) >= 4 && h%7 == 0 {
				sum.Samples = append(sum.Samples, map[string]interface{}{"cls": c.Cls, "input": string(b), "model": c.Toks})
			}
			w.End(keep)
			if keep {
				tid++
			}
		}
	})
	if err != nil {
		fmt.Fprintln(os.Stderr, "jstok impl:", err)
		os.Exit(2)
	}
	w.Close()
	sum.Traces, sum.Events = w.Traces, w.Events
	sort.Slice(sum.Drift, func(i, j int) bool { return fmt.Sprint(sum.Drift[i]) < fmt.Sprint(sum.Drift[j]) })
	json.NewEncoder(os.Stdout).Encode(sum)
}

func init() {
	reg.Register("jstok", "impl", Impl)
}
