// Package jstok drives js.Lexer for property C06 (JS tokens follow the ECMAScript lexical grammar): TLC derives
// token sequences (units of spelling atoms with separator choices) and the kinds that must be reported from
// spec/js/JsTokens.tla / JsTokensGen.tla; this package spells the atoms, runs the real lexer (Next, and RegExp
// where the scenario marks a regular-expression literal) and records one trace per input for
// spec/js/JsTokensTrace.tla to judge. Nothing here decides the property.
package jstok

import (
	"bytes"
	"encoding/json"
	"flag"
	"fmt"
	"hash/fnv"
	"io"
	"math/rand"
	"os"
	"sort"
	"strings"
	"unicode/utf8"

	"github.com/tdewolff/parse/v2"
	"github.com/tdewolff/parse/v2/js"

	"verif/harness/internal/reg"
	"verif/harness/internal/tr"
)

// spellings of the atoms of spec/js/JsTokens.tla. "kw.X" and "p.X" spell X.
var spell = map[string][]string{
	"id.ascii":  {"a", "x1", "foo", "Z9", "abc_d"},
	"id.dollar": {"$", "$a", "a$", "$$"},
	"id.under":  {"_", "_a", "__proto__", "a_"},
	"id.u2":     {"é", "ña", "Ωmega", "aß"},
	"id.u3":     {"日本", "aℓ", "ᚠ", "ⅷ", "℘x"},
	"id.u4":     {"𝒳", "a𐐀", "𠮷"},
	"id.ucont":  {"e\u0301", "a\u0663", "a\u203F", "a\u0903", "a\u00B7", "x\u1369", "a\u2118", "x\u212E", "k\u309B"}, // (the last three: Other_ID_Start characters continuing a name)
	"id.esc4":   {`\u0061`, `a\u0062c`, `\u00e9x`, `\u0041\u0042`},
	"id.escb":   {`\u{61}`, `x\u{1D4B3}`, `\u{000061}b`},
	"id.zw":     {"a\u200Db", "a\u200C", "x\u200C\u200Dy"},
	"id.kwlike": {"awaits", "iff", "In", "New", "lets", "do_", "classy", "nulll", "offset", "gets", "asyncc", "TRUE", "Let", "of1"},

	"num.int":         {"1", "42", "7", "123456789"},
	"num.zero":        {"0"},
	"num.sep":         {"1_000", "9_9", "1_2_3"},
	"num.bigint":      {"1n", "0n", "12_3n", "99n"},
	"num.frac":        {"1.5", "0.25", "3.0_1", "10.0", "0.0"},
	"num.traildot":    {"5.", "0.", "1_0."},
	"num.leaddot":     {".5", ".0_1", ".123"},
	"num.exp":         {"1e3", "2E5", "1e0_1", "0e0"},
	"num.exp+":        {"1e+3", "0E+0"},
	"num.exp-":        {"1e-3", "5E-10"},
	"num.fracexp":     {"1.5e3", "0.5E-2", "1.0e+1_0"},
	"num.traildotexp": {"5.e3", "0.E-1"},
	"num.leaddotexp":  {".5e3", ".5E+1", ".0e-0"},
	"num.hex":         {"0x1F", "0XaB", "0xdead_beef", "0x0"},
	"num.hexn":        {"0x1Fn", "0XFFn", "0xA_Bn"},
	"num.oct":         {"0o17", "0O7_7", "0o0"},
	"num.octn":        {"0o7n", "0O1_7n"},
	"num.bin":         {"0b101", "0B1_0", "0b0"},
	"num.binn":        {"0b1n", "0B11n", "0b1_0n"},

	"str.dq":         {`"a"`, `"a b"`, `"x;y"`},
	"str.sq":         {`'a'`, `'a b'`},
	"str.empty":      {`""`, `''`},
	"str.esc.char":   {`'\n'`, `"\t\b\v\f\r"`, `'a\nb'`},
	"str.esc.quote":  {`'\''`, `"\""`, `'a\'b'`, `"\"\""`},
	"str.esc.bslash": {`'\\'`, `"a\\"`, `'\\\\'`, `"\\\""`},
	"str.esc.zero":   {`'\0'`, `"a\0b"`},
	"str.esc.hex":    {`'\x41'`, `"\xff"`},
	"str.esc.u4":     {`'\u0041'`, `"\u2028"`},
	"str.esc.ub":     {`'\u{1F600}'`, `"\u{0}"`},
	"str.esc.nonesc": {`'\q'`, `"\-"`, `'\é'`},
	"str.otherquote": {`'"'`, `"'"`, `"it's"`, `'say "x"'`},
	"str.cont.lf":    {"'a\\\nb'", "\"\\\n\""},
	"str.cont.cr":    {"'a\\\rb'", "\"\\\r\""},
	"str.cont.crlf":  {"'a\\\r\nb'", "\"\\\r\n\""},
	"str.cont.ls":    {"'a\\\u2028b'", "\"\\\u2028\""},
	"str.cont.ps":    {"\"\\\u2029\"", "'a\\\u2029'"},
	"str.rawls":      {"'a\u2028b'", "\"\u2028\""},
	"str.rawps":      {"'\u2029'", "\"a\u2029\""},
	"str.unicode":    {"'é日𝒳'", "\"ñ\""},
	"str.lookalike":  {`'//'`, `"/*"`, "'`${'", `"*/"`, `'<!--'`},

	"tmpl.nosub":        {"``", "`a`", "`a b`", "`'\"`"},
	"tmpl.nosub.lt":     {"`a\nb`", "`\r\n`", "`\u2028`", "`\r`"},
	"tmpl.nosub.esc":    {"`\\``", "`\\${`", "`\\\\`", "`\\n`", "`$\\{`", "`\\u0041`", "`\\\n`"},
	"tmpl.nosub.dollar": {"`$`", "`$a`", "`$$`", "`{}`", "`}`", "`{`", "`$}`"},
	"tmpl.head":         {"`${"},
	"tmpl.head.text":    {"`a${", "`$${", "`\\`${", "`}${", "`\n${", "`{${", "`é${"},
	"tmpl.mid":          {"}${"},
	"tmpl.mid.text":     {"}a${", "} \n ${", "}$${", "}\\`${", "}}${", "}{${"},
	"tmpl.tail":         {"}`"},
	"tmpl.tail.text":    {"}a`", "}\\``", "}$`", "} \r\n`", "}}`", "}{`"},

	"priv.ascii": {"#a", "#x1", "#$", "#_p"},
	"priv.u":     {"#é", "#日"},
	"priv.esc":   {`#\u0061`, `#a\u{62}`},
	"priv.kw":    {"#if", "#class", "#await"},

	"re.open":             {"/"},
	"re.open.eq":          {"/="},
	"re.plain":            {"a", "abc", "a+b?", `\d`, "(x|y)", "a{1,2}", "^$", ".", `\n`, "é", "x*", `\\`},
	"re.escslash":         {`\/`},
	"re.class.slash":      {"[/]", "[a/b]", "[^/]", "[[/]"},
	"re.class.escbracket": {`[\]]`, `[\]/]`, `[a\]/b]`},
	"re.class.plain":      {"[a-z]", "[^x]", "[[]", "[.]"},
	"re.close":            {"/"},
	"re.flags":            {"g", "gi", "dgimsuy", "v", "x1$", "gé"},

	"ws.sp": {" "}, "ws.tab": {"\t"}, "ws.vt": {"\v"}, "ws.ff": {"\f"}, "ws.nbsp": {"\u00A0"}, "ws.bom": {"\uFEFF"},
	"ws.zs": {"\u1680", "\u2000", "\u2003", "\u200A", "\u202F", "\u205F", "\u3000"},
	"lt.lf": {"\n"}, "lt.cr": {"\r"}, "lt.crlf": {"\r\n"}, "lt.ls": {"\u2028"}, "lt.ps": {"\u2029"},
	"cmt.single":   {"//", "// a", "//a*/", "///", "//é", "//\t/*", "// `${ '"},
	"cmt.multi":    {"/**/", "/* a */", "/***/", "/*/*/", "/* // */", "/*é*/", "/* ` ' */"},
	"cmt.multi.lt": {"/*\n*/", "/*a\r\nb*/", "/*\u2028*/", "/*\r*/", "/* \u2029 */", "/**\n * x\n */"},
}

func spellAtom(name string, rng *rand.Rand) string {
	if strings.HasPrefix(name, "kw.") {
		return name[3:]
	}
	if strings.HasPrefix(name, "p.") {
		return name[2:]
	}
	s, ok := spell[name]
	if !ok {
		fmt.Fprintln(os.Stderr, "jstok: unknown atom", name)
		os.Exit(2)
	}
	return s[rng.Intn(len(s))]
}

// scenario is one TLC case; expect is what must be observed for one concretisation of it.
type scenario struct {
	Plan  string     `json:"plan"`
	U     [][]string `json:"u"`
	K     []string   `json:"k"`
	P     []string   `json:"p"`
	Vocab []string   `json:"vocab"`
}

type expect struct {
	Units []string `json:"units,omitempty"` // atom names of each unit joined by '+' (for reports)
	Ek    []string `json:"ek"`
	Elo   []int    `json:"elo"`
	Ehi   []int    `json:"ehi"`
	Epre  []string `json:"epre"`
	Free  bool     `json:"free"`
	Pfx   bool     `json:"prefix"` // the expectation covers the first reports only (jstok impl); the rest is judged as free
	Input []int    `json:"input"`
	Plan  string   `json:"plan,omitempty"`
}

func concretise(c *scenario, rng *rand.Rand) ([]byte, *expect) {
	var b []byte
	e := &expect{Plan: c.Plan}
	for i, u := range c.U {
		lo := len(b)
		for _, a := range u {
			b = append(b, spellAtom(a, rng)...)
		}
		e.Units = append(e.Units, strings.Join(u, "+"))
		e.Ek = append(e.Ek, c.K[i])
		e.Elo = append(e.Elo, lo)
		e.Ehi = append(e.Ehi, len(b))
		e.Epre = append(e.Epre, c.P[i])
	}
	e.Input = tr.Ints(b)
	return b, e
}

func classOf(tt js.TokenType) string {
	switch {
	case tt == js.IdentifierToken || tt == js.ReservedToken || tt == js.PunctuatorToken || tt == js.OperatorToken || tt == js.NumericToken:
		return ""
	case js.IsReservedWord(tt) || js.IsIdentifier(tt):
		return "kw"
	case js.IsOperator(tt):
		return "op"
	case js.IsPunctuator(tt):
		return "punct"
	}
	return ""
}

func firstLine(s string) string {
	if i := strings.IndexByte(s, '\n'); i >= 0 {
		s = s[:i]
	}
	if len(s) > 100 {
		s = s[:100]
	}
	return s
}

// run lexes input and records the trace. Returns the number of non-error tokens.
func run(w *tr.Writer, input []byte, e *expect) (toks int) {
	n := len(input)
	back := make([]byte, n, n+1)
	copy(back, input)
	in := parse.NewInputBytes(back)
	open := tr.E{"lang": "js.lex", "len": n, "input": e.Input, "free": e.Free, "prefix": e.Pfx, "ek": e.Ek, "elo": e.Elo, "ehi": e.Ehi, "epre": e.Epre}
	if e.Ek == nil {
		open["ek"], open["elo"], open["ehi"], open["epre"] = []string{}, []int{}, []int{}, []string{}
	}
	if e.Units != nil {
		open["units"] = e.Units
	}
	if e.Plan != "" {
		open["plan"] = e.Plan
	}
	w.Ev("Open", open)
	marks := map[int]bool{}
	for i, p := range e.Epre {
		if p != "" {
			marks[e.Elo[i]] = true
		}
	}
	l := js.NewLexer(in)
	reports := 0
	for calls := 0; calls < 4*n+16; calls++ {
		ev := tr.E{}
		var tt js.TokenType
		var text []byte
		pre := ""
		var hi int
		panicked := func() (p bool) {
			defer func() {
				if x := recover(); x != nil {
					ev["out"], ev["panic"] = "panic", firstLine(fmt.Sprint(x))
					p = true
				}
			}()
			off0 := in.Offset()
			tt, text = l.Next()
			if marks[off0] && (tt == js.DivToken || tt == js.DivEqToken) {
				pre = tt.String()
				tt, text = l.RegExp()
			}
			hi = in.Offset()
			return false
		}()
		if panicked {
			w.Ev("Tok", ev)
			return
		}
		err := l.Err()
		isErr := tt == js.ErrorToken
		lo := hi - len(text)
		same := lo >= 0 && hi <= n && bytes.Equal(text, input[lo:hi])
		cls := classOf(tt)
		ev["kname"], ev["cls"], ev["err"], ev["eof"], ev["lo"], ev["hi"], ev["same"], ev["pre"] = tt.String(), cls, isErr, isErr && err == io.EOF, lo, hi, same, pre
		ev["text"], ev["canon"] = []int{}, []int{}
		if cls != "" {
			ev["text"], ev["canon"] = tr.Ints(text), tr.Ints(tt.Bytes())
		} else if tt == js.CommentToken || tt == js.CommentLineTerminatorToken {
			ev["text"] = tr.Ints(text)
		}
		if isErr && err != nil {
			ev["etext"] = firstLine(err.Error())
		}
		w.Ev("Tok", ev)
		reports++
		if isErr {
			break
		}
		toks++
	}
	w.Ev("End", tr.E{"n": reports}) // the driver stopped: at the first error report (or when its budget ran out)
	return
}

// mutate returns a valid-UTF-8 variation of b (or nil): the statement leaves malformed UTF-8 unspecified.
func mutate(b []byte, rng *rand.Rand) []byte {
	if len(b) == 0 {
		return nil
	}
	const ins = " \n/*`'\"\\${}()+-.=<>!?#0e_x\t\r"
	m := append([]byte{}, b...)
	i := rng.Intn(len(m))
	switch rng.Intn(5) {
	case 0:
		m = m[:i]
	case 1:
		m[i] = 0
	case 2:
		m[i] = ins[rng.Intn(len(ins))]
	case 3:
		m = append(m[:i], m[i+1:]...)
	default:
		m = append(m[:i], append([]byte{ins[rng.Intn(len(ins))]}, m[i:]...)...)
	}
	if !utf8.Valid(m) || bytes.Equal(m, b) {
		return nil
	}
	return m
}

type summary struct {
	Suite      string         `json:"suite"`
	Mode       string         `json:"mode"`
	Cases      int            `json:"cases"`
	Executions int            `json:"executions"`
	Free       int            `json:"free_executions"`
	Traces     int            `json:"traces"`
	Events     int            `json:"events"`
	Nontrivial int            `json:"distinct_nontrivial"`
	Vocab      []string       `json:"vocab"`
	Used       map[string]int `json:"used"`
	Unused     []string       `json:"unused_atoms"`
	Samples    []interface{}  `json:"samples"`
}

// caseRng: the random choices for a case depend on the seed and the case alone, not on the order in which TLC's
// workers wrote the cases.
func caseRng(seed int64, h uint64) *rand.Rand {
	return rand.New(rand.NewSource(seed*1000003 ^ int64(h)))
}

func readCases(path string, sum *summary, fn func(c *scenario, h uint64)) {
	seen := map[string]bool{}
	err := tr.ReadCases(path, func(line int, raw []byte) {
		var c scenario
		if err := json.Unmarshal(raw, &c); err != nil {
			fmt.Fprintln(os.Stderr, "jstok: bad case:", err)
			os.Exit(2)
		}
		if c.Vocab != nil {
			sum.Vocab = c.Vocab
			return
		}
		if seen[string(raw)] {
			return
		}
		seen[string(raw)] = true
		if len(c.K) != len(c.U) || len(c.P) != len(c.U) {
			fmt.Fprintln(os.Stderr, "jstok: malformed case", string(raw))
			os.Exit(2)
		}
		sum.Cases++
		for _, u := range c.U {
			for _, a := range u {
				sum.Used[a]++
			}
		}
		hh := fnv.New64a()
		hh.Write(raw)
		fn(&c, hh.Sum64())
	})
	if err != nil {
		fmt.Fprintln(os.Stderr, "jstok:", err)
		os.Exit(2)
	}
	for _, v := range sum.Vocab {
		if sum.Used[v] == 0 {
			sum.Unused = append(sum.Unused, v)
		}
	}
	sort.Strings(sum.Unused)
}

// Replay: every case, spelled `variants` times; every mutevery-th case is also mutated and run without expectation
// (only the all-input invariants of the trace spec apply to those).
func Replay(args []string) {
	fs := flag.NewFlagSet("jstok replay", flag.ExitOnError)
	cases := fs.String("cases", "", "ndjson {plan,u,k,p}")
	out := fs.String("out", "", "trace file")
	seed := fs.Int64("seed", 1, "seed")
	variants := fs.Int("variants", 1, "spellings per case")
	double := fs.String("double", "", "comma-separated plans whose cases are spelled once more")
	mutevery := fs.Int("mutevery", 0, "mutate every n-th case (0: never)")
	fs.Parse(args)
	w := tr.NewWriter(*out)
	sum := summary{Suite: "jstok", Mode: "replay", Used: map[string]int{}, Unused: []string{}}
	tid := 0
	type sample struct {
		h uint64
		v interface{}
	}
	var samples []sample
	more := map[string]bool{}
	for _, p := range strings.Split(*double, ",") {
		more[p] = true
	}
	readCases(*cases, &sum, func(c *scenario, h uint64) {
		rng := caseRng(*seed, h)
		var prev [][]byte
		nv := *variants
		if more[c.Plan] {
			nv++
		}
		for v := 0; v < nv; v++ {
			input, e := concretise(c, rng)
			dup := false
			for _, p := range prev {
				dup = dup || bytes.Equal(p, input)
			}
			if dup {
				continue
			}
			prev = append(prev, input)
			tid++
			w.Begin(tid)
			toks := run(w, input, e)
			w.End(true)
			sum.Executions++
			sig := 0
			for _, k := range c.K {
				if k != "Whitespace" && k != "LineTerminator" && k != "Comment" && k != "CommentLineTerminator" {
					sig++
				}
			}
			if sig >= 2 && toks >= 2 {
				sum.Nontrivial++
			}
			if v == 0 && len(c.U) >= 3 && (len(samples) < 3 || h < samples[len(samples)-1].h) {
				samples = append(samples, sample{h, map[string]interface{}{"units": e.Units, "input": string(input), "kinds": e.Ek}})
				sort.Slice(samples, func(i, j int) bool { return samples[i].h < samples[j].h })
				if len(samples) > 3 {
					samples = samples[:3]
				}
			}
		}
		if *mutevery > 0 && h%uint64(*mutevery) == 0 {
			for k := 0; k < 3; k++ {
				if m := mutate(prev[0], rng); m != nil {
					tid++
					w.Begin(tid)
					run(w, m, &expect{Free: true, Input: tr.Ints(m), Plan: c.Plan})
					w.End(true)
					sum.Free++
				}
			}
		}
	})
	w.Close()
	for _, x := range samples {
		sum.Samples = append(sum.Samples, x.v)
	}
	sum.Traces, sum.Events = w.Traces, w.Events
	json.NewEncoder(os.Stdout).Encode(sum)
}

// Inputs: the concretised documents and seeded mutations of them (these may be malformed UTF-8) as
// {"lang","input"} lines for `vdrive lexers file` (C01/C02).
func Inputs(args []string) {
	fs := flag.NewFlagSet("jstok inputs", flag.ExitOnError)
	cases := fs.String("cases", "", "ndjson {plan,u,k,p}")
	out := fs.String("out", "", "ndjson {lang,input}")
	seed := fs.Int64("seed", 1, "seed")
	muts := fs.Int("muts", 2, "mutations per document")
	every := fs.Int("every", 1, "take every n-th case")
	fs.Parse(args)
	f, err := os.Create(*out)
	if err != nil {
		fmt.Fprintln(os.Stderr, err)
		os.Exit(2)
	}
	sum := summary{Suite: "jstok", Mode: "inputs", Used: map[string]int{}, Unused: []string{}}
	enc := json.NewEncoder(f)
	emit := func(lang string, b []byte) {
		enc.Encode(map[string]interface{}{"lang": lang, "input": tr.Ints(b)})
		sum.Executions++
	}
	readCases(*cases, &sum, func(c *scenario, h uint64) {
		if h%uint64(*every) != 0 {
			return
		}
		rng := caseRng(*seed, h)
		input, _ := concretise(c, rng)
		lang := "js.lex"
		for _, p := range c.P {
			if p != "" {
				lang = "js.lex.re"
			}
		}
		emit(lang, input)
		for k := 0; k < *muts && len(input) > 0; k++ {
			m := append([]byte{}, input...)
			i := rng.Intn(len(m))
			switch rng.Intn(4) {
			case 0:
				m = m[:i]
			case 1:
				m[i] = 0
			case 2:
				m[i] = 0xFF
			default:
				m[i] = []byte{0xC3, 0xE2, 0xF0}[rng.Intn(3)]
			}
			emit(lang, m)
		}
	})
	f.Close()
	json.NewEncoder(os.Stdout).Encode(sum)
}

// File: re-run recorded inputs with their recorded expectations ({input, ek, elo, ehi, epre, free} per line).
func File(args []string) {
	fs := flag.NewFlagSet("jstok file", flag.ExitOnError)
	inp := fs.String("in", "", "ndjson of Open events / replay objects")
	out := fs.String("out", "", "trace file")
	fs.Parse(args)
	w := tr.NewWriter(*out)
	sum := summary{Suite: "jstok", Mode: "file", Used: map[string]int{}, Unused: []string{}}
	tid := 0
	err := tr.ReadCases(*inp, func(line int, raw []byte) {
		var e expect
		if err := json.Unmarshal(raw, &e); err != nil {
			fmt.Fprintln(os.Stderr, "jstok: bad record:", err)
			os.Exit(2)
		}
		if len(e.Ek) != len(e.Elo) || len(e.Ek) != len(e.Ehi) || len(e.Ek) != len(e.Epre) {
			fmt.Fprintln(os.Stderr, "jstok: malformed record")
			os.Exit(2)
		}
		b := make([]byte, len(e.Input))
		for i, v := range e.Input {
			b[i] = byte(v)
		}
		tid++
		w.Begin(tid)
		run(w, b, &e)
		w.End(true)
		sum.Executions++
	})
	if err != nil {
		fmt.Fprintln(os.Stderr, err)
		os.Exit(2)
	}
	w.Close()
	sum.Traces, sum.Events = w.Traces, w.Events
	json.NewEncoder(os.Stdout).Encode(sum)
}

func init() {
	reg.Register("jstok", "replay", Replay)
	reg.Register("jstok", "inputs", Inputs)
	reg.Register("jstok", "file", File)
}
