// Package conc drives property C20: N goroutines each run a seeded mix of entry points of every package on private data;
// the digest of everything a task returns is compared with the digest of the same task run alone. Built with -race by the
// check, so a data race makes the process fail with the race detector's report. `history` runs the same tasks in different
// orders and after unrelated calls. `globals` extracts the package-level access facts for spec/conc/Isolation.tla.
package conc

import (
	"bytes"
	"crypto/sha1"
	"encoding/hex"
	"encoding/json"
	"errors"
	"flag"
	"fmt"
	"io"
	"math"
	"math/rand"
	"os"
	"runtime"
	"strings"
	"sync"

	"github.com/tdewolff/parse/v2"
	"github.com/tdewolff/parse/v2/buffer"
	"github.com/tdewolff/parse/v2/css"
	"github.com/tdewolff/parse/v2/html"
	"github.com/tdewolff/parse/v2/js"
	pjson "github.com/tdewolff/parse/v2/json"
	"github.com/tdewolff/parse/v2/strconv"
	"github.com/tdewolff/parse/v2/xml"

	"verif/harness/internal/reg"
	"verif/harness/internal/tr"
	"verif/harness/suites/lexers"
)

type task struct {
	kind string
	run  func(rng *rand.Rand, corpus map[string][]string) string
}

func pick(rng *rand.Rand, xs []string) []byte {
	if len(xs) == 0 {
		return []byte("a")
	}
	return []byte(xs[rng.Intn(len(xs))])
}

func digestToks(lang string, in []byte) string {
	h := sha1.New()
	for _, t := range lexers.RunTokens(lang, in) {
		fmt.Fprint(h, t.Kind, "|", string(t.Text), "|", t.Err, "|")
		for _, k := range []string{"text", "val"} {
			fmt.Fprint(h, k, "=", string(t.Subs[k]), ";")
		}
	}
	return hex.EncodeToString(h.Sum(nil))
}

func sum(parts ...interface{}) string {
	h := sha1.New()
	fmt.Fprint(h, parts...)
	return hex.EncodeToString(h.Sum(nil))
}

var tasks = []task{
	{"css.lex", func(r *rand.Rand, c map[string][]string) string { return digestToks("css.lex", pick(r, c["css"])) }},
	{"css.parse", func(r *rand.Rand, c map[string][]string) string {
		in := pick(r, c["css"])
		p := css.NewParser(parse.NewInputBytes(in), r.Intn(2) == 0)
		h := sha1.New()
		for i := 0; i < 4*len(in)+16; i++ {
			gt, tt, d := p.Next()
			fmt.Fprint(h, gt, tt, string(d))
			for _, v := range p.Values() {
				fmt.Fprint(h, v.TokenType, string(v.Data))
			}
			if gt == css.ErrorGrammar {
				fmt.Fprint(h, p.Err())
				break
			}
		}
		return hex.EncodeToString(h.Sum(nil))
	}},
	{"html.lex", func(r *rand.Rand, c map[string][]string) string {
		langs := []string{"html", "html.tmpl.go", "html.tmpl.ejs", "html.tmpl.php"}
		return digestToks(langs[r.Intn(len(langs))], pick(r, c["html"]))
	}},
	{"xml.lex", func(r *rand.Rand, c map[string][]string) string { return digestToks("xml", pick(r, c["xml"])) }},
	{"json.parse", func(r *rand.Rand, c map[string][]string) string {
		in := pick(r, c["json"])
		p := pjson.NewParser(parse.NewInputBytes(in))
		h := sha1.New()
		for i := 0; i < 4*len(in)+16; i++ {
			gt, d := p.Next()
			fmt.Fprint(h, gt, string(d), p.State())
			if gt == pjson.ErrorGrammar {
				fmt.Fprint(h, p.Err())
				break
			}
		}
		return hex.EncodeToString(h.Sum(nil))
	}},
	{"js.lex", func(r *rand.Rand, c map[string][]string) string { return digestToks("js.lex", pick(r, c["js"])) }},
	{"js.parse", func(r *rand.Rand, c map[string][]string) string {
		in := pick(r, c["js"])
		ast, err := js.Parse(parse.NewInputBytes(in), js.Options{WhileToFor: r.Intn(2) == 0, Inline: r.Intn(2) == 0})
		if err != nil {
			return sum("err", err.Error())
		}
		var b1, b2 bytes.Buffer
		ast.JS(&b1)
		jerr := ast.JSON(&b2)
		n := 0
		js.Walk(counter{&n}, ast)
		return sum(ast.String(), b1.String(), b2.String(), jerr != nil, n)
	}},
	{"strconv", func(r *rand.Rand, c map[string][]string) string {
		f := r.NormFloat64() * float64(int64(1)<<uint(r.Intn(60)))
		i := r.Int63() - r.Int63()
		b := strconv.AppendFloat([]byte("x"), f, r.Intn(18))
		b = strconv.AppendInt(b, i)
		b = strconv.AppendDecimal(b, float64(r.Intn(100000))/1000, r.Intn(6))
		b = strconv.AppendNumber(b, i%1000000, r.Intn(4), r.Intn(4), '.', ',')
		pf, n1 := strconv.ParseFloat(b[1:])
		pi, n2 := strconv.ParseInt([]byte(fmt.Sprint(i)))
		pu, n3 := strconv.ParseUint([]byte(fmt.Sprint(uint64(i))))
		return sum(string(b), pf, n1, pi, n2, pu, n3, strconv.LenInt(i))
	}},
	{"helpers", func(r *rand.Rand, c map[string][]string) string {
		in := append([]byte{}, pick(r, c["html"])...)
		a := parse.ReplaceMultipleWhitespace(append([]byte{}, in...))
		ents := []byte("a &amp; b &#65; &lt;&#x41;&quot; &amp;amp; c &DoubleLongLeftRightArrow; &varphi; &CounterClockwiseContourIntegral;")
		emap := map[string][]byte{"amp": []byte("&"), "lt": []byte("<"), "quot": []byte("\"")}
		if r.Intn(2) == 0 { // callers use different entity tables
			emap = map[string][]byte{"amp": []byte("&"), "varphi": []byte("φ"), "DoubleLongLeftRightArrow": []byte("⟺"), "CounterClockwiseContourIntegral": []byte("∳")}
		}
		b := parse.ReplaceEntities(append([]byte{}, ents...), emap, map[byte][]byte{'<': []byte("&lt;")})
		b2 := parse.ReplaceMultipleWhitespaceAndEntities(append([]byte{}, ents...), emap, map[byte][]byte{'<': []byte("&lt;")})
		var buf []byte
		ev := html.EscapeAttrVal(&buf, append([]byte{}, in...), byte("\"'\x00"[r.Intn(3)]), r.Intn(2) == 0)
		var buf2 []byte
		xv := xml.EscapeAttrVal(&buf2, append([]byte{}, in...))
		var buf3, buf4 []byte
		cd1, ok1 := xml.EscapeCDATAVal(&buf3, append([]byte{}, in...))
		cd2, ok2 := xml.EscapeCDATAVal(&buf4, []byte("x&y<z]]>"))
		esc := parse.AppendEscape(nil, append([]byte{}, in...), []byte("\"'<"), '\\')
		q, qn := parse.QuoteEntity([]byte("&#x22;x"))
		var ib bytes.Buffer
		parse.NewIndenter(parse.NewIndenter(&ib, 2), 1).Write(in)
		du := parse.DecodeURL(parse.EncodeURL(append([]byte{}, in...), parse.URLEncodingTable))
		dn, dl := parse.Dimension([]byte("12.5e3px"))
		mt, params := parse.Mediatype([]byte("text/html; charset=utf-8 ;q=1"))
		dm, dd, derr := parse.DataURI([]byte("data:text/plain;base64,aGVsbG8="))
		n := parse.Number([]byte("-12.5e+3px"))
		line, col, ctx := parse.Position(bytes.NewReader(in), r.Intn(len(in)+1))
		return sum(string(a), string(b), string(b2), string(ev), string(xv), string(mt), params, string(dm), string(dd), derr, n, line, col, ctx,
			css.ToHash([]byte("font-face")), html.ToHash([]byte("script")), parse.EqualFold([]byte("AbC"), []byte("abc")),
			string(parse.EncodeURL(append([]byte{}, in...), parse.URLEncodingTable)), css.IsIdent(in), string(parse.ToLower(append([]byte{}, in...))),
			string(cd1), ok1, string(cd2), ok2, string(esc), q, qn, ib.String(), string(du), dn, dl, css.IsURLUnquoted(in), js.AsIdentifierName(in), js.AsDecimalLiteral(in),
			parse.IsAllWhitespace(in), string(parse.TrimWhitespace(append([]byte{}, in...))), parse.Printable(rune(append(append([]byte{}, in...), 120)[0])))
	}},
	{"cursor", func(r *rand.Rand, c map[string][]string) string {
		in := pick(r, c["js"])
		z := parse.NewInputBytes(append(make([]byte, 0, len(in)+1), in...))
		lx := buffer.NewLexerBytes(append([]byte{}, in...))
		sl := buffer.NewStreamLexerSize(bytes.NewReader(in), 16)
		h := sha1.New()
		for i := 0; i < len(in); i++ {
			ru, n := z.PeekRune(0)
			fmt.Fprint(h, z.Peek(0), ru, n, lx.Peek(0), sl.Peek(0))
			z.Move(1)
			lx.Move(1)
			sl.Move(1)
			if i%3 == 0 {
				fmt.Fprint(h, string(z.Shift()), string(lx.Shift()), string(sl.Shift()))
				sl.Free(sl.ShiftLen())
			}
		}
		fmt.Fprint(h, z.Err(), lx.Err(), sl.Err())
		// a stream lexer of the default size, and one whose token outgrows its buffer several times (growth path)
		sd := buffer.NewStreamLexer(bytes.NewReader(in))
		sg := buffer.NewStreamLexerSize(bytes.NewReader(bytes.Repeat(in, 3)), 4)
		for i := 0; i < len(in); i++ {
			fmt.Fprint(h, sd.Peek(0), sg.Peek(0), sg.Peek(len(in)))
			sd.Move(1)
			sg.Move(2)
		}
		fmt.Fprint(h, string(sd.Shift()), len(sg.Shift()), sd.Err(), sg.Err())
		sd.Free(sd.ShiftLen())
		sg.Free(sg.ShiftLen())
		return hex.EncodeToString(h.Sum(nil))
	}},
	// every entry point on an EMPTY source (all empty cursors may share whatever the library uses for "no data")
	{"empty-sources", func(r *rand.Rand, c map[string][]string) string {
		h := sha1.New()
		for _, z := range []*parse.Input{parse.NewInputString(""), parse.NewInputBytes(nil), parse.NewInputBytes([]byte{}), parse.NewInput(bytes.NewReader(nil))} {
			fmt.Fprint(h, z.Peek(0), z.Len(), z.Err(), len(z.Bytes()), len(z.Lexeme()), z.Pos(), ";")
		}
		lx := buffer.NewLexerBytes(nil)
		fmt.Fprint(h, lx.Peek(0), lx.Err(), len(lx.Bytes()), ";")
		for _, lang := range []string{"css.lex", "html", "xml", "json", "js.lex"} {
			fmt.Fprint(h, digestToks(lang, nil), ";")
		}
		ast, err := js.Parse(parse.NewInputString(""), js.Options{})
		fmt.Fprint(h, err, ast != nil && len(ast.List) == 0)
		return hex.EncodeToString(h.Sum(nil))
	}},
	// a caller that extends the slices it was handed (append on a returned slice is the caller's right): the library must not have
	// handed out capacity over memory it still uses -- its own terminator, or something shared between cursors
	{"caller-appends", func(r *rand.Rand, c map[string][]string) string {
		var in []byte
		if r.Intn(2) == 0 {
			in = pick(r, c["js"])
		}
		x := byte('A' + r.Intn(26))
		h := sha1.New()
		z := parse.NewInputBytes(append([]byte{}, in...))
		b := append(z.Bytes(), x)
		fmt.Fprint(h, len(b), z.Peek(len(in)), z.Len(), z.PeekErr(len(in)), ";")
		z2 := parse.NewInputString(string(in))
		z2.Move(len(in) / 2)
		l := append(z2.Lexeme(), x)
		fmt.Fprint(h, len(l), z2.Peek(0), ";")
		sh := append(z2.Shift(), x, x)
		fmt.Fprint(h, len(sh), z2.Peek(0), z2.Peek(1), ";")
		lx := buffer.NewLexerBytes(append([]byte{}, in...))
		b2 := append(lx.Bytes(), x)
		lx.Move(len(in) / 2)
		l2 := append(lx.Lexeme(), x)
		fmt.Fprint(h, len(b2), len(l2), lx.Peek(0), lx.Peek(len(in)-len(in)/2), lx.Err(), ";")
		// cursors made afterwards
		for _, y := range []*parse.Input{parse.NewInputString(""), parse.NewInputBytes(nil), parse.NewInputString(string(in))} {
			fmt.Fprint(h, y.Peek(0), y.Peek(y.Len()), y.Len(), ";")
		}
		return hex.EncodeToString(h.Sum(nil))
	}},
	// stream lexers of the DEFAULT size: one over a reader that breaks with its own error after a few reads (how much was
	// tokenised before the error depends on the buffer size alone), then one whose token outgrows the default buffer
	{"stream-default", func(r *rand.Rand, c map[string][]string) string {
		h := sha1.New()
		word := pick(r, c["js"])
		data := bytes.Repeat(append(append([]byte{}, word...), ' '), 1+20000/(len(word)+1))
		fr := &failingReader{data: data, calls: 2 + r.Intn(3)}
		sl := buffer.NewStreamLexer(fr)
		words, n := 0, 0
		for sl.Err() == nil && n < 4*len(data) {
			n++
			if ch := sl.Peek(0); ch == ' ' {
				sl.Move(1)
				words++
				fmt.Fprint(h, len(sl.Shift()))
				sl.Free(sl.ShiftLen())
			} else if ch != 0 || sl.Err() == nil {
				sl.Move(1)
			}
		}
		fmt.Fprint(h, ";", words, sl.Err(), ";")
		big := buffer.NewStreamLexer(bytes.NewReader(bytes.Repeat([]byte{'a'}, 5000+r.Intn(4000))))
		k := 0
		for big.Peek(k) != 0 {
			k++
		}
		big.Move(k)
		fmt.Fprint(h, k, len(big.Shift()), big.Err())
		return hex.EncodeToString(h.Sum(nil))
	}},
	// errors handed out earlier stay what they were while other sources, of the same kind and with the same kind of error, are
	// processed by other instances: every error is formatted when it is handed out and once more at the end of the task
	{"errors-kept", func(r *rand.Rand, c map[string][]string) string {
		type kept struct {
			err  error
			then string
		}
		var ks []kept
		hold := func(err error) {
			if err != nil {
				ks = append(ks, kept{err, err.Error()})
			}
		}
		pad := strings.Repeat("\n", r.Intn(4)) + strings.Repeat(" ", r.Intn(7))
		for _, src := range []string{"<svg>a\x00b</svg>", pad + "<math>\n  \x00</math>", "<p>" + pad + "<svg><g>\x00", pad + "<x:xml>\x00", "<svg>" + pad + "\x00"} {
			l := html.NewLexer(parse.NewInputString(src))
			for i := 0; i < 64; i++ {
				if tt, _ := l.Next(); tt == html.ErrorToken {
					hold(l.Err())
					break
				}
			}
		}
		for _, src := range []string{"<a>\x00", pad + "<b c='\x00'>", "<a>" + pad + "<!--\x00-->"} {
			l := xml.NewLexer(parse.NewInputString(src))
			for i := 0; i < 64; i++ {
				if tt, _ := l.Next(); tt == xml.ErrorToken {
					hold(l.Err())
					break
				}
			}
		}
		for _, src := range []string{"a = @", pad + "let x = `${", "a;" + pad + "b = 1 2", pad + "x = '"} {
			_, err := js.Parse(parse.NewInputString(src), js.Options{})
			hold(err)
		}
		for _, src := range []string{"a{b c}", pad + "a{b c}d{e f}", "a{" + pad + "b c; d e}"} {
			p := css.NewParser(parse.NewInputString(src), false)
			for i := 0; i < 64; i++ {
				gt, _, _ := p.Next()
				if gt == css.ErrorGrammar {
					if p.Err() == io.EOF {
						break
					}
					hold(p.Err())
				}
			}
		}
		for _, src := range []string{"{\"a\" 1}", pad + "[1 2]", "[" + pad + "}"} {
			p := pjson.NewParser(parse.NewInputString(src))
			for i := 0; i < 64; i++ {
				if gt, _ := p.Next(); gt == pjson.ErrorGrammar {
					hold(p.Err())
					break
				}
			}
		}
		h := sha1.New()
		for i, k := range ks {
			now := k.err.Error()
			if now != k.then {
				return fmt.Sprintf("inconsistent: error %d read %q when it was handed out and %q after other sources were processed", i, k.then, now)
			}
			fmt.Fprint(h, now, ";")
		}
		return hex.EncodeToString(h.Sum(nil))
	}},
	// parsing first, formatting afterwards: what ParseFloat / ParseInt return must not depend on which numbers were formatted
	// earlier in the process (tables that are filled in on demand)
	{"numeric-history", func(r *rand.Rand, c map[string][]string) string {
		h := sha1.New()
		for _, lit := range []string{"5e-24", "1.7e-29", "19e-34", "3e30", "7e22", "7e23", "1e-22", "1e-23", "123456789e-30", "0.000001e45", "9007199254740993e25"} {
			f, n := strconv.ParseFloat([]byte(lit))
			fmt.Fprint(h, math.Float64bits(f), n, ";")
		}
		for _, lit := range []string{"9223372036854775807", "-9223372036854775808", "18446744073709551615"} {
			i, n := strconv.ParseInt([]byte(lit))
			u, m := strconv.ParseUint([]byte(lit))
			fmt.Fprint(h, i, n, u, m, ";")
		}
		for _, f := range []float64{1.5e-20, 2.5e-30, 1e-300, 5e-324, 1e22, 1e23, 1.5e300, float64(r.Intn(1000)) * 1e-25} {
			for _, prec := range []int{-1, 0, 3, 17} {
				b := strconv.AppendFloat(nil, f, prec)
				fmt.Fprint(h, string(b), ";")
			}
		}
		return hex.EncodeToString(h.Sum(nil))
	}},
	{"binary", func(r *rand.Rand, c map[string][]string) string {
		w := parse.NewBinaryWriter(nil)
		v := r.Uint64()
		w.WriteUint8(uint8(v))
		w.WriteUint16(uint16(v))
		w.WriteUint32(uint32(v))
		w.WriteUint64(v)
		w.WriteBytes([]byte("xyz"))
		rd := parse.NewBinaryReaderBytes(w.Bytes())
		a, b2, c2, d := rd.ReadUint8(), rd.ReadUint16(), rd.ReadUint32(), rd.ReadUint64()
		e := rd.ReadBytes(3)
		f := rd.ReadUint8()
		return sum(a, b2, c2, d, string(e), f, rd.Err(), rd.Pos(), rd.Len())
	}},
}

// failingReader delivers as much as it is asked for and breaks with its own error at its calls-th Read
type failingReader struct {
	data  []byte
	calls int
}

func (f *failingReader) Read(p []byte) (int, error) {
	f.calls--
	if f.calls < 0 {
		return 0, errBroken
	}
	n := copy(p, f.data)
	f.data = f.data[n:]
	if len(f.data) == 0 {
		return n, io.EOF
	}
	return n, nil
}

var errBroken = errors.New("reader broke")

type counter struct{ n *int }

func (c counter) Enter(n js.INode) js.IVisitor { *c.n++; return c }
func (c counter) Exit(n js.INode)              {}

func corpus() map[string][]string {
	c := lexers.HarvestLiterals(reg.Repo())
	c["js"] = append(c["js"], "var a=1;function f(a,b){return a+b*2}", "class A extends B{constructor(){super()}#p=1;static{x}}", "for(let i=0;i<n;i++){if(a)b;else c}",
		"x=`a${b}c`;y=a?.b??c;z=/re/g", "async function*g(){yield await a}", "while(a){b}",
		"/*! one */\n/*! two */\n/*! three */\nfirst=1", "/*! banner */second=2;third=3", "/*! only */", "//! line\n/*! a */\n/*! b */\n/*! c */\nx")
	c["css"] = append(c["css"], "a{color:red;margin:0 auto}", "@media screen and (min-width:10px){.b>c+d{e:f(1,2)}}", "--x: {a;b};", "@font-face{src:url(a.woff)}")
	c["html"] = append(c["html"], "<!doctype html><a href='x' B=c>t</a><script>if(a<b){}</script>", "<svg><path d=\"M0 0\"/></svg> {{ x }} <% y %>", " a\t\n b  ")
	c["xml"] = append(c["xml"], "<?xml version=\"1.0\"?><a b='c'><![CDATA[x]]><d/></a>")
	c["json"] = append(c["json"], "{\"a\":[1,2,{\"b\":null}],\"c\":\"d\"}", "[1.5e3,true,\"\\u00e9\"]")
	return c
}

func runTask(k int, seed int64, c map[string][]string) (kind, dig string) {
	t := tasks[k%len(tasks)]
	defer func() {
		if x := recover(); x != nil {
			dig = "panic:" + fmt.Sprint(x)
		}
	}()
	return t.kind, t.run(rand.New(rand.NewSource(seed)), c)
}

// Run: solo pass, then the same tasks spread over N goroutines (several GOMAXPROCS settings, seeded Gosched perturbation).
func Run(args []string) {
	fs := flag.NewFlagSet("conc run", flag.ExitOnError)
	out := fs.String("out", "", "trace file")
	seed := fs.Int64("seed", 1, "seed")
	n := fs.Int("tasks", 600, "tasks")
	fs.Parse(args)
	c := corpus()
	rng := rand.New(rand.NewSource(*seed))
	seeds := make([]int64, *n)
	for i := range seeds {
		seeds[i] = rng.Int63()
	}
	// The reference results ("solo": each task on its own, sequentially) are computed AFTER the concurrent passes: anything the
	// library memoises or learns at first use must be touched for the first time while several goroutines are running.
	solo := make([]string, *n)
	w := tr.NewWriter(*out)
	tid := 0
	mism := 0
	kinds := map[string]bool{}
	for _, cfg := range []struct{ g, procs int }{{2, 1}, {4, 2}, {16, 16}, {16, 4}} {
		runtime.GOMAXPROCS(cfg.procs)
		type rec struct {
			id        int
			kind, dig string
		}
		results := make([][]rec, cfg.g)
		var wg sync.WaitGroup
		for g := 0; g < cfg.g; g++ {
			wg.Add(1)
			go func(g int) {
				defer wg.Done()
				pr := rand.New(rand.NewSource(*seed + int64(g)))
				for i := g; i < *n; i += cfg.g {
					if pr.Intn(3) == 0 {
						runtime.Gosched()
					}
					k, d := runTask(i, seeds[i], c)
					results[g] = append(results[g], rec{i, k, d})
				}
			}(g)
		}
		wg.Wait()
		if solo[0] == "" {
			runtime.GOMAXPROCS(1)
			for i := range seeds {
				_, solo[i] = runTask(i, seeds[i], c)
			}
		}
		// every goroutine's own log, in its own order
		for g := 0; g < cfg.g; g++ {
			tid++
			w.Begin(tid)
			w.Ev("Open", tr.E{"goroutine": g, "goroutines": cfg.g, "gomaxprocs": cfg.procs})
			for _, r := range results[g] {
				same := r.dig == solo[r.id] && !strings.HasPrefix(r.dig, "inconsistent:")
				if !same {
					mism++
				}
				kinds[r.kind] = true
				w.Ev("Task", tr.E{"id": r.id, "kind": r.kind, "same": same})
			}
			w.End(true)
		}
	}
	w.Close()
	ks := []string{}
	for k := range kinds {
		ks = append(ks, k)
	}
	json.NewEncoder(os.Stdout).Encode(map[string]interface{}{"suite": "conc", "mode": "run", "executions": 4 * *n, "traces": w.Traces, "events": w.Events,
		"mismatches": mism, "distinct_nontrivial": *n, "kinds": ks, "samples": []interface{}{map[string]interface{}{"task": 0, "kind": tasks[0].kind, "seed": seeds[0], "solo_digest": solo[0]}}})
}

// History: the digests of the tasks (a) in order in this fresh process, (b) after many unrelated calls, (c) in reversed
// order must all be identical; prints them so that the check can also compare across processes.
func History(args []string) {
	fs := flag.NewFlagSet("conc history", flag.ExitOnError)
	out := fs.String("out", "", "trace file")
	seed := fs.Int64("seed", 1, "seed")
	n := fs.Int("tasks", 300, "tasks")
	order := fs.String("order", "fwd", "fwd | rev: which order the first pass of this process uses")
	digests := fs.String("digests", "", "write the per-task digests of the first pass here (compared across processes by the check)")
	fs.Parse(args)
	c := corpus()
	rng := rand.New(rand.NewSource(*seed))
	seeds := make([]int64, *n)
	for i := range seeds {
		seeds[i] = rng.Int63()
	}
	pass := func(order []int) []string {
		d := make([]string, *n)
		for _, i := range order {
			_, d[i] = runTask(i, seeds[i], c)
		}
		return d
	}
	fwd := make([]int, *n)
	rev := make([]int, *n)
	for i := range fwd {
		fwd[i], rev[i] = i, *n-1-i
	}
	if *order == "rev" {
		fwd, rev = rev, fwd
	}
	// objects that outlive other calls: parse every js source first, print all the trees only afterwards
	var retained []string
	{
		var asts []*js.AST
		for _, src := range c["js"] {
			if ast, err := js.Parse(parse.NewInputString(src), js.Options{}); err == nil {
				asts = append(asts, ast)
			} else {
				asts = append(asts, nil)
			}
		}
		for i, ast := range asts {
			if ast == nil {
				retained = append(retained, "err")
				continue
			}
			later := ast.String()
			fresh, _ := js.Parse(parse.NewInputString(c["js"][i]), js.Options{})
			retained = append(retained, fmt.Sprint(later == fresh.String()))
		}
	}
	first := pass(fwd)
	for i := 0; i < 1000; i++ { // unrelated calls
		runTask(rng.Intn(1000), rng.Int63(), c)
	}
	second := pass(fwd)
	third := pass(rev)
	w := tr.NewWriter(*out)
	w.Begin(1)
	w.Ev("Open", tr.E{"mode": "history"})
	diff := 0
	for i := 0; i < *n; i++ {
		same := first[i] == second[i] && first[i] == third[i] && !strings.HasPrefix(first[i], "inconsistent:")
		if !same {
			diff++
		}
		w.Ev("History", tr.E{"id": i, "kind": tasks[i%len(tasks)].kind, "same": same})
	}
	for i, r := range retained {
		if r == "false" {
			diff++
		}
		w.Ev("History", tr.E{"id": 100000 + i, "kind": "tree-kept-while-other-sources-were-parsed", "same": r != "false"})
	}
	w.End(true)
	w.Close()
	if *digests != "" {
		b, _ := json.Marshal(first)
		os.WriteFile(*digests, b, 0o644)
	}
	json.NewEncoder(os.Stdout).Encode(map[string]interface{}{"suite": "conc", "mode": "history", "executions": 3 * *n, "traces": 1, "events": w.Events, "mismatches": diff,
		"digest_of_all": sum(first)})
}

func init() {
	reg.Register("conc", "run", Run)
	reg.Register("conc", "history", History)
}
