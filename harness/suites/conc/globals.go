package conc

import (
	"encoding/json"
	"flag"
	"fmt"
	"go/ast"
	"go/parser"
	"go/token"
	"os"
	"path/filepath"
	"sort"
	"strings"

	"verif/harness/internal/reg"
)

// access facts about one function of the library
type fnFacts struct {
	Name    string   `json:"name"`
	Writes  []string `json:"writes"`
	Reads   []string `json:"reads"`
	Escapes []string `json:"escapes"` // package-level variables whose address / backing array is handed to a callee
}

var pkgDirs = []string{".", "buffer", "css", "html", "xml", "json", "js", "strconv"}

// rootIdent returns the identifier at the root of an lvalue-like expression (x, x[i], x.f, *x, (x), x[i:j]).
func rootIdent(e ast.Expr) *ast.Ident {
	for {
		switch v := e.(type) {
		case *ast.Ident:
			return v
		case *ast.IndexExpr:
			e = v.X
		case *ast.SelectorExpr:
			e = v.X
		case *ast.StarExpr:
			e = v.X
		case *ast.ParenExpr:
			e = v.X
		case *ast.SliceExpr:
			e = v.X
		default:
			return nil
		}
	}
}

// Globals scans the non-test sources of /repo: package-level variables, and for every function other than init which of
// them it writes, reads, or lets escape. Syntactic and conservative about shadowing (a name declared anywhere in the
// function is treated as local). Writes GlobalsGen.tla and a JSON summary.
func Globals(args []string) {
	fs := flag.NewFlagSet("conc globals", flag.ExitOnError)
	repo := fs.String("repo", reg.Repo(), "repository")
	out := fs.String("out", "", "GlobalsGen.tla to write")
	fs.Parse(args)
	type key struct{ pkg, name string }
	globals := map[string][]string{} // pkg -> var names
	var facts []fnFacts
	for _, dir := range pkgDirs {
		fset := token.NewFileSet()
		pkgs, err := parser.ParseDir(fset, filepath.Join(*repo, dir), func(fi os.FileInfo) bool {
			return !strings.HasSuffix(fi.Name(), "_test.go")
		}, 0)
		if err != nil {
			fmt.Fprintln(os.Stderr, "parse", dir, err)
			os.Exit(2)
		}
		for pname, pkg := range pkgs {
			vars := map[string]bool{}
			for _, f := range pkg.Files {
				for _, d := range f.Decls {
					if gd, ok := d.(*ast.GenDecl); ok && gd.Tok == token.VAR {
						for _, sp := range gd.Specs {
							for _, n := range sp.(*ast.ValueSpec).Names {
								if n.Name != "_" {
									vars[n.Name] = true
									globals[pname] = append(globals[pname], n.Name)
								}
							}
						}
					}
				}
			}
			for _, f := range pkg.Files {
				for _, d := range f.Decls {
					fd, ok := d.(*ast.FuncDecl)
					if !ok || fd.Body == nil || (fd.Name.Name == "init" && fd.Recv == nil) {
						continue
					}
					local := map[string]bool{}
					addFields := func(fl *ast.FieldList) {
						if fl != nil {
							for _, fld := range fl.List {
								for _, n := range fld.Names {
									local[n.Name] = true
								}
							}
						}
					}
					addFields(fd.Recv)
					addFields(fd.Type.Params)
					addFields(fd.Type.Results)
					ast.Inspect(fd.Body, func(n ast.Node) bool {
						switch v := n.(type) {
						case *ast.AssignStmt:
							if v.Tok == token.DEFINE {
								for _, l := range v.Lhs {
									if id, ok := l.(*ast.Ident); ok {
										local[id.Name] = true
									}
								}
							}
						case *ast.ValueSpec:
							for _, id := range v.Names {
								local[id.Name] = true
							}
						case *ast.RangeStmt:
							if v.Tok == token.DEFINE {
								for _, e := range []ast.Expr{v.Key, v.Value} {
									if id, ok := e.(*ast.Ident); ok {
										local[id.Name] = true
									}
								}
							}
						case *ast.FuncLit:
							addFields(v.Type.Params)
						}
						return true
					})
					isGlobal := func(id *ast.Ident) bool { return id != nil && vars[id.Name] && !local[id.Name] }
					w, r, esc := map[string]bool{}, map[string]bool{}, map[string]bool{}
					written := map[*ast.Ident]bool{}
					ast.Inspect(fd.Body, func(n ast.Node) bool {
						switch v := n.(type) {
						case *ast.AssignStmt:
							for _, l := range v.Lhs {
								if id := rootIdent(l); isGlobal(id) {
									w[id.Name] = true
									written[id] = true
								}
							}
						case *ast.IncDecStmt:
							if id := rootIdent(v.X); isGlobal(id) {
								w[id.Name] = true
								written[id] = true
							}
						case *ast.RangeStmt:
							if v.Tok == token.ASSIGN {
								for _, e := range []ast.Expr{v.Key, v.Value} {
									if e != nil {
										if id := rootIdent(e); isGlobal(id) {
											w[id.Name] = true
											written[id] = true
										}
									}
								}
							}
						case *ast.UnaryExpr:
							if v.Op == token.AND {
								if id := rootIdent(v.X); isGlobal(id) {
									esc[id.Name] = true
								}
							}
						case *ast.CallExpr:
							if fn, ok := v.Fun.(*ast.Ident); ok && (fn.Name == "copy" || fn.Name == "clear") && len(v.Args) > 0 {
								if id := rootIdent(v.Args[0]); isGlobal(id) {
									w[id.Name] = true
								}
							}
							for _, a := range v.Args {
								if se, ok := a.(*ast.SliceExpr); ok {
									if id := rootIdent(se.X); isGlobal(id) {
										esc[id.Name] = true
									}
								}
							}
						}
						return true
					})
					ast.Inspect(fd.Body, func(n ast.Node) bool {
						if id, ok := n.(*ast.Ident); ok && isGlobal(id) && !written[id] {
							r[id.Name] = true
						}
						return true
					})
					if len(w)+len(r)+len(esc) == 0 {
						continue
					}
					name := pname + "." + fd.Name.Name
					if fd.Recv != nil && len(fd.Recv.List) > 0 {
						t := fd.Recv.List[0].Type
						if st, ok := t.(*ast.StarExpr); ok {
							t = st.X
						}
						if id, ok := t.(*ast.Ident); ok {
							name = pname + "." + id.Name + "." + fd.Name.Name
						}
					}
					q := func(m map[string]bool) []string {
						s := []string{}
						for k := range m {
							s = append(s, pname+"."+k)
						}
						sort.Strings(s)
						return s
					}
					facts = append(facts, fnFacts{Name: name, Writes: q(w), Reads: q(r), Escapes: q(esc)})
				}
			}
		}
	}
	sort.Slice(facts, func(i, j int) bool { return facts[i].Name < facts[j].Name })
	var all []string
	for p, vs := range globals {
		for _, v := range vs {
			all = append(all, p+"."+v)
		}
	}
	sort.Strings(all)
	set := func(s []string) string {
		q := []string{}
		for _, x := range s {
			q = append(q, fmt.Sprintf("%q", x))
		}
		return "{" + strings.Join(q, ", ") + "}"
	}
	var b strings.Builder
	b.WriteString("---------------------------- MODULE GlobalsGen ----------------------------\n")
	b.WriteString("(* GENERATED by `vdrive conc globals` from the non-test sources of the repository: package-level variables and, for *)\n")
	b.WriteString("(* every function other than init that mentions one, the variables it writes and reads. Do not edit.                *)\n")
	b.WriteString("Globals == " + set(all) + "\n")
	names := []string{}
	for _, f := range facts {
		names = append(names, f.Name)
	}
	b.WriteString("FnNames == " + set(names) + "\n")
	wr := func(title string, sel func(fnFacts) []string) {
		b.WriteString(title + " == [f \\in FnNames |->\n    CASE ")
		for i, f := range facts {
			if i > 0 {
				b.WriteString("\n      [] ")
			}
			b.WriteString(fmt.Sprintf("f = %q -> %s", f.Name, set(sel(f))))
		}
		if len(facts) == 0 {
			b.WriteString("FALSE -> {}")
		}
		b.WriteString("]\n")
	}
	wr("WritesOf", func(f fnFacts) []string { return f.Writes })
	wr("ReadsOf", func(f fnFacts) []string { return f.Reads })
	b.WriteString("=============================================================================\n")
	if *out != "" {
		if err := os.WriteFile(*out, []byte(b.String()), 0o644); err != nil {
			fmt.Fprintln(os.Stderr, err)
			os.Exit(2)
		}
	}
	writers := []fnFacts{}
	escapers := []fnFacts{}
	for _, f := range facts {
		if len(f.Writes) > 0 {
			writers = append(writers, f)
		}
		if len(f.Escapes) > 0 {
			escapers = append(escapers, f)
		}
	}
	json.NewEncoder(os.Stdout).Encode(map[string]interface{}{"suite": "conc", "mode": "globals", "globals": len(all), "functions_touching_globals": len(facts),
		"writers": writers, "escapers": escapers})
}

func init() { reg.Register("conc", "globals", Globals) }
