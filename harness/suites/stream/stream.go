// Package stream drives buffer.StreamLexer (property C13) with scripted readers: scenarios come either from
// TLC (behaviours of spec/stream/StreamImpl.tla) or from a seeded random driver; every execution is written as
// a trace, including each underlying Reader.Read call, for spec/stream/StreamTrace.tla to judge.
package stream

import (
	"bytes"
	"encoding/json"
	"errors"
	"flag"
	"fmt"
	"io"
	"math/rand"
	"os"
	"time"

	"github.com/tdewolff/parse/v2/buffer"

	"verif/harness/internal/reg"
	"verif/harness/internal/tr"
	"verif/harness/internal/wd"
)

var errBoom = errors.New("boom")

// rstep is one answer of the scripted reader: deliver N bytes (capped by what was asked and what is left);
// End: also return the final error with this call.
type rstep struct {
	N   int  `json:"n"`
	End bool `json:"end"`
}

// scriptReader delivers `data` following `sched`; when the schedule is exhausted it delivers everything that
// fits, and the final error alone afterwards. Every call is logged as a Read event.
type scriptReader struct {
	w       *tr.Writer
	data    []byte
	off     int
	sched   []rstep
	endKind string
	calls   int
	ended   bool
	hang    bool
}

func (r *scriptReader) endErr() error {
	if r.endKind == "fail" {
		return errBoom
	}
	return io.EOF
}

func (r *scriptReader) Read(p []byte) (n int, err error) {
	r.calls++
	if r.calls > 100000 {
		r.hang = true
		panic("scriptReader: too many Read calls (no progress)")
	}
	left := len(r.data) - r.off
	var st rstep
	if len(r.sched) > 0 {
		st, r.sched = r.sched[0], r.sched[1:]
	} else {
		st = rstep{N: len(p), End: false}
		if left == 0 {
			st.End = true
		}
	}
	n = st.N
	if n > len(p) {
		n = len(p)
	}
	if n > left {
		n = left
	}
	if r.ended {
		n = 0
	}
	copy(p, r.data[r.off:r.off+n])
	bs := tr.Ints(r.data[r.off : r.off+n])
	r.off += n
	e := "nil"
	if r.ended || (st.End && r.off == len(r.data)) {
		err = r.endErr()
		e = r.endKind
		r.ended = true
	}
	r.w.Ev("Read", tr.E{"want": len(p), "bs": bs, "e": e})
	return n, err
}

type bytesReader struct{ b []byte }

func (r *bytesReader) Read(p []byte) (int, error) { return 0, io.EOF }
func (r *bytesReader) Bytes() []byte              { return r.b }

type live struct {
	id   int
	s    []byte
	want []byte
	hi   int
}

type op struct {
	Op string `json:"op"`
	K  int    `json:"k"`
	N  int    `json:"n"`
	M  int    `json:"m"`
}

type scenario struct {
	Mode          string  `json:"mode"` // "reader" | "bytes"
	Data          []int   `json:"data"`
	EndKind       string  `json:"endKind"`
	Size          int     `json:"size"`
	Sched         []rstep `json:"sched"`
	Ops           []op    `json:"ops"`
	NoTrackLexeme bool    `json:"noTrackLexeme"`
	Exp           []int   `json:"exp,omitempty"`  // results the implementation-shaped model predicts, one per op (-1: none)
	MemK          *int    `json:"memk,omitempty"` // Free discipline promised by this scenario (Stream.tla: memk); nil: none
}

type runner struct {
	w     *tr.Writer
	z     *buffer.StreamLexer
	data  []byte
	lives []live
	nid   int
	// the harness's own arithmetic of absolute positions, used to stay within the contract and to judge `same`
	absStart, absPos, freed, reported int
	// Lexeme() slices are watched for stability only when set (a recorded finding concerns exactly those slices;
	// traces that do not watch them keep exploring past it)
	trackLexeme bool
}

func (x *runner) broken() []int {
	b := []int{}
	keep := x.lives[:0]
	for _, l := range x.lives {
		if !bytes.Equal(l.s, l.want) {
			b = append(b, l.id)
		}
		if x.freed < l.hi {
			keep = append(keep, l)
		}
	}
	x.lives = keep
	if len(x.lives) > 48 {
		x.lives = x.lives[len(x.lives)-48:]
	}
	return b
}

func start(w *tr.Writer, sc *scenario) *runner {
	data := make([]byte, len(sc.Data))
	for i, v := range sc.Data {
		data[i] = byte(v)
	}
	x := &runner{w: w, data: data, trackLexeme: !sc.NoTrackLexeme}
	memk := -1
	if sc.MemK != nil {
		memk = *sc.MemK
	}
	w.Ev("New", tr.E{"mode": sc.Mode, "data": sc.Data, "endKind": sc.EndKind, "size": sc.Size, "noTrackLexeme": sc.NoTrackLexeme, "memk": memk})
	if sc.Mode == "bytes" {
		x.z = buffer.NewStreamLexerSize(&bytesReader{append([]byte{}, data...)}, sc.Size)
	} else {
		x.z = buffer.NewStreamLexerSize(&scriptReader{w: w, data: data, sched: append([]rstep{}, sc.Sched...), endKind: sc.EndKind}, sc.Size)
	}
	return x
}

// do performs one call; returns the event and an int result (for comparison with the model's prediction).
func (x *runner) do(o op) (ev tr.E, res int) {
	ev = tr.E{}
	res = -1
	defer func() {
		if r := recover(); r != nil {
			ev["out"] = "panic"
			ev["panic"] = fmt.Sprint(r)
			ev["broken"] = []int{}
		}
		x.w.Ev(o.Op, ev)
	}()
	z := x.z
	switch o.Op {
	case "Peek":
		ev["k"] = o.K
		res = int(z.Peek(o.K))
		ev["r"] = res
	case "PeekRune":
		ev["k"] = o.K
		r, n := z.PeekRune(o.K)
		ev["r"], ev["n"] = int(r), n
		res = n
	case "Err":
		err := z.Err()
		switch {
		case err == nil:
			ev["e"], res = "nil", 0
		case err == io.EOF:
			ev["e"], res = "eof", 1
		case err == errBoom:
			ev["e"], res = "fail", 2
		default:
			ev["e"] = "other:" + err.Error()
		}
	case "Pos":
		res = z.Pos()
		ev["r"] = res
	case "Move":
		ev["n"] = o.N
		z.Move(o.N)
		x.absPos += o.N
	case "Rewind":
		ev["m"] = o.M
		z.Rewind(o.M)
		x.absPos = x.absStart + o.M
	case "Lexeme", "Shift":
		var s []byte
		if o.Op == "Lexeme" {
			s = z.Lexeme()
		} else {
			s = z.Shift()
		}
		x.nid++
		ev["id"] = x.nid
		ev["n"] = len(s)
		res = len(s)
		same := x.absPos <= len(x.data) && x.absStart <= x.absPos && bytes.Equal(s, x.data[x.absStart:x.absPos])
		ev["same"] = same
		watch := len(s) > 0 && (o.Op == "Shift" || x.trackLexeme)
		ev["watch"] = watch
		if watch {
			x.lives = append(x.lives, live{x.nid, s, append([]byte{}, s...), x.absPos})
		}
		if o.Op == "Shift" {
			x.absStart = x.absPos
		}
	case "Skip":
		z.Skip()
		x.absStart = x.absPos
	case "Free":
		ev["n"] = o.N
		z.Free(o.N)
		x.freed += o.N
	case "ShiftLen":
		res = z.ShiftLen()
		ev["r"] = res
		x.reported = x.absStart
	case "Held":
		h := held(z)
		if h < 0 {
			h = 0
		}
		ev["bytes"] = h
		res = h
	default:
		panic("unknown op " + o.Op)
	}
	ev["broken"] = x.broken()
	return ev, res
}

type summary struct {
	Suite      string        `json:"suite"`
	Mode       string        `json:"mode"`
	Cases      int           `json:"cases"`
	Executions int           `json:"executions"`
	Mismatches int           `json:"mismatches"`
	Traces     int           `json:"traces"`
	Events     int           `json:"events"`
	Nontrivial int           `json:"distinct_nontrivial"`
	Refills    int           `json:"executions_with_refill"`
	Hooks      bool          `json:"hooks"`
	Samples    []interface{} `json:"samples"`
	Drift      []interface{} `json:"drift_samples"`
}

// Replay runs scenarios emitted by TLC (behaviours of StreamImpl) on the real StreamLexer.
func Replay(args []string) {
	fs := flag.NewFlagSet("stream replay", flag.ExitOnError)
	cases := fs.String("cases", "", "ndjson scenarios")
	out := fs.String("out", "", "trace file")
	sample := fs.Int("sample", 200, "keep the trace of every n-th execution that agrees with the model (all others that differ are kept)")
	fs.Parse(args)
	wd.Start(*out+".hang", 20*time.Second)
	w := tr.NewWriter(*out)
	sum := summary{Suite: "stream", Mode: "replay", Hooks: hooksOn}
	seen := map[string]bool{}
	tid := 0
	err := tr.ReadCases(*cases, func(line int, raw []byte) {
		var sc scenario
		if err := json.Unmarshal(raw, &sc); err != nil {
			fmt.Fprintln(os.Stderr, "bad scenario:", err, string(raw))
			os.Exit(2)
		}
		sum.Cases++
		if seen[string(raw)] {
			return
		}
		seen[string(raw)] = true
		tid++
		sum.Executions++
		wd.Case(sc)
		w.Begin(tid)
		x := start(w, &sc)
		mism := false
		for i, o := range sc.Ops {
			if !hooksOn && o.Op == "Held" {
				continue
			}
			ev, res := x.do(o)
			if ev["out"] != "ret" {
				mism = true
				break
			}
			if i < len(sc.Exp) && sc.Exp[i] != -1 && sc.Exp[i] != res {
				mism = true
			}
			if b, _ := ev["broken"].([]int); len(b) > 0 || ev["same"] == false {
				mism = true // the model predicts that no watched slice changes
			}
		}
		if mism {
			sum.Mismatches++
			if len(sum.Drift) < 5 {
				sum.Drift = append(sum.Drift, sc)
			}
		}
		if len(sc.Sched) > 1 {
			sum.Nontrivial++
		}
		if len(sum.Samples) < 2 {
			sum.Samples = append(sum.Samples, sc)
		}
		w.End(mism || tid%*sample == 0)
	})
	if err != nil {
		fmt.Fprintln(os.Stderr, "replay:", err)
		os.Exit(2)
	}
	w.Close()
	sum.Traces, sum.Events = w.Traces, w.Events
	json.NewEncoder(os.Stdout).Encode(sum)
}

var frags = [][]byte{{'a'}, {'b'}, {0}, {' '}, {0xC3, 0xA9}, {0xE2, 0x80, 0xA8}, {0xF0, 0x9F, 0x98, 0x80}, {0xFF}, {0x80}, {'x', 'y', 'z'},
	{0xC2, 0x80}, {0xDF, 0xBF}, {0xE0, 0xA0, 0x80}, {0xED, 0x9F, 0xBF}, {0xEE, 0x80, 0x80}, {0xEF, 0xBF, 0xBF}, {0xF0, 0x90, 0x80, 0x80}, {0xF4, 0x8F, 0xBF, 0xBF}}

// Record drives random contract-respecting histories over random reader schedules.
func Record(args []string) {
	fs := flag.NewFlagSet("stream record", flag.ExitOnError)
	out := fs.String("out", "", "trace file")
	n := fs.Int("n", 500, "number of traces")
	steps := fs.Int("steps", 60, "calls per trace")
	seed := fs.Int64("seed", 1, "seed")
	long := fs.Int("long", 0, "additionally this many long-stream traces for the memory clause")
	fs.Parse(args)
	wd.Start(*out+".hang", 60*time.Second)
	rng := rand.New(rand.NewSource(*seed))
	w := tr.NewWriter(*out)
	sum := summary{Suite: "stream", Mode: "record", Hooks: hooksOn}
	seen := map[string]bool{}
	sizes := []int{0, 1, 2, 3, 4, 5, 8, 16, 64, 4096}
	for t := 1; t <= *n+*long; t++ {
		isLong := t > *n
		sc := scenario{Mode: "reader", EndKind: "eof"}
		nfr := rng.Intn(12)
		// long streams (memory clause): Free discipline and buffer size in rotation -- at once / one / three tokens late, with a
		// small buffer so that the stream is many times the bound of Stream.tla, plus one larger size
		longLag, longSize := 0, 16
		if isLong {
			longLag = []int{0, 1, 3, 0, 1, 3}[(t-*n-1)%6]
			longSize = []int{16, 16, 16, 256, 64, 64}[(t-*n-1)%6]
			nfr = 4000 + rng.Intn(2000)
			// the delayed disciplines with the smallest buffer: a stream several times their (larger) bound, so that memory
			// that grows with the stream -- however slowly -- ends above it
			if longSize == 16 && longLag == 1 {
				nfr = 15000 + rng.Intn(2000)
			} else if longSize == 16 && longLag == 3 {
				nfr = 30000 + rng.Intn(2000)
			}
		}
		var data []byte
		for i := 0; i < nfr; i++ {
			data = append(data, frags[rng.Intn(len(frags))]...)
		}
		sc.Data = tr.Ints(data)
		sc.Size = sizes[rng.Intn(len(sizes))]
		if isLong {
			sc.Size = longSize
		}
		switch rng.Intn(10) {
		case 0:
			sc.Mode = "bytes"
		case 1, 2:
			sc.EndKind = "fail"
		}
		// reader schedule
		chunk := rng.Intn(6) // 0: everything at once, k: chunks of k, 5: random
		left := len(data)
		for left > 0 && !isLong {
			k := chunk
			if chunk == 0 {
				k = left
			} else if chunk == 5 {
				k = 1 + rng.Intn(4)
			}
			if k > left {
				k = left
			}
			if rng.Intn(6) == 0 {
				sc.Sched = append(sc.Sched, rstep{N: 0})
			}
			left -= k
			sc.Sched = append(sc.Sched, rstep{N: k, End: left == 0 && rng.Intn(2) == 0})
		}
		if isLong {
			// reader schedule of the long streams, in rotation against lag and size: large reads, always 5 bytes, 1 to 4 bytes
			// (how much a read delivers decides how often the buffer is refilled between two tokens)
			idx := t - *n - 1
			style := ([]int{0, 1, 2, 1, 2, 0}[idx%6] + idx/6) % 3
			for left > 0 {
				k := 1 + rng.Intn(300)
				if style == 1 {
					k = 5
				} else if style == 2 {
					k = 1 + rng.Intn(4)
				}
				if k > left {
					k = left
				}
				left -= k
				if style == 2 && len(sc.Sched)%8 == 7 {
					sc.Sched = append(sc.Sched, rstep{N: 0}) // a read that delivers nothing yet (hundreds over the stream)
				}
				sc.Sched = append(sc.Sched, rstep{N: k})
			}
		}
		sc.NoTrackLexeme = rng.Intn(3) > 0
		disc := rng.Intn(3) // 0 never, 1 immediately, 2 delayed
		if isLong {
			disc = 1
		}
		wd.Case(map[string]interface{}{"mode": sc.Mode, "size": sc.Size, "endKind": sc.EndKind, "sched": sc.Sched, "data": sc.Data, "note": "random history; ops are in the trace so far"})
		lag := 0
		if isLong {
			lag = longLag
		}
		if isLong || disc == 1 { // the memory clause: only where every shifted token is freed, at once or after `lag` later tokens
			sc.MemK = &lag
		}
		w.Begin(t)
		x := start(w, &sc)
		sum.Executions++
		N := len(data)
		nsteps := *steps
		if isLong {
			nsteps = 1 << 30
		}
		peeked := 0 // how far ahead of absPos a Peek has looked without seeing the end
		var pending []int
		for s := 0; s < nsteps; s++ {
			var o op
			if isLong {
				// tokenise: peek a few bytes, move, shift, free at once; stop at the end
				if x.absPos >= N {
					break
				}
				tl := 1 + rng.Intn(12)
				if x.absPos+tl > N {
					tl = N - x.absPos
				}
				ok := true
				for i := 0; i < tl && ok; i++ {
					if s >= 1500 && i < tl-1 {
						continue // later tokens: look at their last byte only (keeps the long traces short)
					}
					ev, _ := x.do(op{Op: "Peek", K: i})
					ok = ev["out"] == "ret"
				}
				x.do(op{Op: "Move", N: tl})
				x.do(op{Op: "Shift"})
				ev, r := x.do(op{Op: "ShiftLen"})
				if ev["out"] != "ret" || r < 0 || x.freed+r > x.absStart {
					break
				}
				// Free discipline of the long streams: at once, or each token only after `lag` later tokens have been shifted
				// (a parser that looks at the previous token): every shifted token is freed, so the memory clause applies
				pending = append(pending, r)
				for len(pending) > lag {
					x.do(op{Op: "Free", N: pending[0]})
					pending = pending[1:]
				}
				if s%64 == 0 {
					x.do(op{Op: "Held"})
				}
				continue
			}
			switch c := rng.Intn(20); {
			case c < 5:
				o = op{Op: "Peek", K: rng.Intn(4)}
				if x.absPos+o.K > N {
					o.K = N - x.absPos
				}
			case c < 7:
				o = op{Op: "PeekRune", K: rng.Intn(3)}
				if x.absPos+o.K > N {
					o.K = N - x.absPos
				}
			case c < 10:
				max := N - x.absPos
				if max > 4 {
					max = 4
				}
				lo := x.absStart - x.absPos
				if lo < -2 {
					lo = -2
				}
				o = op{Op: "Move", N: lo + rng.Intn(max-lo+1)}
			case c < 12:
				o = op{Op: "Shift"}
			case c == 12:
				o = op{Op: "Skip"}
			case c == 13:
				o = op{Op: "Lexeme"}
			case c == 14:
				o = op{Op: "Err"}
			case c == 15:
				o = op{Op: "Pos"}
			case c == 16:
				m := N - x.absStart
				if m > 5 {
					m = 5
				}
				o = op{Op: "Rewind", M: rng.Intn(m + 1)}
			case c == 17:
				o = op{Op: "ShiftLen"}
			case c == 18:
				if !hooksOn {
					continue
				}
				o = op{Op: "Held"}
			default:
				if disc == 0 {
					continue
				}
				o = op{Op: "Free", N: rng.Intn(x.absStart - x.freed + 1)}
			}
			_ = peeked
			ev, _ := x.do(o)
			if ev["out"] != "ret" {
				break
			}
			if disc == 1 && (o.Op == "Shift" || o.Op == "Skip") && x.absStart > x.freed {
				x.do(op{Op: "Free", N: x.absStart - x.freed})
			}
		}
		if hooksOn {
			x.do(op{Op: "Held"})
		}
		x.do(op{Op: "Err"})
		key := fmt.Sprint(sc.Mode, sc.Size, sc.EndKind, sc.Sched, len(data))
		if len(sc.Sched) > 1 && !seen[key] {
			seen[key] = true
			sum.Nontrivial++
		}
		if len(sum.Samples) < 2 && !isLong {
			sum.Samples = append(sum.Samples, map[string]interface{}{"mode": sc.Mode, "size": sc.Size, "endKind": sc.EndKind, "sched": sc.Sched, "data": sc.Data, "free_discipline": disc})
		}
		w.End(true)
	}
	w.Close()
	sum.Traces, sum.Events = w.Traces, w.Events
	json.NewEncoder(os.Stdout).Encode(sum)
}

// Rerun re-executes the calls of one recorded trace on the current code (reproduction and --replay).
func Rerun(args []string) {
	fs := flag.NewFlagSet("stream rerun", flag.ExitOnError)
	in := fs.String("trace", "", "JSON array of events")
	out := fs.String("out", "", "trace file")
	fs.Parse(args)
	raw, err := os.ReadFile(*in)
	if err != nil {
		fmt.Fprintln(os.Stderr, err)
		os.Exit(2)
	}
	var evs []map[string]interface{}
	if err := json.Unmarshal(raw, &evs); err != nil || len(evs) == 0 {
		fmt.Fprintln(os.Stderr, "bad trace", err)
		os.Exit(2)
	}
	num := func(e map[string]interface{}, k string) int {
		if v, ok := e[k].(float64); ok {
			return int(v)
		}
		return 0
	}
	n0 := evs[0]
	sc := scenario{Mode: n0["mode"].(string), EndKind: n0["endKind"].(string), Size: num(n0, "size"), NoTrackLexeme: n0["noTrackLexeme"] == true}
	if v, ok := n0["memk"].(float64); ok && v >= 0 {
		k := int(v)
		sc.MemK = &k
	}
	for _, v := range n0["data"].([]interface{}) {
		sc.Data = append(sc.Data, int(v.(float64)))
	}
	// reconstruct the reader's schedule from the Read events
	for _, e := range evs[1:] {
		if e["ev"] == "Read" {
			bs, _ := e["bs"].([]interface{})
			sc.Sched = append(sc.Sched, rstep{N: len(bs), End: e["e"] != "nil"})
		}
	}
	w := tr.NewWriter(*out)
	w.Begin(1)
	x := start(w, &sc)
	for _, e := range evs[1:] {
		name := e["ev"].(string)
		if name == "Read" {
			continue
		}
		if name == "Held" && !hooksOn {
			continue
		}
		ev, _ := x.do(op{Op: name, K: num(e, "k"), N: num(e, "n"), M: num(e, "m")})
		if ev["out"] != "ret" {
			break
		}
	}
	w.End(true)
	w.Close()
	json.NewEncoder(os.Stdout).Encode(summary{Suite: "stream", Mode: "rerun", Executions: 1, Traces: 1, Events: w.Events})
}

func init() {
	reg.Register("stream", "replay", Replay)
	reg.Register("stream", "record", Record)
	reg.Register("stream", "rerun", Rerun)
}
