//go:build verif

package stream

import "github.com/tdewolff/parse/v2/buffer"

const hooksOn = true

func held(z *buffer.StreamLexer) int { return z.VerifHeld() }
