//go:build !verif

package stream

import "github.com/tdewolff/parse/v2/buffer"

const hooksOn = false

func held(z *buffer.StreamLexer) int { return -1 }
