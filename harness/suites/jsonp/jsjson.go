package jsonp

import (
	"bytes"
	stdjson "encoding/json"
	"flag"
	"fmt"
	"math/rand"
	"os"
	"reflect"
	"regexp"
	"sort"
	"strings"

	"github.com/tdewolff/parse/v2"
	"github.com/tdewolff/parse/v2/js"
	"verif/harness/internal/reg"
	"verif/harness/internal/tr"
)

// growth (spec/json/JsJson.tla): JSON documents derived by JsonGrammar.tla, and JavaScript respellings of the same value,
// through js.Parse and AST.JSON.

type jtok struct{ cls, text string }

var identKey = regexp.MustCompile(`^"[A-Za-z_$][A-Za-z0-9_$]*"$`)

// respell returns JavaScript spellings of the token list that denote the same value; which: the transformation's name.
func respell(toks []jtok, rng *rand.Rand) map[string][]jtok {
	out := map[string][]jtok{}
	cp := func() []jtok { return append([]jtok{}, toks...) }
	// single-quoted strings: \" -> ", ' -> \'
	{
		t, ch := cp(), false
		for i := range t {
			if t[i].cls == "str" {
				body := t[i].text[1 : len(t[i].text)-1]
				var b strings.Builder
				for k := 0; k < len(body); k++ {
					switch {
					case body[k] == '\\' && k+1 < len(body) && body[k+1] == '"':
						b.WriteByte('"')
						k++
					case body[k] == '\\' && k+1 < len(body):
						b.WriteByte(body[k])
						b.WriteByte(body[k+1])
						k++
					case body[k] == '\'':
						b.WriteString(`\'`)
					default:
						b.WriteByte(body[k])
					}
				}
				t[i].text = "'" + b.String() + "'"
				ch = true
			}
		}
		if ch {
			out["single-quoted-strings"] = t
		}
	}
	// template literals for strings without escapes, back-ticks or '$'
	{
		t, ch := cp(), false
		for i := range t {
			if t[i].cls == "str" && !strings.ContainsAny(t[i].text, "\\`$") && !(i+1 < len(t) && t[i+1].cls == "colon") {
				t[i].text = "`" + t[i].text[1:len(t[i].text)-1] + "`"
				ch = true
			}
		}
		if ch {
			out["template-strings"] = t
		}
	}
	// unquoted keys
	{
		t, ch := cp(), false
		for i := range t {
			if t[i].cls == "str" && i+1 < len(t) && t[i+1].cls == "colon" && identKey.MatchString(t[i].text) {
				t[i].text = t[i].text[1 : len(t[i].text)-1]
				ch = true
			}
		}
		if ch {
			out["unquoted-keys"] = t
		}
	}
	// trailing commas
	{
		var t []jtok
		ch := false
		for i := range toks {
			if (toks[i].cls == "rbrack" || toks[i].cls == "rbrace") && i > 0 && toks[i-1].cls != "lbrack" && toks[i-1].cls != "lbrace" {
				t = append(t, jtok{"comma", ","})
				ch = true
			}
			t = append(t, toks[i])
		}
		if ch {
			out["trailing-commas"] = t
		}
	}
	// number forms of JavaScript
	{
		t, ch := cp(), false
		for i := range t {
			if t[i].cls != "num" {
				continue
			}
			s := t[i].text
			switch {
			case strings.HasPrefix(s, "0.") && !strings.ContainsAny(s, "eE"):
				t[i].text, ch = s[1:], true // 0.5 -> .5
			case !strings.ContainsAny(s, ".eE-") && len(s) >= 2:
				t[i].text, ch = s[:1]+"_"+s[1:], true // 12 -> 1_2
			case !strings.ContainsAny(s, ".eE"):
				t[i].text, ch = s+".", true // 7 -> 7.   -0 -> -0.
			}
		}
		if ch {
			out["js-number-forms"] = t
		}
	}
	// comments between the tokens
	{
		var t []jtok
		for i := range toks {
			if i > 0 && rng.Intn(2) == 0 {
				t = append(t, jtok{"cmt", []string{"/* c */", "/**/", "// l\n"}[rng.Intn(3)]})
			}
			t = append(t, toks[i])
		}
		if len(t) > len(toks) {
			out["comments"] = t
		}
	}
	return out
}

func joinToks(t []jtok) []byte {
	var b bytes.Buffer
	for _, x := range t {
		b.WriteString(x.text)
	}
	return b.Bytes()
}

func convOne(w *tr.Writer, tid int, text, doc []byte, origin, which string) bool {
	var want interface{}
	if stdjson.Unmarshal(doc, &want) != nil {
		return true
	}
	w.Begin(tid)
	w.Ev("Open", tr.E{"origin": origin, "which": which, "text": tr.Ints(text), "doc": tr.Ints(doc)})
	ev := tr.E{"parsed": false, "err": true, "valid": false, "same": false, "o": []int{}}
	func() {
		defer func() {
			if x := recover(); x != nil {
				ev["out"], ev["panic"] = "panic", fmt.Sprint(x)
			}
		}()
		ast, err := js.Parse(parse.NewInputString("("+string(text)+")"), js.Options{})
		if err != nil {
			ev["etext"] = strings.SplitN(err.Error(), "\n", 2)[0]
			return
		}
		ev["parsed"] = true
		s, jerr := ast.JSONString()
		ev["err"] = jerr != nil
		if jerr != nil {
			ev["etext"] = strings.SplitN(jerr.Error(), "\n", 2)[0]
			return
		}
		ev["o"] = tr.Ints([]byte(s))
		ev["valid"] = stdjson.Valid([]byte(s))
		var got interface{}
		if stdjson.Unmarshal([]byte(s), &got) == nil {
			ev["same"] = reflect.DeepEqual(got, want)
		}
	}()
	w.Ev("Conv", ev)
	ok := ev["out"] != "panic" && ev["parsed"] == true && (origin != "json" || ev["err"] == false) && (ev["err"] == true || ev["valid"] == true && ev["same"] == true)
	w.End(true)
	return ok
}

// JsJson: -cases from JsonGrammar.tla (only the grammatical ones are used).
func JsJson(args []string) {
	fs := flag.NewFlagSet("jsonp jsjson", flag.ExitOnError)
	cases := fs.String("cases", "", "ndjson {toks, grammatical}")
	out := fs.String("out", "", "trace file")
	seed := fs.Int64("seed", 1, "seed")
	variants := fs.Int("variants", 2, "spellings per case")
	fs.Parse(args)
	rng := rand.New(rand.NewSource(*seed))
	w := tr.NewWriter(*out)
	sum := map[string]interface{}{"suite": "jsonp", "mode": "jsjson"}
	seen := map[string]bool{}
	n, exec, mism := 0, 0, 0
	byWhich := map[string]int{}
	tid := 0
	err := tr.ReadCases(*cases, func(line int, raw []byte) {
		var c struct {
			Toks        []string `json:"toks"`
			Grammatical bool     `json:"grammatical"`
		}
		if stdjson.Unmarshal(raw, &c) != nil || !c.Grammatical || len(c.Toks) == 0 {
			return
		}
		n++
		for v := 0; v < *variants; v++ {
			var toks []jtok
			for _, t := range c.Toks {
				s := spell[t]
				toks = append(toks, jtok{t, s[rng.Intn(len(s))]})
			}
			doc := joinToks(toks)
			if seen[string(doc)] || !stdjson.Valid(doc) {
				continue
			}
			seen[string(doc)] = true
			tid++
			exec++
			byWhich["json"]++
			if !convOne(w, tid, doc, doc, "json", "") {
				mism++
			}
			rs := respell(toks, rng)
			names := []string{}
			for which := range rs {
				names = append(names, which)
			}
			sort.Strings(names)
			for _, which := range names {
				t := rs[which]
				text := joinToks(t)
				if seen[string(text)] {
					continue
				}
				seen[string(text)] = true
				tid++
				exec++
				byWhich[which]++
				if !convOne(w, tid, text, doc, "respelled", which) {
					mism++
				}
			}
		}
	})
	if err != nil {
		fmt.Fprintln(os.Stderr, err)
		os.Exit(2)
	}
	w.Close()
	sum["cases"], sum["executions"], sum["mismatches"], sum["traces"], sum["events"], sum["by_origin"] = n, exec, mism, w.Traces, w.Events, byWhich
	stdjson.NewEncoder(os.Stdout).Encode(sum)
}

func init() { reg.Register("jsonp", "jsjson", JsJson) }
