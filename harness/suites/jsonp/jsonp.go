// Package jsonp drives json.Parser (property C10): documents whose skeletons TLC derives from the RFC 8259 grammar
// (spec/json/JsonGrammar.tla), every sequence of token classes up to a length, and mutated documents; each call is
// recorded with the unit's location in the input, State() before and after, and the non-whitespace bytes between
// consecutive units, for spec/json/JsonTrace.tla to judge.
package jsonp

import (
	"strings"
	"bytes"
	stdjson "encoding/json"
	"flag"
	"fmt"
	"io"
	"math/rand"
	"os"
	"unsafe"

	"github.com/tdewolff/parse/v2"
	"github.com/tdewolff/parse/v2/json"

	"verif/harness/internal/reg"
	"verif/harness/internal/tr"
)

var spell = map[string][]string{
	"lbrace": {"{"}, "rbrace": {"}"}, "lbrack": {"["}, "rbrack": {"]"}, "comma": {","}, "colon": {":"},
	"str":  {`""`, `"a"`, `"\""`, `"\\"`, `"\/"`, `"\b\f\n\r\t"`, `"é😀"`, `"x\\"`, `"é😀"`, `" a b "`, `"\\\""`, `"{}[],:"`, `"a\\\\"`},
	"num":  {"0", "-0", "7", "12", "0.5", "-1.25", "1e3", "1E+3", "2e-2", "0e1", "0E5", "-0e-2", "10.01e+10", "9007199254740993"},
	"lit":  {"true", "false", "null"},
	"junk": {"x", "'a'", "tru", "01", "1.", "-", ".5", "\"a", "\x00", "\xff", "+1", "1e", "nul", "/*c*/", "\"\n\""},
}
var wsForms = []string{"", "", " ", "\n", "\t", "\r\n", "  \t "}

func concretise(toks []string, rng *rand.Rand, ws bool) []byte {
	var b []byte
	put := func() {
		if ws {
			b = append(b, wsForms[rng.Intn(len(wsForms))]...)
		}
	}
	for _, t := range toks {
		put()
		s, ok := spell[t]
		if !ok {
			fmt.Fprintln(os.Stderr, "unknown token class", t)
			os.Exit(2)
		}
		b = append(b, s[rng.Intn(len(s))]...)
	}
	put()
	return b
}

func isWS(c byte) bool { return c == ' ' || c == '\t' || c == '\n' || c == '\r' }

// run parses input and records the trace.
// bystanderDoc is parsed by a second, unrelated Parser that is alive while the observed one runs (one step between any two
// calls of the observed parser, started again at its end): parsers are independent values, so this changes nothing.
var bystanderDoc = []byte(`{"k":[{"x":1},[2,[3,{}]]],"m":{"n":null,"o":[]}}`)

func run(w *tr.Writer, input []byte, gen tr.E, bystander bool) (units int) {
	n := len(input)
	back := make([]byte, n, n+1)
	copy(back, input)
	in := parse.NewInputBytes(back)
	var base uintptr
	if n > 0 {
		base = uintptr(unsafe.Pointer(&back[0]))
	}
	valid := stdjson.Valid(input)
	var compact bytes.Buffer
	if valid {
		if err := stdjson.Compact(&compact, input); err != nil {
			valid = false
		}
	}
	open := tr.E{"len": n, "input": tr.Ints(input), "valid": valid, "compact": tr.Ints(compact.Bytes())}
	for k, v := range gen {
		open[k] = v
	}
	open["bystander"] = bystander
	w.Ev("Open", open)
	var other *json.Parser
	stepOther := func() {
		if !bystander {
			return
		}
		if other == nil {
			other = json.NewParser(parse.NewInputBytes(append([]byte{}, bystanderDoc...)))
		}
		if gt, _ := other.Next(); gt == json.ErrorGrammar {
			other = nil
		}
	}
	stepOther()
	p := json.NewParser(in)
	end := 0
	for calls := 0; calls < 4*n+16; calls++ {
		stepOther()
		ev := tr.E{}
		var gt json.GrammarType
		var data []byte
		sb := p.State().String()
		panicked := func() (pn bool) {
			defer func() {
				if x := recover(); x != nil {
					ev["out"], ev["panic"] = "panic", fmt.Sprint(x)
					pn = true
				}
			}()
			gt, data = p.Next()
			return false
		}()
		if panicked {
			w.Ev("Next", ev)
			return
		}
		err := p.Err()
		isErr := gt == json.ErrorGrammar
		ev["kname"], ev["err"], ev["eof"] = gt.String(), isErr, err == io.EOF
		ev["sb"], ev["sa"] = sb, p.State().String()
		ev["data"] = tr.Ints(data)
		if err != nil {
			ev["etext"] = firstLine(err.Error())
		}
		gap := []string{}
		lo, hi := -1, -1
		if len(data) > 0 && n > 0 {
			ptr := uintptr(unsafe.Pointer(&data[0]))
			if ptr >= base && ptr < base+uintptr(n) {
				lo = int(ptr - base)
				hi = lo + len(data)
			}
		}
		if !isErr {
			if lo < 0 {
				gap = append(gap, "notinput") // a unit that is not a piece of the input cannot be located
			} else {
				for i := end; i < lo && i < n; i++ {
					switch c := input[i]; {
					case isWS(c):
					case c == ',':
						gap = append(gap, "comma")
					case c == ':':
						gap = append(gap, "colon")
					default:
						gap = append(gap, "other")
					}
				}
				if lo < end {
					gap = append(gap, "overlap")
				}
				end = hi
			}
			units++
		}
		ev["lo"], ev["hi"], ev["gap"] = lo, hi, gap
		w.Ev("Next", ev)
		if isErr {
			break // C10 judges the units up to the first error report (what follows an error is C01's business)
		}
	}
	return
}

func firstLine(s string) string {
	if i := bytes.IndexByte([]byte(s), '\n'); i >= 0 {
		s = s[:i]
	}
	return s
}

type summary struct {
	Suite      string        `json:"suite"`
	Mode       string        `json:"mode"`
	Cases      int           `json:"cases"`
	Executions int           `json:"executions"`
	Traces     int           `json:"traces"`
	Events     int           `json:"events"`
	Nontrivial int           `json:"distinct_nontrivial"`
	Valid      int           `json:"valid_documents"`
	Samples    []interface{} `json:"samples"`
}

// Replay: skeletons / class sequences from TLC, several spellings each; grammatical ones are also mutated.
func Replay(args []string) {
	fs := flag.NewFlagSet("jsonp replay", flag.ExitOnError)
	cases := fs.String("cases", "", "ndjson {toks, grammatical}")
	out := fs.String("out", "", "trace file")
	seed := fs.Int64("seed", 1, "seed")
	variants := fs.Int("variants", 3, "spellings per case")
	muts := fs.Int("muts", 3, "mutations per grammatical case")
	fs.Parse(args)
	rng := rand.New(rand.NewSource(*seed))
	w := tr.NewWriter(*out)
	sum := summary{Suite: "jsonp", Mode: "replay"}
	seen := map[string]bool{}
	seenIn := map[string]bool{}
	tid := 0
	one := func(input []byte, gen tr.E) {
		if seenIn[string(input)] {
			return
		}
		seenIn[string(input)] = true
		tid++
		w.Begin(tid)
		sum.Executions++
		if stdjson.Valid(input) {
			sum.Valid++
		}
		if run(w, input, gen, tid%2 == 0) >= 3 {
			sum.Nontrivial++
		}
		w.End(true)
	}
	// deep documents (the grammar's derivations are short): containers nested around 64 levels and beyond, objects outside
	// arrays and the other way round, the outer container continuing after the deep part
	for _, n := range []int{31, 32, 33, 63, 64, 65, 66, 100, 257} {
		rep := strings.Repeat
		for _, d := range []string{
			rep(`{"a":`, n) + `1` + rep(`}`, n),
			`{"k":` + rep(`[`, n) + `1` + rep(`]`, n) + `,"l":2}`,
			rep(`[`, n) + `{"a":1,"b":[]}` + rep(`]`, n),
			`[` + rep(`{"a":[`, n) + rep(`]}`, n) + `,{"z":null}]`,
			`{"k":` + rep(`[`, n) + `1` + rep(`]`, n-1) + `}`, // one bracket short: the object's '}' closes an array
		} {
			one([]byte(d), tr.E{"deep": n})
		}
	}
	err := tr.ReadCases(*cases, func(line int, raw []byte) {
		var c struct {
			Toks        []string `json:"toks"`
			Grammatical bool     `json:"grammatical"`
		}
		if err := stdjson.Unmarshal(raw, &c); err != nil {
			fmt.Fprintln(os.Stderr, "bad case", err)
			os.Exit(2)
		}
		if seen[string(raw)] {
			return
		}
		seen[string(raw)] = true
		sum.Cases++
		for v := 0; v < *variants; v++ {
			input := concretise(c.Toks, rng, v > 0)
			if len(sum.Samples) < 3 && len(c.Toks) > 4 {
				sum.Samples = append(sum.Samples, map[string]interface{}{"toks": c.Toks, "input": string(input)})
			}
			one(input, tr.E{"toks": c.Toks})
			if c.Grammatical && v == 0 {
				for m := 0; m < *muts && len(c.Toks) > 1; m++ {
					t := append([]string{}, c.Toks...)
					i := rng.Intn(len(t))
					switch rng.Intn(4) {
					case 0: // delete a token (missing comma / colon / bracket)
						t = append(t[:i], t[i+1:]...)
					case 1: // swap a closer for the other kind
						switch t[i] {
						case "rbrack":
							t[i] = "rbrace"
						case "rbrace":
							t[i] = "rbrack"
						case "str":
							t[i] = []string{"num", "lit", "lbrack"}[rng.Intn(3)]
						default:
							t[i] = "junk"
						}
					case 2: // insert a token
						ins := []string{"comma", "colon", "rbrack", "rbrace", "str", "num", "junk"}[rng.Intn(7)]
						t = append(t[:i], append([]string{ins}, t[i:]...)...)
					default: // truncate
						t = t[:i]
					}
					one(concretise(t, rng, rng.Intn(2) == 0), tr.E{"toks": t, "mutated": true})
				}
			}
		}
	})
	if err != nil {
		fmt.Fprintln(os.Stderr, err)
		os.Exit(2)
	}
	w.Close()
	sum.Traces, sum.Events = w.Traces, w.Events
	stdjson.NewEncoder(os.Stdout).Encode(sum)
}

// File: run the inputs of an ndjson file {input:[bytes]} (rerun / --replay).
func File(args []string) {
	fs := flag.NewFlagSet("jsonp file", flag.ExitOnError)
	in := fs.String("in", "", "ndjson {input}")
	out := fs.String("out", "", "trace file")
	fs.Parse(args)
	w := tr.NewWriter(*out)
	sum := summary{Suite: "jsonp", Mode: "file"}
	tid := 0
	err := tr.ReadCases(*in, func(line int, raw []byte) {
		var c struct {
			Input     []int `json:"input"`
			Bystander bool  `json:"bystander"`
		}
		if err := stdjson.Unmarshal(raw, &c); err != nil {
			os.Exit(2)
		}
		b := make([]byte, len(c.Input))
		for i, v := range c.Input {
			b[i] = byte(v)
		}
		tid++
		w.Begin(tid)
		run(w, b, nil, c.Bystander)
		w.End(true)
		sum.Executions++
	})
	if err != nil {
		os.Exit(2)
	}
	w.Close()
	sum.Traces, sum.Events = w.Traces, w.Events
	stdjson.NewEncoder(os.Stdout).Encode(sum)
}

func init() {
	reg.Register("jsonp", "replay", Replay)
	reg.Register("jsonp", "file", File)
}
