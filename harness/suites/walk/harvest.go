package walk

import "verif/harness/suites/lexers"

func harvestLits(repo string) []string { return lexers.HarvestLiterals(repo)["js"] }
