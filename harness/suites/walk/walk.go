// Package walk drives js.Walk (property C18). Ground truth is built by reflection over the tree js.Parse returns
// (struct fields, slices, pointers, interfaces; scope tables and Var links are not part of the tree), independently
// of Walk; then Walk runs with a recording visitor under several policies and the Enter/Exit sequence is written as
// a trace for spec/js/WalkTrace.tla.
package walk

import (
	"encoding/json"
	"flag"
	"fmt"
	"hash/fnv"
	"math/rand"
	"os"
	"reflect"
	"strings"

	"github.com/tdewolff/parse/v2"
	"github.com/tdewolff/parse/v2/js"

	"verif/harness/internal/reg"
	"verif/harness/internal/tr"
)

var (
	tINode    = reflect.TypeOf((*js.INode)(nil)).Elem()
	tIStmt    = reflect.TypeOf((*js.IStmt)(nil)).Elem()
	tIExpr    = reflect.TypeOf((*js.IExpr)(nil)).Elem()
	tIBinding = reflect.TypeOf((*js.IBinding)(nil)).Elem()
	tScope    = reflect.TypeOf(js.Scope{})
	tVar      = reflect.TypeOf(js.Var{})
)

// node is one slot of the tree: a place where a node sits (the same *Var may sit in several slots).
type node struct {
	id     int
	parent int
	ptr    uintptr
	typ    reflect.Type // struct type
	val    reflect.Value
	req    bool
	kids   []int
}

type tree struct {
	nodes []*node // index id-1
}

func (t *tree) add(parent int, v reflect.Value) *node {
	// v: addressable struct value or pointer to struct
	if v.Kind() == reflect.Ptr {
		v = v.Elem()
	}
	n := &node{id: len(t.nodes) + 1, parent: parent, typ: v.Type(), val: v}
	if v.CanAddr() {
		n.ptr = v.UnsafeAddr()
	} // else: a struct held by value in an interface; it has no address of its own and is matched by content
	pt := reflect.PtrTo(v.Type())
	n.req = pt.Implements(tIStmt) || pt.Implements(tIExpr) || pt.Implements(tIBinding) || v.Type() == tVar
	if v.IsZero() {
		n.req = false // an empty placeholder struct (e.g. the unused literal of a computed property name) may be skipped
	}
	t.nodes = append(t.nodes, n)
	if parent > 0 {
		t.nodes[parent-1].kids = append(t.nodes[parent-1].kids, n.id)
	}
	return n
}

func isNodeStruct(t reflect.Type) bool {
	return t.Kind() == reflect.Struct && t.PkgPath() == tVar.PkgPath() && t != tScope && reflect.PtrTo(t).Implements(tINode)
}

// build walks the fields of struct value v (addressable), attaching the nodes found to slot `parent`.
func (t *tree) build(parent int, v reflect.Value) {
	if v.Type() == tVar {
		return // an identifier is a leaf; Link and the bookkeeping fields are scope business
	}
	for i := 0; i < v.NumField(); i++ {
		f := v.Field(i)
		ft := v.Type().Field(i)
		if ft.Type == tScope || (ft.Type.Kind() == reflect.Ptr && ft.Type.Elem() == tScope) || ft.PkgPath != "" {
			continue // scope tables, unexported fields
		}
		t.visit(parent, f)
	}
}

func (t *tree) visit(parent int, f reflect.Value) {
	switch f.Kind() {
	case reflect.Struct:
		if isNodeStruct(f.Type()) {
			n := t.add(parent, f)
			t.build(n.id, f)
		} else if f.Type().PkgPath() == tVar.PkgPath() && f.Type() != tScope {
			t.build(parent, f) // a plain struct of the package that is not a node itself: look inside
		}
	case reflect.Ptr:
		if !f.IsNil() && f.Type().Elem().Kind() == reflect.Struct && f.Type().Elem() != tScope {
			if isNodeStruct(f.Type().Elem()) {
				n := t.add(parent, f)
				t.build(n.id, f.Elem())
			}
		}
	case reflect.Interface:
		if !f.IsNil() {
			t.visit(parent, f.Elem())
		}
	case reflect.Slice:
		for j := 0; j < f.Len(); j++ {
			t.visit(parent, f.Index(j))
		}
	}
}

func groundTruth(ast *js.AST) *tree {
	t := &tree{}
	root := t.add(0, reflect.ValueOf(ast))
	t.build(root.id, reflect.ValueOf(ast).Elem())
	return t
}

// recorder is the visitor handed to Walk.
type recorder struct {
	w       *tr.Writer
	t       *tree
	stack   []int
	entered map[int]bool
	stop    func(id int, kind string) bool
	foreign int
}

// locate finds the slot that the pointer handed to Enter denotes: the first slot not yet entered, in the subtree of
// the innermost open node, with this address and type; failing that (Walk handed over a copy), a slot of that type
// with equal contents.
func (r *recorder) locate(n js.INode) (int, string) {
	v := reflect.ValueOf(n)
	kind := strings.TrimPrefix(v.Type().String(), "*js.")
	kind = strings.TrimPrefix(kind, "js.")
	var ptr uintptr
	var typ reflect.Type
	var content interface{}
	if v.Kind() == reflect.Ptr {
		if v.IsNil() {
			return -1, kind
		}
		ptr, typ, content = v.Pointer(), v.Type().Elem(), v.Elem().Interface()
	} else {
		typ, content = v.Type(), v.Interface() // a node handed over by value: it can only be matched by content
	}
	var start []int
	if len(r.stack) == 0 {
		start = []int{1}
	} else {
		start = r.t.nodes[r.stack[len(r.stack)-1]-1].kids
	}
	var byValue int
	queue := append([]int{}, start...)
	for len(queue) > 0 {
		id := queue[0]
		queue = queue[1:]
		nd := r.t.nodes[id-1]
		if !r.entered[id] && nd.typ == typ {
			if ptr != 0 && nd.ptr == ptr {
				return id, kind
			}
			if byValue == 0 && reflect.DeepEqual(nd.val.Interface(), content) {
				byValue = id
			}
		}
		if !r.entered[id] { // do not look below nodes that were already entered (their subtrees were handled)
			queue = append(queue, nd.kids...)
		}
	}
	if byValue != 0 {
		return byValue, kind
	}
	return -1, kind
}

func (r *recorder) Enter(n js.INode) js.IVisitor {
	id, kind := r.locate(n)
	cont := true
	if id > 0 {
		r.entered[id] = true
		cont = !r.stop(id, kind)
	} else {
		r.foreign++
	}
	r.w.Ev("Enter", tr.E{"id": id, "cont": cont, "kind": kind})
	if !cont {
		return nil
	}
	r.stack = append(r.stack, id)
	return r
}

func (r *recorder) Exit(n js.INode) {
	// Exit must be for the innermost open node; identify it by address and type against the stack
	v := reflect.ValueOf(n)
	id := -1
	for i := len(r.stack) - 1; i >= 0; i-- {
		sid := r.stack[i]
		if sid > 0 {
			nd := r.t.nodes[sid-1]
			same := false
			if v.Kind() == reflect.Ptr && !v.IsNil() {
				same = nd.ptr == v.Pointer() && nd.typ == v.Type().Elem() || i == len(r.stack)-1 && nd.typ == v.Type().Elem() && reflect.DeepEqual(nd.val.Interface(), v.Elem().Interface())
			} else if v.Kind() == reflect.Struct {
				same = i == len(r.stack)-1 && nd.typ == v.Type() && reflect.DeepEqual(nd.val.Interface(), v.Interface())
			}
			if same {
				id = sid
				if i == len(r.stack)-1 {
					r.stack = r.stack[:i]
				}
				break
			}
		} else if i == len(r.stack)-1 {
			r.stack = r.stack[:i]
			break
		}
	}
	r.w.Ev("Exit", tr.E{"id": id})
}

type summary struct {
	Suite      string        `json:"suite"`
	Mode       string        `json:"mode"`
	Cases      int           `json:"cases"`
	Executions int           `json:"executions"`
	Traces     int           `json:"traces"`
	Events     int           `json:"events"`
	Nontrivial int           `json:"distinct_nontrivial"`
	Accepted   int           `json:"programs_accepted"`
	Kinds      []string      `json:"node_kinds_seen"`
	Samples    []interface{} `json:"samples"`
}

// walkOne parses src and records Walk under the policies; returns false if Parse rejects it.
func walkOne(w *tr.Writer, tid *int, src []byte, seed int64, kinds map[string]bool) (bool, int) {
	ast, err := js.Parse(parse.NewInputBytes(append([]byte{}, src...)), js.Options{})
	if err != nil || ast == nil {
		return false, 0
	}
	t := groundTruth(ast)
	par := make([]int, len(t.nodes))
	req := []int{}
	for i, n := range t.nodes {
		par[i] = n.parent
		if n.req {
			req = append(req, n.id)
		}
		kinds[n.typ.Name()] = true
	}
	policies := []struct {
		name string
		stop func(id int, kind string) bool
	}{
		{"all", func(int, string) bool { return false }},
		{"random", func(id int, kind string) bool {
			h := fnv.New32a()
			fmt.Fprint(h, id, kind, seed)
			return id != 1 && h.Sum32()%5 == 0
		}},
		{"leaves", func(id int, kind string) bool { return kind == "Var" || kind == "LiteralExpr" }},
		// structural policies: stop at every inner node that is the first child of its parent; at every node of the same type
		// as its parent (left / right spines of binary, member, call, comma, conditional chains); at every inner node that is a later child
		{"first-children", func(id int, kind string) bool {
			n := t.nodes[id-1]
			return n.parent > 0 && len(n.kids) > 0 && t.nodes[n.parent-1].kids[0] == id
		}},
		{"same-type-as-parent", func(id int, kind string) bool {
			n := t.nodes[id-1]
			return n.parent > 0 && t.nodes[n.parent-1].typ == n.typ
		}},
		{"later-children", func(id int, kind string) bool {
			n := t.nodes[id-1]
			return n.parent > 0 && len(n.kids) > 0 && t.nodes[n.parent-1].kids[0] != id
		}},
	}
	// a very deep tree (more levels than the parser's nesting limits count) is walked under the first policy only: validating
	// its traces costs minutes
	deepest := 0
	depth := make([]int, len(t.nodes)+1)
	for i, n := range t.nodes {
		if n.parent > 0 && n.parent <= i {
			depth[i+1] = depth[n.parent] + 1
		}
		if depth[i+1] > deepest {
			deepest = depth[i+1]
		}
	}
	for pi, p := range policies {
		if deepest > 1000 && pi > 0 {
			break
		}
		*tid++
		w.Begin(*tid)
		w.Ev("Open", tr.E{"src": tr.Ints(src), "policy": p.name, "par": par, "req": req, "nodes": len(t.nodes)})
		r := &recorder{w: w, t: t, entered: map[int]bool{}, stop: p.stop}
		ev := tr.E{}
		func() {
			defer func() {
				if x := recover(); x != nil {
					ev["out"], ev["panic"] = "panic", fmt.Sprint(x)
				}
			}()
			js.Walk(r, ast)
		}()
		w.Ev("Done", ev)
		w.End(true)
	}
	return true, len(t.nodes)
}

// snippets exercising every kind of node (each must be accepted by js.Parse on its own).
var snippets = []string{
	"a", "a;b", "{a}", ";", "if(a)b;else c", "do a;while(b)", "while(a)b", "for(var i=0;i<1;i++)a", "for(;;){}", "for(a in b)c", "for(const a of b)c",
	"for await(a of b)c", "switch(a){case 1:b;break;default:c}", "a:for(;;){continue a}", "function f(){return a}", "with(a)b", "throw a",
	"try{a}catch(e){b}finally{c}", "try{a}catch{b}", "debugger", "import a from 'b'", "import {a as b, c} from 'd'", "import * as a from 'b'",
	"export {a as b}", "export default a", "export var a=1", "export * from 'a'", "'use strict'", "var [a,,b=1,...c]=d", "let {a,b:c,[d]:e=1,...f}=g",
	"const a=1,b=2", "function f(a,b=1,...c){}", "async function f(){await a}", "function*f(){yield a;yield*b}", "x=function(){}", "x=function g(){}",
	"class A{}", "class A extends B{constructor(){super()}}", "class A{m(){}static s(){}get g(){}set s(v){}async a(){}*g2(){}}",
	"class A{[k](){}#p=1;static #q;f=2;static{a}}", "class A{#m(){this.#m()}}", "x=class{}", "x=class B{}", "x=[a,,b,...c]", "x={a,b:c,[d]:e,...f,g(){},get h(){},set i(v){}}",
	"x={a=1}=y", "x=`a${b}c${d}e`", "x=tag`a${b}`", "x=(a,b)", "x=a[b]", "x=a.b", "x=a?.b", "x=a?.[b]", "x=a?.(b)", "x=new.target", "x=import.meta", "f(a,...b)",
	"new A", "new A(b)", "x=-a", "x=!a", "x=typeof a", "x=a++", "x=a+b*c", "x=a?b:c", "x=a=>b", "x=(a,b)=>{c}", "x=async a=>b", "x=async(a)=>b", "x=a??b",
	"x=a**b", "x=a in b", "x=a instanceof b", "x=/a/g", "x=1n", "x=null", "x=this", "x=super.a", "a,b", "x=await a", "/*! bang */a", "#!shebang\na",
	"import('a')", "x=a||b&&c", "label:a", "x=void 0", "x=delete a.b", "if(a){b}else if(c){d}else{e}", "x=function*(){yield}", "var a;a=function(){var b;return b}",
	// chains: the same node type nested on the left and on the right
	"x=a+b+c+d", "x=a**b**c", "x=a.b.c.d", "x=a(b)(c)(d)", "x=a?.b?.c", "x=(a,b,c,d)", "x=a?b:c?d:e", "x=a?b?c:d:e", "x=a=b=c", "x=-!~a", "x=a||b||c&&d&&e", "if(a)if(b)if(c)d",
	"x=[[[a]]]", "x={a:{b:{c}}}", "x=()=>()=>a", "function f(...args){}", "x=(...a)=>1", "x={m(...more){}}", "function g(...[p,q]){}", "a:b:c:d",
	"for(let [a,b] of c){}", "for(var {a} in b){}", "x=({a:[b,{c}]})=>d", "class A{static async*[a](){}}", "x={async*[a](){}}", "x=a?.b.c(d)[e]",
}

func harvestJS(repo string) []string {
	return harvestLits(repo)
}

// Record: snippets, harvested test literals and seeded combinations of both, three policies each.
func Record(args []string) {
	fs := flag.NewFlagSet("walk record", flag.ExitOnError)
	out := fs.String("out", "", "trace file")
	seed := fs.Int64("seed", 1, "seed")
	repo := fs.String("repo", reg.Repo(), "repository (js test literals are harvested from it)")
	nh := fs.Int("harvest", 400, "harvested literals to try")
	ncomb := fs.Int("combos", 300, "random combinations of snippets to try")
	extra := fs.String("extra", "", "optional ndjson {input:[bytes]} of further programs (e.g. from the grammar generators)")
	deep := fs.Int("deep", 0, "also walk n nested calls f(f(...)): three tree levels each, so 700 of them are more levels than the parser's nesting limits count")
	fs.Parse(args)
	rng := rand.New(rand.NewSource(*seed))
	w := tr.NewWriter(*out)
	sum := summary{Suite: "walk", Mode: "record"}
	kinds := map[string]bool{}
	tid := 0
	seen := map[string]bool{}
	try := func(src string) {
		if seen[src] {
			return
		}
		seen[src] = true
		sum.Cases++
		ok, n := walkOne(w, &tid, []byte(src), *seed, kinds)
		if ok {
			sum.Accepted++
			sum.Executions += 3
			if n > 8 {
				sum.Nontrivial++
			}
			if len(sum.Samples) < 3 && n > 12 {
				sum.Samples = append(sum.Samples, map[string]interface{}{"src": src, "nodes": n})
			}
		}
	}
	for _, s := range snippets {
		try(s)
	}
	if *deep > 0 {
		try(strings.Repeat("f(", *deep) + "a" + strings.Repeat(")", *deep))
	}
	lits := harvestJS(*repo)
	rng.Shuffle(len(lits), func(i, j int) { lits[i], lits[j] = lits[j], lits[i] })
	for i := 0; i < len(lits) && i < *nh; i++ {
		try(lits[i])
	}
	stmts := []string{}
	for _, s := range snippets {
		if !strings.HasPrefix(s, "import") && !strings.HasPrefix(s, "export") && !strings.HasPrefix(s, "'use") && !strings.HasPrefix(s, "#!") {
			stmts = append(stmts, s)
		}
	}
	for i := 0; i < *ncomb; i++ {
		k := 2 + rng.Intn(4)
		var b strings.Builder
		wrap := rng.Intn(3)
		if wrap == 1 {
			b.WriteString("function w(){")
		} else if wrap == 2 {
			b.WriteString("{")
		}
		for j := 0; j < k; j++ {
			b.WriteString(stmts[rng.Intn(len(stmts))])
			b.WriteString(";\n")
		}
		if wrap != 0 {
			b.WriteString("}")
		}
		try(b.String())
	}
	if *extra != "" {
		tr.ReadCases(*extra, func(line int, raw []byte) {
			var c struct {
				Input []int `json:"input"`
			}
			if json.Unmarshal(raw, &c) == nil {
				b := make([]byte, len(c.Input))
				for i, v := range c.Input {
					b[i] = byte(v)
				}
				try(string(b))
			}
		})
	}
	for k := range kinds {
		sum.Kinds = append(sum.Kinds, k)
	}
	w.Close()
	sum.Traces, sum.Events = w.Traces, w.Events
	json.NewEncoder(os.Stdout).Encode(sum)
}

// File: walk the programs of an ndjson file {input:[bytes]} (rerun / --replay).
func File(args []string) {
	fs := flag.NewFlagSet("walk file", flag.ExitOnError)
	in := fs.String("in", "", "ndjson {input}")
	out := fs.String("out", "", "trace file")
	seed := fs.Int64("seed", 1, "seed")
	fs.Parse(args)
	w := tr.NewWriter(*out)
	sum := summary{Suite: "walk", Mode: "file"}
	tid := 0
	kinds := map[string]bool{}
	tr.ReadCases(*in, func(line int, raw []byte) {
		var c struct {
			Input []int `json:"input"`
		}
		if json.Unmarshal(raw, &c) != nil {
			os.Exit(2)
		}
		b := make([]byte, len(c.Input))
		for i, v := range c.Input {
			b[i] = byte(v)
		}
		if ok, _ := walkOne(w, &tid, b, *seed, kinds); ok {
			sum.Executions += 3
		}
	})
	w.Close()
	sum.Traces, sum.Events = w.Traces, w.Events
	json.NewEncoder(os.Stdout).Encode(sum)
}

func init() {
	reg.Register("walk", "record", Record)
	reg.Register("walk", "file", File)
}
