package helpers2

import (
	"bytes"
	"encoding/json"
	"flag"
	"fmt"
	"os"
	"sort"
	"strings"

	"verif/harness/internal/reg"
	"verif/harness/internal/tr"
)

// gcase is one case of a line emitted by Helpers2Gen.tla; which fields are present depends on the family.
type gcase struct {
	S []int `json:"s"`
	// esc (r: bytes), print (r: rune), lenuint (r: length)
	Chars []int           `json:"chars"`
	Esc   int             `json:"esc"`
	B     []int           `json:"b"`
	R     json.RawMessage `json:"r"`
	// quote
	Res [][]int `json:"res"`
	// print
	Self []int `json:"self"`
	Code []int `json:"code"`
	// byte
	C  int  `json:"c"`
	WS bool `json:"ws"`
	NL bool `json:"nl"`
	// indent
	N       int     `json:"n"`
	N2      int     `json:"n2"`
	Cuts    []int   `json:"cuts"`
	Empties bool    `json:"empties"`
	Outs    [][]int `json:"outs"`
	// js, css
	Idd  bool `json:"idd"`
	Id   bool `json:"id"`
	Fd   bool `json:"fd"`
	St   bool `json:"st"`
	Ct   bool `json:"ct"`
	Ld   bool `json:"ld"`
	En   bool `json:"en"`
	Numd bool `json:"numd"`
	Num  bool `json:"num"`
	Urld bool `json:"urld"`
	URL  bool `json:"url"`
	// lenuint
	D []int `json:"d"`
	// unitab
	Start []int `json:"start"`
	Cont  []int `json:"cont"`
	NotID []int `json:"notid"`
	ZW    []int `json:"zw"`
}

type gline struct {
	F string  `json:"f"`
	G string  `json:"g"`
	C []gcase `json:"c"`
}

func toBytes(a []int) []byte {
	b := make([]byte, len(a))
	for i, v := range a {
		b[i] = byte(v)
	}
	return b
}

func ints(e tr.E, k string) []int {
	if v, ok := e[k].([]int); ok {
		return v
	}
	return nil
}

func eqInts(a, b []int) bool {
	if len(a) != len(b) {
		return false
	}
	for i := range a {
		if a[i] != b[i] {
			return false
		}
	}
	return true
}

func inSeqs(a []int, set [][]int) bool {
	for _, b := range set {
		if eqInts(a, b) {
			return true
		}
	}
	return false
}

func rawInts(r json.RawMessage) []int {
	var a []int
	if len(r) > 0 {
		json.Unmarshal(r, &a)
	}
	return a
}

func rawInt(r json.RawMessage) int {
	var a int
	if len(r) > 0 {
		json.Unmarshal(r, &a)
	}
	return a
}

type mismatch struct {
	T    int    `json:"t"`
	Fam  string `json:"fam"`
	Ev   string `json:"ev"`
	S    []int  `json:"s"`
	What string `json:"what"`
}

type summary struct {
	Suite        string         `json:"suite"`
	Mode         string         `json:"mode"`
	Cases        int            `json:"cases"`
	Executions   int            `json:"executions"` // calls of a function under test
	Mismatches   int            `json:"mismatches"` // observation differs from the expectation Helpers2Gen emitted
	Undetermined int            `json:"undetermined"`
	SpecStd      int            `json:"spec_std_disagree"` // the specification's Unicode sample differs from Go's unicode tables (a bug of the spec)
	Panics       int            `json:"panics"`
	Traces       int            `json:"traces"`
	Events       int            `json:"events"`
	Nontrivial   int            `json:"distinct_nontrivial"`
	PerFam       map[string]int `json:"per_family"`
	Expect       map[string]int `json:"expected"` // per function: how many determined cases expect true / false (vacuity)
	PerKey       map[string]int `json:"mismatch_keys"`
	Samples      []interface{}  `json:"samples"`
	List         []mismatch     `json:"mismatch_list"`
	SpecStdList  []interface{}  `json:"spec_std_samples"`
}

func isRet(e tr.E) bool { return e != nil && e["out"] != "panic" }

// chunksOf cuts the text at the given offsets; with empties an empty Write precedes, separates and follows the pieces.
func chunksOf(s []byte, cuts []int, empties bool) [][]byte {
	sort.Ints(cuts)
	var out [][]byte
	add := func(b []byte) {
		if empties {
			out = append(out, []byte{})
		}
		out = append(out, b)
	}
	lo := 0
	for _, c := range cuts {
		if c > lo && c < len(s) {
			add(s[lo:c])
			lo = c
		}
	}
	add(s[lo:])
	if empties {
		out = append(out, []byte{})
	}
	return out
}

// Replay executes every case TLC emitted and compares the observation with the expectation, field by field on
// the fields the specification determines. Every kind of mismatching execution and every n-th matching one is
// also written as a trace, so that the property-level trace specification gives the verdict.
func Replay(args []string) {
	fs := flag.NewFlagSet("helpers2 replay", flag.ExitOnError)
	cases := fs.String("cases", "", "comma-separated ndjson files emitted by TLC from Helpers2Gen")
	out := fs.String("out", "", "trace file")
	sample := fs.Int("sample", 50, "also keep the trace of every n-th matching execution")
	maxBad := fs.Int("maxbad", 6, "keep at most this many mismatching traces per (family, function, class of argument, observation)")
	fs.Parse(args)
	w := tr.NewWriter(*out)
	sum := summary{Suite: "helpers2", Mode: "replay", PerFam: map[string]int{}, Expect: map[string]int{}, PerKey: map[string]int{}}
	tid := 0
	sampled := map[string]int{}
	for _, file := range strings.Split(*cases, ",") {
		err := tr.ReadCases(file, func(line int, raw []byte) {
			var l gline
			if err := json.Unmarshal(raw, &l); err != nil {
				fmt.Fprintln(os.Stderr, "bad case line:", err)
				os.Exit(2)
			}
			for i := range l.C {
				c := &l.C[i]
				sum.Cases++
				sum.PerFam[l.G]++
				if l.F == "unitab" {
					checkUnicodeSample(c, &sum)
					continue
				}
				tid++
				w.Begin(tid)
				bad, nontrivial := runCase(w, l.F, c, &sum)
				if nontrivial {
					sum.Nontrivial++
				}
				keep := tid%*sample == 0
				for _, b := range bad {
					sum.Mismatches++
					key := l.F + "/" + b[0] + "/" + b[2]
					sum.PerKey[key]++
					if sum.PerKey[key] <= *maxBad {
						keep = true
						if len(sum.List) < 600 {
							sum.List = append(sum.List, mismatch{T: tid, Fam: l.F, Ev: b[0], S: c.S, What: b[1]})
						}
					}
				}
				if keep && len(bad) == 0 && sampled[l.G] < 1 {
					sampled[l.G]++
					sum.Samples = append(sum.Samples, map[string]interface{}{"case": json.RawMessage(mustJSON(c)), "family": l.G})
				}
				w.End(keep)
			}
		})
		if err != nil {
			fmt.Fprintln(os.Stderr, "replay:", err)
			os.Exit(2)
		}
	}
	w.Close()
	sum.Traces, sum.Events = w.Traces, w.Events
	json.NewEncoder(os.Stdout).Encode(sum)
}

func mustJSON(v interface{}) []byte {
	b, err := json.Marshal(v)
	if err != nil {
		panic(err)
	}
	var m map[string]interface{}
	json.Unmarshal(b, &m)
	for k, x := range m { // drop the unused fields of the sparse case struct
		if x == nil || x == "" {
			delete(m, k)
		}
	}
	b, _ = json.Marshal(m)
	return b
}

// checkUnicodeSample compares the Unicode sample Helpers2.tla carries with Go's unicode tables.
func checkUnicodeSample(c *gcase, sum *summary) {
	bad := func(what string, r int) {
		sum.SpecStd++
		if len(sum.SpecStdList) < 8 {
			sum.SpecStdList = append(sum.SpecStdList, map[string]interface{}{"what": what, "codepoint": fmt.Sprintf("U+%04X", r)})
		}
	}
	for _, r := range c.Start {
		if !idStart(rune(r)) {
			bad("IDStartSample member is not ID_Start", r)
		}
	}
	for _, r := range c.Cont {
		if idStart(rune(r)) || !idContinue(rune(r)) {
			bad("IDContOnlySample member is not ID_Continue minus ID_Start", r)
		}
	}
	for _, r := range append(append([]int{}, c.NotID...), c.ZW...) {
		if idContinue(rune(r)) {
			bad("NotIDSample / ZWNJ / ZWJ member is ID_Continue", r)
		}
	}
	if len(c.Start) == 0 || len(c.Cont) == 0 || len(c.NotID) == 0 {
		bad("empty sample", 0)
	}
}

// runCase executes one generated case; it returns the list of (event, what, cap key) that differ from the
// expectation and whether the case counts as non-trivial.
func runCase(w *tr.Writer, fam string, c *gcase, sum *summary) (bad [][3]string, nontrivial bool) {
	s := toBytes(c.S)
	add := func(ev, what, key string) { bad = append(bad, [3]string{ev, what, key}) }
	chk := func(res result, name string) tr.E {
		e := res[name]
		sum.Executions++
		if !isRet(e) {
			sum.Panics++
			add(strings.SplitN(name, "/", 2)[0], "panic", "panic")
			return nil
		}
		return e
	}
	boolean := func(res result, name string, determined, want bool, cls string) {
		e := chk(res, name)
		if e == nil {
			return
		}
		if !determined {
			sum.Undetermined++
			return
		}
		sum.Expect[fmt.Sprintf("%s=%v", name, want)]++
		if e["r"] != want {
			add(name, fmt.Sprintf("got %v want %v", e["r"], want), fmt.Sprintf("%s=%v", cls, e["r"]))
		}
	}
	switch fam {
	case "esc":
		sp := &spec{Fam: "esc", S: s, Chars: toBytes(c.Chars), Esc: byte(c.Esc), B: toBytes(c.B)}
		res := exec(w, sp)
		want := rawInts(c.R)
		for _, k := range []string{"AppendEscape/tight", "AppendEscape/spare"} {
			if e := chk(res, k); e != nil && (!eqInts(ints(e, "r"), want) || !eqInts(ints(e, "sAfter"), c.S)) {
				add("AppendEscape", fmt.Sprintf("%s got %v (str afterwards %v) want %v", k, e["r"], e["sAfter"], want), res["New"]["cls"].(string))
			}
		}
		nontrivial = len(want) != len(c.B)+len(c.S)
	case "quote":
		res := exec(w, &spec{Fam: "quote", S: s})
		if e := chk(res, "QuoteEntity"); e != nil {
			if len(c.Res) > 1 {
				sum.Undetermined++
			}
			got := []int{e["q"].(int), e["n"].(int)}
			if !inSeqs(got, c.Res) {
				add("QuoteEntity", fmt.Sprintf("got %v want one of %v", got, c.Res), fmt.Sprintf("%s=%v", res["New"]["cls"], got[0]))
			}
			sum.Expect[fmt.Sprintf("QuoteEntity=%v", len(c.Res) == 1 && c.Res[0][0] != 0)]++
		}
		nontrivial = !(len(c.Res) == 1 && c.Res[0][0] == 0)
	case "print":
		r := rawInt(c.R)
		res := exec(w, &spec{Fam: "print", R: int32(r)})
		if e := chk(res, "Printable"); e != nil {
			want := c.Code
			if res["New"]["graphic"] == true {
				want = c.Self
			}
			if e["og"] != true || len(ints(e, "o")) == 0 || len(want) > 0 && !eqInts(ints(e, "o"), want) {
				add("Printable", fmt.Sprintf("rune %d got %v (all graphic: %v) want %v", r, e["o"], e["og"], want), fmt.Sprint(res["New"]["graphic"]))
			}
		}
		nontrivial = r < 32 || r > 126
	case "byte":
		res := exec(w, &spec{Fam: "byte", C: c.C})
		if e := chk(res, "IsWhitespace"); e != nil && e["r"] != c.WS {
			add("IsWhitespace", fmt.Sprintf("byte %d got %v want %v", c.C, e["r"], c.WS), "")
		}
		if e := chk(res, "IsNewline"); e != nil && e["r"] != c.NL {
			add("IsNewline", fmt.Sprintf("byte %d got %v want %v", c.C, e["r"], c.NL), "")
		}
		nontrivial = c.WS
	case "copy":
		res := exec(w, &spec{Fam: "copy", S: s})
		if e := chk(res, "Copy"); e != nil && (!eqInts(ints(e, "r"), c.S) || e["alias"] != false || !eqInts(ints(e, "sAfter"), c.S)) {
			add("Copy", fmt.Sprintf("got %v alias %v source afterwards %v", e["r"], e["alias"], e["sAfter"]), "")
		}
		nontrivial = len(s) > 0
	case "indent":
		sp := &spec{Fam: "indent", S: s, N: c.N, N2: c.N2, Chunks: chunksOf(s, c.Cuts, c.Empties)}
		res := exec(w, sp)
		sum.Executions += len(sp.Chunks)
		if e := chk(res, "Out"); e != nil {
			if !inSeqs(ints(e, "o"), c.Outs) {
				add("Out", fmt.Sprintf("text %v in %d writes: got %v want one of %v", c.S, len(sp.Chunks), e["o"], c.Outs), "shape")
			} else if !eqInts(ints(e, "o"), ints(e, "whole")) {
				add("Out", fmt.Sprintf("text %v in %d writes: got %v but %v when written at once", c.S, len(sp.Chunks), e["o"], e["whole"]), "chunking")
			}
		}
		want := c.N
		if c.N2 >= 0 {
			want += c.N2
		}
		if e := chk(res, "Indent"); e != nil && e["r"] != want {
			add("Indent", fmt.Sprintf("got %v want %d", e["r"], want), "")
		}
		if e := chk(res, "WriteCounts"); e != nil {
			rets, lens, errs := e["rets"].([]int), e["lens"].([]int), e["errs"].([]bool)
			for k := range rets {
				if rets[k] < 0 || rets[k] > lens[k] || !errs[k] && rets[k] != lens[k] {
					add("WriteCounts", fmt.Sprintf("Write of %d bytes returned %d", lens[k], rets[k]), "")
					break
				}
			}
		}
		nontrivial = bytes.IndexByte(s, '\n') >= 0
	case "js":
		res := exec(w, &spec{Fam: "js", S: s})
		boolean(res, "AsIdentifierName", c.Idd, c.Id, res["New"]["cls_id"].(string))
		boolean(res, "AsDecimalLiteral", c.Numd, c.Num, res["New"]["cls_num"].(string))
		boolean(res, "IsIdentifierStart", c.Fd, c.St, "first-character")
		boolean(res, "IsIdentifierContinue", c.Fd, c.Ct, "first-character")
		boolean(res, "IsIdentifierEnd", c.Ld, c.En, "last-character")
		nontrivial = c.Id || c.Num
	case "css":
		res := exec(w, &spec{Fam: "css", S: s})
		boolean(res, "IsIdent", c.Idd, c.Id, res["New"]["cls_id"].(string))
		boolean(res, "IsURLUnquoted", c.Urld, c.URL, res["New"]["cls_url"].(string))
		nontrivial = c.Id || c.URL
	case "lenuint":
		res := exec(w, &spec{Fam: "lenuint", D: c.D})
		if e := chk(res, "LenUint"); e != nil && e["r"] != rawInt(c.R) {
			add("LenUint", fmt.Sprintf("digits %v got %v want %d", c.D, e["r"], rawInt(c.R)), "")
		}
		nontrivial = true
	default:
		fmt.Fprintln(os.Stderr, "unknown family in case file:", fam)
		os.Exit(2)
	}
	return
}

func init() {
	reg.Register("helpers2", "replay", Replay)
	reg.Register("helpers2", "record", Record)
	reg.Register("helpers2", "rerun", Rerun)
}
