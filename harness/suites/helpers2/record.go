package helpers2

import (
	"encoding/json"
	"flag"
	"fmt"
	"math/rand"
	"os"

	"verif/harness/internal/tr"
)

func S(xs ...string) [][]byte {
	r := make([][]byte, len(xs))
	for i, x := range xs {
		r[i] = []byte(x)
	}
	return r
}

// byte material: the atoms of Helpers2Gen.tla and their neighbours, joined into longer arguments
var (
	escFrags   = S("a", "z", "\"", "\\", "'", "\x00", "\xff", "\\\\", "\\\"", "\n", "é", "ab", "\"\"")
	escChars   = S("", "\"", "\"'", "\\a", "'\"\\", "\x00", "a\xff")
	escBytes   = []byte{'\\', '\'', '"', 'a', 0}
	quoteHeads = S("&#", "&#x", "&#X", "&quot", "&apos", "&QUOT", "&APOS", "&Quot", "&", "&amp", "&gt", "&#0x", "&#x0", "&#00", "", "a", "&&#")
	quoteTail  = S("0", "00", "000000", "22", "27", "34", "39", "2", "3", "4", "7", "9", ";", ";", "a", "x", " ", "A", "f", "#", "&", "34;", "x22;", "\x00", "\xff")
	indFrags   = S("a", "\n", " ", "\r\n", "\n\n", "{", "  ", "}\n", "\t", "\r", "x\ny", "\xff")
	jsFrags    = S("a", "Z", "$", "_", "u", "e", "0", "9", "1", ".", "e", "E", "+", "-", "12", "0.5", "1e5", ".5", "5.", "1_0", "0x1F", "1n", "08",
		"é", "π", "℘", "𝒜", "中", "ª", "µ", "\u0300", "\u203f", "·", "\u0660", "\u200c", "\u200d", "\u2028", "\u00a0", "×", "÷", "\ufffd", "€", "😀", "\u3000",
		"\\u0061", "\\u{62}", "\\u00e9", "\\u{1D49C}", "\\u{0000061}", "\\u0030", "\\u200C", "\\u{300}", "\\u0020", "\\u{110000}", "\\u12", "\\x41", "\\", "\\u{}",
		"\\u2028", "\\uD835", "\xff", "\xc3", "\x80", "\xc0\x80", "\xed\xa0\x80", " ", "#", "\x00", "@", "{", "}", "'", "if", "class")
	cssFrags = S("g", "z", "G", "_", "u", "a", "F", "e", "E", "0", "9", "-", "--", "\\", "\\\\", "\\26", "\\26 ", "\\000026B", "\\0000261", "\\0000261 ", "\\000026 ", "\\10FFFE\t", "\\g", "\\(", "\\\n", "\\\r\n", "\\\f",
		"é", "\x80", "\xff", " ", "\t", "\n", "\r", "\f", "\r\n", "(", ")", "\"", "'", "!", ".", "+", "/", "#", "%", "*", ":", "?", "~", "\x01", "\x08", "\x0b", "\x0e", "\x1f", "\x7f",
		"\x00", "url", "http://a.b/c?d=e", "\\1 ", "\\1\t", "\\1\r\n")
	copyBytes = []byte{0, 'a', 255, ' ', '\n', 0x80}
)

func cat(rng *rand.Rand, frags [][]byte, max int) []byte {
	n := rng.Intn(max + 1)
	if n == 0 && rng.Intn(8) > 0 { // the empty argument now and then only
		n = max
	}
	var b []byte
	for i := 0; i < n; i++ {
		b = append(b, frags[rng.Intn(len(frags))]...)
	}
	return b
}

// randChunks cuts s into Write calls at random offsets, with an occasional empty call.
func randChunks(rng *rand.Rand, s []byte) [][]byte {
	var out [][]byte
	lo := 0
	for lo < len(s) {
		if rng.Intn(6) == 0 {
			out = append(out, []byte{})
		}
		hi := lo + 1 + rng.Intn(len(s)-lo)
		if rng.Intn(3) == 0 {
			hi = lo + 1
		}
		out = append(out, s[lo:hi])
		lo = hi
	}
	if len(out) == 0 || rng.Intn(6) == 0 {
		out = append(out, []byte{})
	}
	return out
}

func randDigits(rng *rand.Rand) []int {
	n := 1 + rng.Intn(20)
	for {
		d := make([]int, n)
		for i := range d {
			d[i] = rng.Intn(10)
		}
		if n > 1 && d[0] == 0 {
			d[0] = 1 + rng.Intn(9)
		}
		if _, ok := digitsToUint(d); ok {
			return d
		}
		n = 19
	}
}

// Record drives the functions with seeded random arguments, longer than the enumerated ones.
func Record(args []string) {
	fs := flag.NewFlagSet("helpers2 record", flag.ExitOnError)
	out := fs.String("out", "", "trace file")
	n := fs.Int("n", 200, "number of random traces per family")
	seed := fs.Int64("seed", 1, "seed")
	tid0 := fs.Int("tid", 1000000, "first trace id minus one")
	fs.Parse(args)
	rng := rand.New(rand.NewSource(*seed))
	w := tr.NewWriter(*out)
	sum := summary{Suite: "helpers2", Mode: "record", PerFam: map[string]int{}}
	seen := map[string]bool{}
	tid := *tid0
	run := func(sp *spec) {
		tid++
		w.Begin(tid)
		res := exec(w, sp)
		for k, e := range res {
			if k == "New" {
				continue
			}
			sum.Executions++
			if !isRet(e) {
				sum.Panics++
			}
		}
		sum.Executions += len(sp.Chunks)
		sum.PerFam[sp.Fam]++
		key := fmt.Sprint(sp.Fam, "|", string(sp.S), "|", string(sp.Chars), sp.Esc, sp.R, sp.C, sp.N, sp.N2, len(sp.Chunks), sp.D)
		if !seen[key] {
			seen[key] = true
			sum.Nontrivial++
		}
		if len(sum.Samples) < 3 && tid%89 == 5 {
			sum.Samples = append(sum.Samples, map[string]interface{}{"family": sp.Fam, "s": tr.Ints(sp.S)})
		}
		w.End(true)
	}
	for i := 0; i < *n; i++ {
		run(&spec{Fam: "esc", S: cat(rng, escFrags, 12), Chars: escChars[rng.Intn(len(escChars))], Esc: escBytes[rng.Intn(len(escBytes))],
			B: cat(rng, escFrags, 2)})
		q := append(append([]byte{}, quoteHeads[rng.Intn(len(quoteHeads))]...), cat(rng, quoteTail, 6)...)
		run(&spec{Fam: "quote", S: q})
		r := int32(rng.Intn(0x110000 + 64))
		switch rng.Intn(8) {
		case 0:
			r = int32(rng.Intn(0x300))
		case 1:
			r = -int32(rng.Intn(1 << 20))
		case 2:
			r = int32(0x2000 + rng.Intn(0x70)) // spaces, format characters, separators
		case 3:
			r = int32(rng.Int63())
		}
		run(&spec{Fam: "print", R: r})
		cp := make([]byte, rng.Intn(40))
		for j := range cp {
			cp[j] = copyBytes[rng.Intn(len(copyBytes))]
		}
		run(&spec{Fam: "copy", S: cp})
		text := cat(rng, indFrags, 12)
		run(&spec{Fam: "indent", S: text, N: rng.Intn(6), N2: []int{-1, -1, 0, 1, 3}[rng.Intn(5)], Chunks: randChunks(rng, text)})
		run(&spec{Fam: "js", S: cat(rng, jsFrags, 8)})
		run(&spec{Fam: "js", S: cat(rng, jsFrags[:23], 6)})
		run(&spec{Fam: "css", S: cat(rng, cssFrags, 8)})
		run(&spec{Fam: "css", S: cat(rng, cssFrags[:27], 6)})
		run(&spec{Fam: "lenuint", D: randDigits(rng)})
	}
	w.Close()
	sum.Traces, sum.Events = w.Traces, w.Events
	json.NewEncoder(os.Stdout).Encode(sum)
}

// Rerun re-executes the calls of recorded traces (a JSON array of traces, each a JSON array of events) on the
// current code and records fresh traces numbered 1, 2, ...: the reproduction step before a rejected trace is reported.
func Rerun(args []string) {
	fs := flag.NewFlagSet("helpers2 rerun", flag.ExitOnError)
	in := fs.String("traces", "", "JSON array of traces")
	out := fs.String("out", "", "trace file")
	fs.Parse(args)
	raw, err := os.ReadFile(*in)
	if err != nil {
		fmt.Fprintln(os.Stderr, err)
		os.Exit(2)
	}
	var traces [][]map[string]interface{}
	if err := json.Unmarshal(raw, &traces); err != nil {
		fmt.Fprintln(os.Stderr, "bad traces file", err)
		os.Exit(2)
	}
	bs := func(e map[string]interface{}, k string) []byte {
		b := []byte{}
		if a, ok := e[k].([]interface{}); ok {
			for _, v := range a {
				b = append(b, byte(v.(float64)))
			}
		}
		return b
	}
	num := func(e map[string]interface{}, k string) int {
		f, _ := e[k].(float64)
		return int(f)
	}
	w := tr.NewWriter(*out)
	execs := 0
	for i, evs := range traces {
		if len(evs) == 0 {
			continue
		}
		n0 := evs[0]
		fam, _ := n0["fam"].(string)
		sp := &spec{Fam: fam, S: bs(n0, "s"), Chars: bs(n0, "chars"), Esc: byte(num(n0, "esc")), B: bs(n0, "b"), R: int32(num(n0, "r")),
			C: num(n0, "c"), N: num(n0, "n"), N2: num(n0, "n2")}
		if a, ok := n0["d"].([]interface{}); ok {
			for _, v := range a {
				sp.D = append(sp.D, int(v.(float64)))
			}
		}
		for _, e := range evs[1:] {
			if e["ev"] == "Write" {
				sp.Chunks = append(sp.Chunks, bs(e, "p"))
			}
		}
		w.Begin(i + 1)
		exec(w, sp)
		w.End(true)
		execs++
	}
	w.Close()
	json.NewEncoder(os.Stdout).Encode(summary{Suite: "helpers2", Mode: "rerun", Executions: execs, Traces: w.Traces, Events: w.Events})
}
