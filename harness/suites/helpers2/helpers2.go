// Package helpers2 drives public helpers that none of the listed properties mentions (growth specification
// spec/text/Helpers2.tla): parse.AppendEscape, QuoteEntity, Printable, IsWhitespace, IsNewline, Copy, Indenter;
// js.AsIdentifierName, AsDecimalLiteral; css.IsIdent, IsURLUnquoted; strconv.LenUint.
//
// Same shape as suite helpers: a trace is one constructor event New{fam, s, further arguments, facts the harness
// vouches for} followed by one event per call made on that argument; spec/text/Helpers2Trace.tla judges every event.
//
//	replay  cases enumerated by TLC from spec/text/Helpers2Gen.tla, with the expectation Helpers2.tla computed
//	record  seeded random, longer arguments built from the same atoms
//	rerun   re-execute recorded traces (a JSON array of traces)
package helpers2

import (
	"bytes"
	"fmt"
	"io"
	"unicode"
	"unicode/utf8"
	"unsafe"

	"github.com/tdewolff/parse/v2"
	"github.com/tdewolff/parse/v2/css"
	"github.com/tdewolff/parse/v2/js"
	"github.com/tdewolff/parse/v2/strconv"

	"verif/harness/internal/tr"
)

// spec describes one trace: the family, the argument(s).
type spec struct {
	Fam string
	S   []byte
	// esc
	Chars []byte
	Esc   byte
	B     []byte
	// print
	R int32
	// byte
	C int
	// indent: S is the whole text, Chunks its cutting into Write calls
	N, N2  int
	Chunks [][]byte
	// lenuint
	D []int
}

// tight returns a copy of b whose capacity equals its length: any reslice beyond len panics.
func tight(b []byte) []byte {
	c := make([]byte, len(b))
	copy(c, b)
	return c[:len(b):len(b)]
}

// spare returns a copy of b with unused capacity filled with junk (append does not reallocate).
func spare(b []byte) []byte {
	c := make([]byte, len(b)*3+16)
	for i := range c {
		c[i] = 0xAA
	}
	copy(c, b)
	return c[:len(b)]
}

// call runs f with panic recovery and records the event.
func call(w *tr.Writer, name string, f func(ev tr.E)) (ev tr.E) {
	ev = tr.E{}
	defer func() {
		if r := recover(); r != nil {
			ev["out"] = "panic"
			ev["panic"] = fmt.Sprint(r)
		}
		w.Ev(name, ev)
	}()
	f(ev)
	return ev
}

// result of executing one trace: the events by name
type result map[string]tr.E

func overlap(a, b []byte) bool {
	if len(a) == 0 || len(b) == 0 {
		return false
	}
	a0, b0 := uintptr(unsafe.Pointer(&a[0])), uintptr(unsafe.Pointer(&b[0]))
	return a0 < b0+uintptr(len(b)) && b0 < a0+uintptr(len(a))
}

func allGraphic(s string) bool {
	for i := 0; i < len(s); {
		r, n := utf8.DecodeRuneInString(s[i:])
		if r == utf8.RuneError && n <= 1 || !unicode.IsGraphic(r) {
			return false
		}
		i += n
	}
	return true
}

func digitsToUint(d []int) (uint64, bool) {
	var v uint64
	for _, x := range d {
		if x < 0 || x > 9 || v > (^uint64(0)-uint64(x))/10 {
			return 0, false
		}
		v = v*10 + uint64(x)
	}
	return v, len(d) > 0
}

func concat(chunks [][]byte) []byte {
	var b []byte
	for _, c := range chunks {
		b = append(b, c...)
	}
	return b
}

func newIndenter(w io.Writer, n, n2 int) parse.Indenter {
	in := parse.NewIndenter(w, n)
	if n2 >= 0 {
		in = parse.NewIndenter(in, n2)
	}
	return in
}

// exec writes the constructor event and performs every call of the family on the real code.
func exec(w *tr.Writer, sp *spec) result {
	res := result{}
	s := sp.S
	newEv := func(e tr.E) {
		w.Ev("New", e)
		res["New"] = e
	}
	// again repeats the constructor event: the trace specification stops judging a trace at its first rejected event
	// and starts afresh at a constructor event, so every function of a family gets its own verdict
	again := func() {
		e := tr.E{}
		for k, v := range res["New"] {
			e[k] = v
		}
		w.Ev("New", e)
	}
	switch sp.Fam {
	case "esc":
		newEv(tr.E{"fam": "esc", "s": tr.Ints(s), "chars": tr.Ints(sp.Chars), "esc": int(sp.Esc), "b": tr.Ints(sp.B), "cls": clsEsc(sp)})
		for _, cp := range []string{"tight", "spare"} {
			cp := cp
			res["AppendEscape/"+cp] = call(w, "AppendEscape", func(ev tr.E) {
				ev["cap"] = cp
				dst := tight(sp.B)
				if cp == "spare" {
					dst = spare(sp.B)
				}
				str := tight(s)
				ev["r"] = tr.Ints(parse.AppendEscape(dst, str, tight(sp.Chars), sp.Esc))
				ev["sAfter"] = tr.Ints(str)
			})
		}
	case "quote":
		newEv(tr.E{"fam": "quote", "s": tr.Ints(s), "cls": clsQuote(s)})
		res["QuoteEntity"] = call(w, "QuoteEntity", func(ev tr.E) {
			q, n := parse.QuoteEntity(tight(s))
			ev["q"], ev["n"] = int(q), n
		})
	case "print":
		newEv(tr.E{"fam": "print", "s": []int{}, "r": int(sp.R), "graphic": unicode.IsGraphic(rune(sp.R))})
		res["Printable"] = call(w, "Printable", func(ev tr.E) {
			o := parse.Printable(rune(sp.R))
			ev["o"], ev["og"] = tr.Ints([]byte(o)), allGraphic(o)
		})
	case "byte":
		newEv(tr.E{"fam": "byte", "s": []int{}, "c": sp.C})
		res["IsWhitespace"] = call(w, "IsWhitespace", func(ev tr.E) { ev["r"] = parse.IsWhitespace(byte(sp.C)) })
		again()
		res["IsNewline"] = call(w, "IsNewline", func(ev tr.E) { ev["r"] = parse.IsNewline(byte(sp.C)) })
	case "copy":
		newEv(tr.E{"fam": "copy", "s": tr.Ints(s)})
		res["Copy"] = call(w, "Copy", func(ev tr.E) {
			src := spare(s)
			dst := parse.Copy(src)
			ev["r"] = tr.Ints(dst)
			ev["alias"] = overlap(dst, src[:cap(src)])
			for i := range dst { // writing to the copy must not reach the original
				dst[i] ^= 0x55
			}
			ev["sAfter"] = tr.Ints(src)
		})
	case "indent":
		newEv(tr.E{"fam": "indent", "s": []int{}, "n": sp.N, "n2": sp.N2})
		var buf bytes.Buffer
		in := newIndenter(&buf, sp.N, sp.N2)
		rets, lens, errs := []int{}, []int{}, []bool{}
		for _, c := range sp.Chunks {
			c := c
			e := call(w, "Write", func(ev tr.E) {
				ev["p"] = tr.Ints(c)
				n, err := in.Write(tight(c))
				ev["ret"], ev["err"] = n, err != nil
			})
			if e["out"] != "panic" {
				rets, lens, errs = append(rets, e["ret"].(int)), append(lens, len(c)), append(errs, e["err"].(bool))
			}
		}
		res["Out"] = call(w, "Out", func(ev tr.E) {
			var whole bytes.Buffer
			newIndenter(&whole, sp.N, sp.N2).Write(tight(concat(sp.Chunks)))
			ev["o"], ev["whole"] = tr.Ints(buf.Bytes()), tr.Ints(whole.Bytes())
		})
		res["Indent"] = call(w, "Indent", func(ev tr.E) { ev["r"] = in.Indent() })
		res["WriteCounts"] = call(w, "WriteCounts", func(ev tr.E) { ev["rets"], ev["lens"], ev["errs"] = rets, lens, errs })
	case "js":
		newEv(tr.E{"fam": "js", "s": tr.Ints(s), "cls_id": clsJsID(s), "cls_num": clsJsNum(s)})
		res["AsIdentifierName"] = call(w, "AsIdentifierName", func(ev tr.E) { ev["r"] = js.AsIdentifierName(tight(s)) })
		again()
		res["AsDecimalLiteral"] = call(w, "AsDecimalLiteral", func(ev tr.E) { ev["r"] = js.AsDecimalLiteral(tight(s)) })
		res["IsIdentifierStart"] = call(w, "IsIdentifierStart", func(ev tr.E) { ev["r"] = js.IsIdentifierStart(tight(s)) })
		res["IsIdentifierContinue"] = call(w, "IsIdentifierContinue", func(ev tr.E) { ev["r"] = js.IsIdentifierContinue(tight(s)) })
		res["IsIdentifierEnd"] = call(w, "IsIdentifierEnd", func(ev tr.E) { ev["r"] = js.IsIdentifierEnd(tight(s)) })
	case "css":
		newEv(tr.E{"fam": "css", "s": tr.Ints(s), "cls_id": clsCSS(s, true), "cls_url": clsCSS(s, false)})
		res["IsIdent"] = call(w, "IsIdent", func(ev tr.E) { ev["r"] = css.IsIdent(tight(s)) })
		again()
		res["IsURLUnquoted"] = call(w, "IsURLUnquoted", func(ev tr.E) { ev["r"] = css.IsURLUnquoted(tight(s)) })
	case "lenuint":
		newEv(tr.E{"fam": "lenuint", "s": []int{}, "d": sp.D})
		res["LenUint"] = call(w, "LenUint", func(ev tr.E) {
			v, ok := digitsToUint(sp.D)
			if !ok {
				panic("harness: not a uint64")
			}
			ev["r"] = strconv.LenUint(v)
		})
	default:
		panic("unknown family " + sp.Fam)
	}
	return res
}

// ---------------------------------------------------------------- Unicode facts the specification's sample relies on

// idStart / idContinue compute UAX #31 ID_Start / ID_Continue from Go's tables:
// ID_Start = L + Nl + Other_ID_Start - Pattern_Syntax - Pattern_White_Space, ID_Continue = ID_Start + Mn + Mc + Nd + Pc +
// Other_ID_Continue - Pattern_Syntax - Pattern_White_Space.
func idStart(r rune) bool {
	return (unicode.IsLetter(r) || unicode.Is(unicode.Nl, r) || unicode.Is(unicode.Other_ID_Start, r)) &&
		!unicode.Is(unicode.Pattern_Syntax, r) && !unicode.Is(unicode.Pattern_White_Space, r)
}

func idContinue(r rune) bool {
	return idStart(r) || (unicode.Is(unicode.Mn, r) || unicode.Is(unicode.Mc, r) || unicode.Is(unicode.Nd, r) || unicode.Is(unicode.Pc, r) ||
		unicode.Is(unicode.Other_ID_Continue, r)) && !unicode.Is(unicode.Pattern_Syntax, r) && !unicode.Is(unicode.Pattern_White_Space, r)
}

// ---------------------------------------------------------------- naming of argument classes
// The cls fields of a constructor event only NAME the class of the argument (for the signature of a reported
// disagreement and for keeping a few traces of every class); no specification reads them.

func clsEsc(sp *spec) string {
	if bytes.IndexByte(sp.Chars, sp.Esc) >= 0 {
		return "escape-in-chars"
	}
	return "plain"
}

func clsQuote(s []byte) string {
	for _, p := range []string{"&#x", "&#X", "&#", "&quot", "&apos", "&QUOT", "&"} {
		if bytes.HasPrefix(s, []byte(p)) {
			return p
		}
	}
	return "other"
}

func hasNonASCII(s []byte) bool {
	for _, c := range s {
		if c >= 0x80 {
			return true
		}
	}
	return false
}

func clsJsID(s []byte) string {
	switch {
	case len(s) == 0:
		return "empty"
	case bytes.IndexByte(s, '\\') >= 0:
		return "unicode-escape"
	case hasNonASCII(s):
		return "non-ascii"
	}
	return "ascii"
}

func clsJsNum(s []byte) string {
	switch {
	case len(s) == 0:
		return "empty"
	case bytes.IndexByte(s, '_') >= 0:
		return "separator"
	case bytes.IndexAny(s, "eE") >= 0:
		return "exponent"
	case len(s) > 1 && s[0] == '0':
		return "zero-first"
	case bytes.IndexByte(s, '.') >= 0:
		return "dot"
	}
	return "plain"
}

func clsCSS(s []byte, ident bool) string {
	switch {
	case len(s) == 0:
		return "empty"
	case bytes.IndexByte(s, 0) >= 0:
		return "nul"
	case !utf8.Valid(s):
		return "invalid-utf8"
	case bytes.IndexByte(s, '\\') >= 0:
		return "escape"
	case ident && bytes.HasPrefix(s, []byte("--")):
		return "double-dash"
	case hasNonASCII(s):
		return "non-ascii"
	}
	return "plain"
}
