// Package xmldoc drives xml.Lexer (property C11) with the documents TLC derives from the XML 1.0 grammar
// (spec/xml/XmlDoc.tla): every case is a sequence of atoms plus what the specification says must be observed. The
// harness spells the atoms (several spellings per atom, chosen by seed), lexes the bytes with lexers.RunTokens, runs
// encoding/xml (Strict, RawToken) over the same bytes, and records one trace per document (Open with the concretised
// expectation and the two reference reports, one Tok event per token, Err for the error report, End) for
// spec/xml/XmlTrace.tla to judge. Seeded mutations of the documents (truncation, NUL / 0xFF / lone lead byte) are
// recorded as traces without expectation: the all-input clauses of spec/xml/XmlStream.tla apply to them.
package xmldoc

import (
	"bytes"
	"encoding/json"
	stdxml "encoding/xml"
	"flag"
	"fmt"
	"hash/fnv"
	"io"
	"math/rand"
	"os"
	"strconv"
	"strings"

	"verif/harness/internal/reg"
	"verif/harness/internal/tr"
	"verif/harness/suites/lexers"
)

type expTok struct {
	K    string `json:"k"`
	At   int    `json:"at"`
	Opt  bool   `json:"opt"`
	Text []int  `json:"text"`
	Val  []int  `json:"val"`
}

type genCase struct {
	Atoms  []string `json:"atoms"`
	Exp    []expTok `json:"exp"`
	Names  [][]int  `json:"names"`
	ANames []int    `json:"anames"`
	AVals  [][]int  `json:"avals"`
	C      int      `json:"c"`
	V      int      `json:"v"`
}

// doc is a concretised case: the bytes, and the expectation in bytes.
type doc struct {
	input []byte
	exp   []tr.E
	gen   tr.E
}

func ints2(bs [][]byte) [][]int {
	r := make([][]int, len(bs))
	for i, b := range bs {
		r[i] = tr.Ints(b)
	}
	return r
}

// concretise spells the atoms. simple: the first spelling of every atom.
func concretise(c *genCase, rng *rand.Rand, simple bool) doc {
	parts := make([][]byte, len(c.Atoms)+1)
	eb, ab := rng.Intn(len(enames)), rng.Intn(len(anames))
	if simple {
		eb, ab = 0, 0
	}
	var in []byte
	for i, a := range c.Atoms {
		var s string
		cls, k := a, 0
		if j := strings.IndexByte(a, ':'); j >= 0 {
			cls = a[:j]
			k, _ = strconv.Atoi(a[j+1:])
		}
		switch cls {
		case "ename":
			s = enames[(eb+k-1)%len(enames)]
		case "aname":
			s = anames[(ab+k-1)%len(anames)]
		default:
			sp, ok := spell[cls]
			if !ok {
				fmt.Fprintln(os.Stderr, "xmldoc: unknown atom", a)
				os.Exit(2)
			}
			if simple {
				s = sp[0]
			} else {
				s = sp[rng.Intn(len(sp))]
			}
		}
		parts[i+1] = []byte(s)
		in = append(in, s...)
	}
	cat := func(items []int) []byte {
		b := []byte{}
		for _, it := range items {
			if it < 0 {
				b = append(b, byte(-it)) // a literal byte the specification prescribes
			} else {
				b = append(b, parts[it]...)
			}
		}
		return b
	}
	d := doc{input: in}
	for _, x := range c.Exp {
		d.exp = append(d.exp, tr.E{"k": x.K, "at": x.At, "opt": x.Opt, "text": tr.Ints(cat(x.Text)), "val": tr.Ints(cat(x.Val))})
	}
	names := [][]int{}
	for _, n := range c.Names {
		names = append(names, append([]int{n[0]}, tr.Ints(parts[n[1]])...))
	}
	an := [][]int{}
	for _, n := range c.ANames {
		an = append(an, tr.Ints(parts[n]))
	}
	av := [][]int{}
	for _, v := range c.AVals {
		av = append(av, tr.Ints(cat(v)))
	}
	d.gen = tr.E{"names": names, "anames": an, "avals": av}
	if d.exp == nil {
		d.exp = []tr.E{}
	}
	return d
}

func qname(n stdxml.Name) []byte {
	if n.Space != "" {
		return []byte(n.Space + ":" + n.Local)
	}
	return []byte(n.Local)
}

// stdReport: what encoding/xml (Strict, RawToken) reports: element events, attribute names, attribute values.
func stdReport(input []byte) tr.E {
	names, an, av := [][]int{}, [][]int{}, [][]int{}
	dec := stdxml.NewDecoder(bytes.NewReader(input))
	dec.Strict = true
	ok, etext := true, ""
	func() {
		defer func() {
			if x := recover(); x != nil {
				ok, etext = false, fmt.Sprint("panic: ", x)
			}
		}()
		for {
			t, err := dec.RawToken()
			if err == io.EOF {
				return
			}
			if err != nil {
				ok, etext = false, err.Error()
				return
			}
			switch x := t.(type) {
			case stdxml.StartElement:
				names = append(names, append([]int{1}, tr.Ints(qname(x.Name))...))
				for _, a := range x.Attr {
					an = append(an, tr.Ints(qname(a.Name)))
					av = append(av, tr.Ints([]byte(a.Value)))
				}
			case stdxml.EndElement:
				names = append(names, append([]int{2}, tr.Ints(qname(x.Name))...))
			}
		}
	}()
	e := tr.E{"ok": ok, "names": names, "anames": an, "avals": av}
	if etext != "" {
		e["err"] = etext
	}
	return e
}

var emptyRep = tr.E{"names": [][]int{}, "anames": [][]int{}, "avals": [][]int{}}

// run lexes input and records the trace. d == nil: no expectation (mutated or foreign input).
func run(w *tr.Writer, input []byte, d *doc, extra tr.E) (toks int, std tr.E) {
	open := tr.E{"lang": "xml", "len": len(input), "input": tr.Ints(input), "nul": bytes.IndexByte(input, 0) >= 0}
	if d != nil {
		std = stdReport(input)
		open["wf"], open["exp"], open["gen"], open["std"] = true, d.exp, d.gen, std
	} else {
		open["wf"], open["exp"], open["gen"], open["std"] = false, []tr.E{}, emptyRep, tr.E{"ok": false, "names": [][]int{}, "anames": [][]int{}, "avals": [][]int{}}
	}
	for k, v := range extra {
		open[k] = v
	}
	w.Ev("Open", open)
	var out []lexers.Tok
	var pan interface{}
	func() {
		defer func() { pan = recover() }()
		out = lexers.RunTokens("xml", input)
	}()
	if pan != nil {
		w.Ev("Tok", tr.E{"out": "panic", "panic": fmt.Sprint(pan)})
		return 0, std
	}
	for _, t := range out {
		if t.IsErr {
			w.Ev("Err", tr.E{"eof": t.Err == io.EOF.Error(), "none": t.Err == "", "etext": firstLine(t.Err)})
			continue
		}
		toks++
		w.Ev("Tok", tr.E{"kname": t.KName, "data": tr.Ints(t.Text), "text": tr.Ints(t.Subs["text"]), "val": tr.Ints(t.Subs["val"])})
	}
	w.Ev("End", tr.E{"n": len(out)})
	return toks, std
}

func firstLine(s string) string {
	if i := strings.IndexByte(s, '\n'); i >= 0 {
		s = s[:i]
	}
	return s
}

// mutate: one seeded byte-level mutation.
func mutate(in []byte, rng *rand.Rand) ([]byte, string) {
	b := append([]byte{}, in...)
	if len(b) == 0 {
		return []byte{0}, "nul"
	}
	i := rng.Intn(len(b))
	if rng.Intn(6) == 0 { // a control character the language does or does not count as white space
		b[i] = []byte{'\f', '\v', '\r', '\t', 0x7f}[rng.Intn(5)]
		return b, "ctrl"
	}
	switch rng.Intn(5) {
	case 0:
		return b[:i], "truncate"
	case 1, 2:
		b[i] = 0
		return b, "nul"
	case 3:
		b[i] = 0xFF
		return b, "ff"
	default:
		b[i] = []byte{0xC3, 0xE2, 0xF0}[rng.Intn(3)]
		return b, "lead"
	}
}

func caseRng(seed int64, raw []byte, salt int) *rand.Rand {
	h := fnv.New64a()
	h.Write(raw)
	return rand.New(rand.NewSource(int64(h.Sum64()) ^ seed*1000003 ^ int64(salt)*7919))
}

type summary struct {
	Suite       string         `json:"suite"`
	Mode        string         `json:"mode"`
	Cases       int            `json:"cases"`
	Executions  int            `json:"executions"`
	Traces      int            `json:"traces"`
	Events      int            `json:"events"`
	Nontrivial  int            `json:"distinct_nontrivial"`
	Mutated     int            `json:"mutated"`
	WithNul     int            `json:"with_nul"`
	StdRejected int            `json:"std_rejected"`
	StdSample   interface{}    `json:"std_rejected_sample,omitempty"`
	AtomCount   map[string]int `json:"atom_count"`
	KindCount   map[string]int `json:"kind_count"`
	Samples     []interface{}  `json:"samples"`
}

func atomClass(a string) string {
	if j := strings.IndexByte(a, ':'); j >= 0 {
		return a[:j]
	}
	return a
}

func readCases(path string, fn func(raw []byte, c *genCase)) {
	seen := map[string]bool{}
	err := tr.ReadCases(path, func(line int, raw []byte) {
		if seen[string(raw)] {
			return
		}
		seen[string(raw)] = true
		var c genCase
		if err := json.Unmarshal(raw, &c); err != nil {
			fmt.Fprintln(os.Stderr, "xmldoc: bad case:", err)
			os.Exit(2)
		}
		fn(raw, &c)
	})
	if err != nil {
		fmt.Fprintln(os.Stderr, "xmldoc:", err)
		os.Exit(2)
	}
}

// Replay: cases from TLC -> documents (several spellings) -> traces; plus mutated documents.
func Replay(args []string) {
	fs := flag.NewFlagSet("xmldoc replay", flag.ExitOnError)
	cases := fs.String("cases", "", "ndjson cases of XmlDoc.tla")
	out := fs.String("out", "", "trace file")
	seed := fs.Int64("seed", 1, "seed")
	variants := fs.Int("variants", 2, "spellings per case (the first one is the plain spelling)")
	muts := fs.Int("muts", 1, "mutated documents per case")
	fs.Parse(args)
	w := tr.NewWriter(*out)
	sum := summary{Suite: "xmldoc", Mode: "replay", AtomCount: map[string]int{}, KindCount: map[string]int{}}
	seenIn := map[string]bool{}
	tid := 0
	readCases(*cases, func(raw []byte, c *genCase) {
		sum.Cases++
		for _, a := range c.Atoms {
			sum.AtomCount[atomClass(a)]++
		}
		for _, x := range c.Exp {
			sum.KindCount[x.K]++
		}
		var first []byte
		for v := 0; v < *variants; v++ {
			d := concretise(c, caseRng(*seed, raw, v), v == 0)
			if v == 0 {
				first = d.input
			}
			if seenIn[string(d.input)] {
				continue
			}
			seenIn[string(d.input)] = true
			tid++
			w.Begin(tid)
			n, std := run(w, d.input, &d, tr.E{"atoms": c.Atoms, "c": c.C, "v": c.V})
			w.End(true)
			sum.Executions++
			if n >= 3 {
				sum.Nontrivial++
			}
			if std["ok"] != true {
				sum.StdRejected++
				if sum.StdSample == nil {
					sum.StdSample = map[string]interface{}{"input": string(d.input), "err": std["err"], "atoms": c.Atoms}
				}
			}
			if len(sum.Samples) < 3 && len(c.Atoms) > 12 && v > 0 {
				sum.Samples = append(sum.Samples, map[string]interface{}{"atoms": c.Atoms, "input": string(d.input)})
			}
		}
		rng := caseRng(*seed, raw, 1000)
		for m := 0; m < *muts; m++ {
			src := first
			if m > 0 {
				src = concretise(c, caseRng(*seed, raw, 1000+m), false).input
			}
			b, how := mutate(src, rng)
			if seenIn[string(b)] {
				continue
			}
			seenIn[string(b)] = true
			tid++
			w.Begin(tid)
			run(w, b, nil, tr.E{"mutation": how})
			w.End(true)
			sum.Executions++
			sum.Mutated++
			if bytes.IndexByte(b, 0) >= 0 {
				sum.WithNul++
			}
		}
	})
	w.Close()
	sum.Traces, sum.Events = w.Traces, w.Events
	json.NewEncoder(os.Stdout).Encode(sum)
}

// Inputs: every concretised document and a few seeded mutations each, as {"lang","input"} lines (for `vdrive lexers file`).
func Inputs(args []string) {
	fs := flag.NewFlagSet("xmldoc inputs", flag.ExitOnError)
	cases := fs.String("cases", "", "ndjson cases of XmlDoc.tla")
	out := fs.String("out", "", "ndjson {lang, input}")
	seed := fs.Int64("seed", 1, "seed")
	variants := fs.Int("variants", 2, "spellings per case")
	muts := fs.Int("muts", 3, "mutations per document")
	fs.Parse(args)
	f, err := os.Create(*out)
	if err != nil {
		fmt.Fprintln(os.Stderr, err)
		os.Exit(2)
	}
	sum := summary{Suite: "xmldoc", Mode: "inputs"}
	seenIn := map[string]bool{}
	put := func(b []byte) {
		if seenIn[string(b)] {
			return
		}
		seenIn[string(b)] = true
		line, _ := json.Marshal(map[string]interface{}{"lang": "xml", "input": tr.Ints(b)})
		f.Write(append(line, '\n'))
		sum.Executions++
	}
	readCases(*cases, func(raw []byte, c *genCase) {
		sum.Cases++
		for v := 0; v < *variants; v++ {
			d := concretise(c, caseRng(*seed, raw, v), v == 0)
			put(d.input)
			rng := caseRng(*seed, raw, 2000+v)
			for m := 0; m < *muts; m++ {
				b, _ := mutate(d.input, rng)
				put(b)
				sum.Mutated++
			}
		}
	})
	f.Close()
	json.NewEncoder(os.Stdout).Encode(sum)
}

// File: re-run recorded documents (reproduction and --replay). Every line is the Open event of a trace (input, and for a
// generated document wf/exp/gen): the lexer and encoding/xml are run again, the expectation is taken from the line.
func File(args []string) {
	fs := flag.NewFlagSet("xmldoc file", flag.ExitOnError)
	in := fs.String("in", "", "ndjson {input, wf, exp, gen}")
	out := fs.String("out", "", "trace file")
	fs.Parse(args)
	w := tr.NewWriter(*out)
	sum := summary{Suite: "xmldoc", Mode: "file"}
	tid := 0
	err := tr.ReadCases(*in, func(line int, raw []byte) {
		var c struct {
			Input []int           `json:"input"`
			Wf    bool            `json:"wf"`
			Exp   []tr.E          `json:"exp"`
			Gen   tr.E            `json:"gen"`
			Atoms json.RawMessage `json:"atoms"`
		}
		if err := json.Unmarshal(raw, &c); err != nil {
			fmt.Fprintln(os.Stderr, "xmldoc: bad line:", err)
			os.Exit(2)
		}
		b := make([]byte, len(c.Input))
		for i, v := range c.Input {
			b[i] = byte(v)
		}
		tid++
		w.Begin(tid)
		if c.Wf {
			if c.Exp == nil {
				c.Exp = []tr.E{}
			}
			extra := tr.E{}
			if c.Atoms != nil {
				extra["atoms"] = c.Atoms
			}
			run(w, b, &doc{input: b, exp: c.Exp, gen: c.Gen}, extra)
		} else {
			run(w, b, nil, nil)
		}
		w.End(true)
		sum.Executions++
	})
	if err != nil {
		fmt.Fprintln(os.Stderr, "xmldoc:", err)
		os.Exit(2)
	}
	w.Close()
	sum.Traces, sum.Events = w.Traces, w.Events
	json.NewEncoder(os.Stdout).Encode(sum)
}

func init() {
	reg.Register("xmldoc", "replay", Replay)
	reg.Register("xmldoc", "inputs", Inputs)
	reg.Register("xmldoc", "file", File)
}
