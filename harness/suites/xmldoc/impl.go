package xmldoc

// Differential conformance of the implementation-shaped model spec/xml/XmlImpl.tla (kind I) with xml.Lexer: TLC writes
// every class string within its bound together with the token list the model predicts (type, [lo,hi) in characters,
// Text() / AttrVal() ranges, positions rewritten to ' '); this mode spells every character class with a representative
// byte sequence chosen by the seed, lexes the bytes with lexers.RunTokens and compares token by token: type, byte length,
// the bytes themselves (the input with the predicted rewrites), Text(), AttrVal(), and the error report (EOF / not).
// A difference is MODEL DRIFT, never a verdict: the differing inputs (and a seeded sample of the others) are recorded
// as ordinary xmldoc traces, and spec/xml/XmlTrace.tla (the property) judges what the code did on them.

import (
	"bytes"
	"encoding/json"
	"flag"
	"fmt"
	"hash/fnv"
	"io"
	"os"

	"verif/harness/internal/reg"
	"verif/harness/internal/tr"
	"verif/harness/suites/lexers"
)

// character class of XmlImpl.tla -> representatives. The lexer compares bytes only with < > / ! ? - = " ' [ ] space
// tab LF CR NUL and the letters of CDATA / DOCTYPE, so "x" is any other byte (sequence): none of its spellings contains
// a byte the lexer tests for, and none is an upper-case letter of the two keywords.
var implBytes = map[string][]string{
	"lt": {"<"}, "gt": {">"}, "slash": {"/"}, "bang": {"!"}, "qmark": {"?"}, "dash": {"-"}, "eq": {"="}, "dq": {`"`}, "sq": {"'"},
	"lb": {"["}, "rb": {"]"}, "sp": {" "}, "nl": {"\t", "\n", "\r"}, "nul": {"\x00"},
	"C": {"C"}, "D": {"D"}, "A": {"A"}, "T": {"T"}, "O": {"O"}, "Y": {"Y"}, "P": {"P"}, "E": {"E"},
	"x": {"a", "z", "Q", "_", "7", ":", ".", "&", ";", "#", "%", "d", "e", "\x01", "\x7f", "\f", "\u00a0", "é", "†", "\U0001F600", "\xff", "\xc3", "\xe2\x80", "\x80"},
}

type implTok struct {
	K    string `json:"k"`
	Lo   int    `json:"lo"`
	Hi   int    `json:"hi"`
	TLo  int    `json:"tlo"`
	THi  int    `json:"thi"`
	VLo  int    `json:"vlo"`
	VHi  int    `json:"vhi"`
	Norm []int  `json:"norm"`
}

type implCase struct {
	Atoms []string  `json:"atoms"`
	Chars []string  `json:"chars"`
	Toks  []implTok `json:"toks"`
	End   struct {
		Panic bool `json:"panic"`
		EOF   bool `json:"eof"`
		None  bool `json:"none"`
		At    int  `json:"at"`
	} `json:"end"`
}

type implSummary struct {
	Suite      string         `json:"suite"`
	Mode       string         `json:"mode"`
	Cases      int            `json:"cases"`
	Executions int            `json:"executions"`
	Mismatches int            `json:"mismatches"`
	Traces     int            `json:"traces"`
	Events     int            `json:"events"`
	Nontrivial int            `json:"distinct_nontrivial"`
	Tokens     int            `json:"tokens_compared"`
	KindCount  map[string]int `json:"kind_count"`
	EndCount   map[string]int `json:"end_count"`
	NormCases  int            `json:"norm_cases"`
	Drift      []interface{}  `json:"drift_samples"`
	DriftKinds map[string]int `json:"drift_kinds"`
	Samples    []interface{}  `json:"samples"`
}

// spellChars: the bytes, and off[i] = byte offset of character i (off[len] = len of the input).
func spellChars(chars []string, seed int64, raw []byte, salt int) ([]byte, []int) {
	rng := caseRng(seed, raw, salt)
	var in []byte
	off := make([]int, len(chars)+1)
	for i, c := range chars {
		reps, ok := implBytes[c]
		if !ok {
			fmt.Fprintln(os.Stderr, "xmldoc impl: unknown character class", c)
			os.Exit(2)
		}
		off[i] = len(in)
		in = append(in, reps[rng.Intn(len(reps))]...)
	}
	off[len(chars)] = len(in)
	return in, off
}

// diffImpl compares the prediction with what the lexer returned; "" if they agree, else (field, detail).
func diffImpl(c *implCase, in []byte, off []int, got []lexers.Tok, pan interface{}) (string, string) {
	if pan != nil {
		if c.End.Panic {
			return "", ""
		}
		return "panic", fmt.Sprint(pan)
	}
	if c.End.Panic {
		return "panic", "model predicts a panic, the code returned"
	}
	exp := append([]byte{}, in...) // the buffer as the model rewrites it
	at := func(i int) int {
		if i < 0 || i >= len(off) {
			return -1
		}
		return off[i]
	}
	for i, x := range c.Toks {
		if i >= len(got) {
			return "count", fmt.Sprintf("model: %d tokens, code: %d reports", len(c.Toks), len(got))
		}
		g := got[i]
		if g.IsErr {
			return "count", fmt.Sprintf("token %d: model %s, code: error report %q", i, x.K, g.Err)
		}
		if g.KName != x.K {
			return "kind", fmt.Sprintf("token %d: model %s, code %s", i, x.K, g.KName)
		}
		for _, q := range x.Norm {
			if b := at(q); b >= 0 && b < len(exp) {
				exp[b] = ' '
			}
		}
		lo, hi := at(x.Lo), at(x.Hi)
		if lo < 0 || hi < lo || at(x.TLo) < 0 || at(x.THi) < at(x.TLo) || at(x.VLo) < 0 || at(x.VHi) < at(x.VLo) {
			return "range", fmt.Sprintf("token %d: model ranges %+v outside the input", i, x)
		}
		if len(g.Text) != hi-lo {
			return "len", fmt.Sprintf("token %d %s: model %d bytes, code %d bytes %q", i, x.K, hi-lo, len(g.Text), g.Text)
		}
		if !bytes.Equal(g.Text, exp[lo:hi]) {
			return "data", fmt.Sprintf("token %d %s: model %q, code %q", i, x.K, exp[lo:hi], g.Text)
		}
		if t := exp[at(x.TLo):at(x.THi)]; !bytes.Equal(g.Subs["text"], t) {
			return "text", fmt.Sprintf("token %d %s: Text() model %q, code %q", i, x.K, t, g.Subs["text"])
		}
		if x.K == "Attribute" {
			if v := exp[at(x.VLo):at(x.VHi)]; !bytes.Equal(g.Subs["val"], v) {
				return "val", fmt.Sprintf("token %d: AttrVal() model %q, code %q", i, v, g.Subs["val"])
			}
		}
	}
	if len(got) != len(c.Toks)+1 {
		return "count", fmt.Sprintf("model: %d tokens then the error report, code: %d reports", len(c.Toks), len(got))
	}
	e := got[len(got)-1]
	if !e.IsErr {
		return "err", "code: no error report within the call budget"
	}
	if eof, none := e.Err == io.EOF.Error(), e.Err == ""; eof != c.End.EOF || none != c.End.None {
		return "err", fmt.Sprintf("error report: model eof=%v none=%v, code %q", c.End.EOF, c.End.None, firstLine(e.Err))
	}
	return "", ""
}

// Impl: cases of XmlImpl.tla -> bytes -> xml.Lexer; prediction against observation.
func Impl(args []string) {
	fs := flag.NewFlagSet("xmldoc impl", flag.ExitOnError)
	cases := fs.String("cases", "", "ndjson cases of XmlImpl.tla")
	out := fs.String("out", "", "trace file (differing inputs and every -every'th other one)")
	seed := fs.Int64("seed", 1, "seed")
	variants := fs.Int("variants", 1, "spellings per case")
	every := fs.Int("every", 50, "record a trace for one in so many agreeing cases (0: none)")
	tidbase := fs.Int("tidbase", 0, "first trace id minus one (trace files of several runs are concatenated)")
	fs.Parse(args)
	w := tr.NewWriter(*out)
	sum := implSummary{Suite: "xmldoc", Mode: "impl", KindCount: map[string]int{}, EndCount: map[string]int{}, DriftKinds: map[string]int{}}
	seenIn := map[string]bool{}
	tid := *tidbase
	seenCase := map[string]bool{}
	err := tr.ReadCases(*cases, func(line int, raw []byte) {
		if seenCase[string(raw)] {
			return
		}
		seenCase[string(raw)] = true
		var c implCase
		if err := json.Unmarshal(raw, &c); err != nil {
			fmt.Fprintln(os.Stderr, "xmldoc impl: bad case:", err)
			os.Exit(2)
		}
		sum.Cases++
		for _, x := range c.Toks {
			sum.KindCount[x.K]++
		}
		normed := false
		for _, x := range c.Toks {
			normed = normed || len(x.Norm) > 0
		}
		if normed {
			sum.NormCases++
		}
		switch {
		case c.End.Panic:
			sum.EndCount["panic"]++
		case c.End.EOF:
			sum.EndCount["eof"]++
		case c.End.None:
			sum.EndCount["none"]++
		default:
			sum.EndCount["error"]++
		}
		h := fnv.New32a()
		h.Write(raw)
		sampled := *every > 0 && int(h.Sum32()%uint32(*every)) == 0
		for v := 0; v < *variants; v++ {
			in, off := spellChars(c.Chars, *seed, raw, v)
			if seenIn[string(in)] {
				continue
			}
			seenIn[string(in)] = true
			var got []lexers.Tok
			var pan interface{}
			func() {
				defer func() { pan = recover() }()
				got = lexers.RunTokens("xml", in)
			}()
			sum.Executions++
			sum.Tokens += len(c.Toks)
			if len(c.Toks) >= 2 {
				sum.Nontrivial++
			}
			field, detail := diffImpl(&c, in, off, got, pan)
			if field != "" {
				sum.Mismatches++
				sum.DriftKinds[field]++
				if len(sum.Drift) < 12 {
					sum.Drift = append(sum.Drift, map[string]interface{}{"atoms": c.Atoms, "input": string(in), "field": field, "detail": detail})
				}
			}
			if field != "" || (sampled && v == 0) {
				tid++
				w.Begin(tid)
				run(w, in, nil, tr.E{"cls": c.Chars, "impl": true, "drift": field})
				w.End(true)
			}
			if len(sum.Samples) < 3 && len(c.Toks) >= 3 && sampled {
				sum.Samples = append(sum.Samples, map[string]interface{}{"atoms": c.Atoms, "input": string(in), "predicted": c.Toks})
			}
		}
	})
	if err != nil {
		fmt.Fprintln(os.Stderr, "xmldoc impl:", err)
		os.Exit(2)
	}
	w.Close()
	sum.Traces, sum.Events = w.Traces, w.Events
	json.NewEncoder(os.Stdout).Encode(sum)
}

func init() {
	reg.Register("xmldoc", "impl", Impl)
}
