package xmldoc

// The atom -> bytes table of spec/xml/XmlDoc.tla. Every atom has several spellings; the seed picks one. Spellings keep
// the SHAPE the specification declares for the atom (XmlDoc!Shape): a piece of shape "x" neither starts nor ends with
// a character a lexical side condition talks about ('-' in comments; ']' and '>' at the edges of CDATA pieces).
var spell = map[string][]string{
	"s":       {" ", "\t", "\n", "\r\n", "  ", " \n\t"},
	"eq":      {"="},
	"dq":      {`"`},
	"sq":      {"'"},
	"stag.lt": {"<"}, "stag.gt": {">"}, "stag.void": {"/>"}, "etag.lt": {"</"}, "etag.gt": {">"},
	"pi.open": {"<?"}, "pi.close": {"?>"},
	"xd.xml": {"xml"}, "xd.version": {"version"}, "xd.v10": {"1.0"}, "xd.encoding": {"encoding"},
	"xd.utf8": {"UTF-8", "utf-8"}, "xd.standalone": {"standalone"}, "xd.yesno": {"yes", "no"},
	"pitarget": {"pi", "xml-stylesheet", "php", "x.y", "_t", "xm", "XSL", "p:q"},
	"misc.s":   {"\n", " ", "\r\n", "\t", "\n\n  "},
	"chardata": {"text", " a b ", "x>y", "&amp;", "&#65;&#x42;", "]]", "]", "a]b>c", "'\"", "é†", "\n  ", "=/?", "--", "?>", "/>", "t&lt;u", "\U0001F600"},
	// attribute values: no '<', no '&', no quote of either kind in v.text
	"v.text": {"a", "value", "1.0", "é", "a b", "x/y", "?", "[]", "#f00", "a;b", "%", "-", "http://x.y/z?q"},
	"v.gt":   {">"}, "v.sp": {" ", "  "}, "v.tab": {"\t"}, "v.nl": {"\n"}, "v.cr": {"\r"}, "v.eq": {"="},
	"v.slashgt": {"/>"}, "v.qgt": {"?>"}, "v.sq": {"'"}, "v.dq": {`"`},
	// comments
	"cmt.open": {"<!--"}, "cmt.close": {"-->"},
	"c.text": {"x", " comment ", "é", "a b\nc", " "}, "c.dash": {"-"}, "c.dashgt": {"->"}, "c.gt": {">"}, "c.lt": {"<"},
	"c.quote": {`"`, "'"}, "c.qgt": {"?>"}, "c.cdend": {"]]>"}, "c.tag": {"<a b='c'>", "</a>", "<!DOCTYPE a>", "<![CDATA["}, "c.amp": {"&", "&x;"},
	// CDATA sections
	"cd.open": {"<![CDATA["}, "cd.close": {"]]>"},
	"cd.text": {"x", " test ", "é", "a b", "\n"}, "cd.rb": {"]"}, "cd.rbrb": {"]]"}, "cd.rbgt": {"]>"}, "cd.gt": {">"}, "cd.lt": {"<"},
	"cd.amp": {"&", "&amp;"}, "cd.tag": {`<a b="c">`, "</a>", "<b/>"}, "cd.cmt": {"<!-- c -->", "<![CDATA[", "<?pi?>"},
	// DOCTYPE
	"dt.open": {"<!DOCTYPE"}, "dt.close": {">"}, "dt.s": {" ", "\n", "\t", "  "}, "dt.name": {"a", "html", "note", "x:y"},
	"dt.SYSTEM": {"SYSTEM"}, "dt.PUBLIC": {"PUBLIC"}, "dt.pubid": {"-//W3C//DTD XHTML 1.0 Strict//EN", "id", "", "a b"},
	"dt.dq": {`"`}, "dt.sq": {"'"}, "dt.lb": {"["}, "dt.rb": {"]"},
	"ds.entopen": {"<!ENTITY e ", "<!ENTITY % p ", "<!ENTITY\tnbsp\n"}, "ds.declclose": {">", " >"},
	"ds.s": {" ", "\n", "\n  "}, "ds.peref": {"%p;"}, "ds.elemdecl": {"<!ELEMENT a ANY>", "<!ATTLIST a b CDATA #IMPLIED>", "<?pi x?>", "<!ELEMENT a (#PCDATA|b)*>"},
	"dc.open": {"<!--"}, "dc.close": {"-->"},
	"dc.text": {"c", " note ", "x y"}, "dc.gt": {">"}, "dc.dq": {`"`}, "dc.sq": {"'"}, "dc.lb": {"["}, "dc.rb": {"]"},
}

func init() {
	for _, ctx := range []string{"xl", "el"} {
		for _, q := range []string{"dq", "sq"} {
			p := ctx + "." + q + "."
			if ctx == "xl" {
				spell[p+"text"] = []string{"x", "Note.dtd", "http://a/b.dtd", "a b"}
			} else {
				spell[p+"text"] = []string{"x", "Writer: Donald Duck.", " ", "a=b"}
			}
			spell[p+"gt"] = []string{">"}
			spell[p+"lb"] = []string{"["}
			spell[p+"rb"] = []string{"]"}
			if q == "dq" {
				spell[p+"sq"] = []string{"'"}
			} else {
				spell[p+"dq"] = []string{`"`}
			}
		}
	}
}

// names: valid XML Names; attribute names of one tag must differ (the k-th attribute takes the (base+k)-th name)
var enames = []string{"a", "foo", "b1", "x-y", "a.b", "_u", "ns:tag", "él", "A", "foo:bar.qux-norf", "svg",
	// names that END in a multi-byte character, among them ones whose last byte is 0x85 / 0xA0 (white space in Latin-1 / Unicode)
	"voilà", "цех", "é", "drogą"}
var anames = []string{"b", "id", "x1", "a-b", "c.d", "_v", "xml:lang", "ns:at", "é", "B", "href", "à", "цех"}
