// Package printer drives js.Parse and AST.JS() for property C05 (printing a tree and parsing the text again gives the
// same tree). For one input and one Options value it parses, prints, parses the printed text, prints again, compares the
// two trees by reflection with GroupExpr wrappers removed on both sides, and looks up the literal tokens and preserved
// comments of the SOURCE in the printed text. Every step is one event of a trace for spec/js/PrinterTrace.tla; the
// verdict is the trace specification's.
package printer

import (
	"bytes"
	"fmt"
	"reflect"
	"strings"
	"unicode/utf8"
	"unsafe"

	"github.com/tdewolff/parse/v2"
	"github.com/tdewolff/parse/v2/js"

	"verif/harness/internal/tr"
)

var (
	tScope   = reflect.TypeOf(js.Scope{})
	tVar     = reflect.TypeOf(js.Var{})
	tGroup   = reflect.TypeOf(js.GroupExpr{})
	tLiteral = reflect.TypeOf(js.LiteralExpr{})
	tTmpl    = reflect.TypeOf(js.TemplateExpr{})
	tComment = reflect.TypeOf(js.Comment{})
)

// Opts maps 0..3 to the four js.Options values.
func Opts(k int) js.Options { return js.Options{WhileToFor: k&1 != 0, Inline: k&2 != 0} }

func typeName(t reflect.Type) string {
	for t.Kind() == reflect.Ptr {
		t = t.Elem()
	}
	return t.Name()
}

// ---------------------------------------------------------------------------------------------- tree comparison

// difference describes the first place where two trees differ.
type difference struct {
	Path      string // field path from the root, e.g. List[0].Value.X
	Construct string // innermost node type and field, e.g. NewExpr.Args
	What      string // what differs there
}

// stripGroup removes parenthesis nodes from an interface value.
func stripGroup(v reflect.Value) reflect.Value {
	for v.Kind() == reflect.Interface && !v.IsNil() {
		e := v.Elem()
		if e.Kind() == reflect.Ptr && !e.IsNil() && e.Type().Elem() == tGroup {
			v = e.Elem().FieldByName("X")
			continue
		}
		if e.Kind() == reflect.Struct && e.Type() == tGroup {
			v = e.FieldByName("X")
			continue
		}
		break
	}
	return v
}

// diff compares two values of the same static type structurally: node kinds, operators, literal data, identifier names,
// flags; parenthesis nodes are removed on both sides; scope tables, Var pointers/links/uses are not looked at.
func diff(a, b reflect.Value, path string, node string, field string, depth int) *difference {
	if depth > 100000 {
		return nil
	}
	mk := func(what string) *difference {
		return &difference{Path: path, Construct: node + "." + field, What: what}
	}
	switch a.Kind() {
	case reflect.Interface:
		a, b = stripGroup(a), stripGroup(b)
		if a.Kind() != reflect.Interface || b.Kind() != reflect.Interface {
			return mk("group")
		}
		if a.IsNil() || b.IsNil() {
			if a.IsNil() != b.IsNil() {
				return mk(fmt.Sprintf("%s->%s", dynName(a), dynName(b)))
			}
			return nil
		}
		ae, be := a.Elem(), b.Elem()
		if ae.Type() != be.Type() {
			return mk(fmt.Sprintf("%s->%s", typeName(ae.Type()), typeName(be.Type())))
		}
		return diff(ae, be, path, node, field, depth+1)
	case reflect.Ptr:
		if a.Type().Elem() == tScope {
			return nil
		}
		if a.IsNil() || b.IsNil() {
			if a.IsNil() != b.IsNil() {
				return mk(fmt.Sprintf("%s->%s", nilName(a), nilName(b)))
			}
			return nil
		}
		if a.Type().Elem() == tVar {
			an, bn := a.Interface().(*js.Var).Name(), b.Interface().(*js.Var).Name()
			if !bytes.Equal(an, bn) {
				return mk(fmt.Sprintf("name %q->%q", an, bn))
			}
			return nil
		}
		return diff(a.Elem(), b.Elem(), path, node, field, depth+1)
	case reflect.Struct:
		t := a.Type()
		if t == tScope {
			return nil
		}
		name := t.Name()
		for i := 0; i < t.NumField(); i++ {
			f := t.Field(i)
			if f.PkgPath != "" || f.Type == tScope || (f.Type.Kind() == reflect.Ptr && f.Type.Elem() == tScope) {
				continue
			}
			p := path
			if !f.Anonymous {
				if p != "" {
					p += "."
				}
				p += f.Name
			}
			if d := diff(a.Field(i), b.Field(i), p, name, f.Name, depth+1); d != nil {
				return d
			}
		}
		return nil
	case reflect.Slice:
		if a.Type().Elem().Kind() == reflect.Uint8 {
			ab, bb := a.Bytes(), b.Bytes()
			if !bytes.Equal(ab, bb) {
				return mk(fmt.Sprintf("data %q->%q", clip(ab), clip(bb)))
			}
			return nil // a nil and an empty byte slice are the same (absent) text
		}
		if a.Len() != b.Len() {
			return mk(fmt.Sprintf("len %d->%d", a.Len(), b.Len()))
		}
		// a nil and an empty list are the same list: Go's distinction is not one of the tree
		for i := 0; i < a.Len(); i++ {
			if d := diff(a.Index(i), b.Index(i), fmt.Sprintf("%s[%d]", path, i), node, field, depth+1); d != nil {
				return d
			}
		}
		return nil
	case reflect.Bool:
		if a.Bool() != b.Bool() {
			return mk(fmt.Sprintf("%v->%v", a.Bool(), b.Bool()))
		}
	case reflect.Int, reflect.Int8, reflect.Int16, reflect.Int32, reflect.Int64:
		if a.Int() != b.Int() {
			return mk(fmt.Sprintf("%v->%v", a.Interface(), b.Interface()))
		}
	case reflect.Uint, reflect.Uint8, reflect.Uint16, reflect.Uint32, reflect.Uint64:
		if a.Uint() != b.Uint() {
			return mk(fmt.Sprintf("%v->%v", a.Interface(), b.Interface()))
		}
	}
	return nil
}

func clip(b []byte) []byte {
	if len(b) > 24 {
		return b[:24]
	}
	return b
}

func dynName(v reflect.Value) string {
	if v.IsNil() {
		return "nil"
	}
	return typeName(v.Elem().Type())
}

func nilName(v reflect.Value) string {
	if v.IsNil() {
		return "nil"
	}
	if v.Kind() == reflect.Slice {
		return "empty"
	}
	return typeName(v.Type())
}

// ---------------------------------------------------------------------------------------------- literals of the source

// Lit is one token of the source whose bytes the printed text must contain.
type Lit struct {
	Kind   string // string | template | regexp | numeric | comment | shebang
	Text   []byte
	Off    int
	Expr   bool // a literal in expression position (all comments count)
	InTree bool // the first tree holds it in an expression slot
}

func offsetIn(base []byte, d []byte) int {
	if len(d) == 0 || len(base) == 0 {
		return -1
	}
	o := int(uintptr(unsafe.Pointer(&d[0])) - uintptr(unsafe.Pointer(&base[0])))
	if uintptr(unsafe.Pointer(&d[0])) < uintptr(unsafe.Pointer(&base[0])) || o+len(d) > len(base) {
		return -1
	}
	return o
}

// treeLiterals returns the offsets (in the parsed buffer) of the regular expression literals and of all literal data in
// expression position found in the tree: LiteralExpr nodes held in an expression slot, and the parts of TemplateExpr nodes.
func treeLiterals(ast *js.AST, base []byte) (regexps map[int]bool, exprs map[int]bool, comments map[string]bool, held [][2]int) {
	regexps, exprs, comments = map[int]bool{}, map[int]bool{}, map[string]bool{}
	var walk func(v reflect.Value, viaIface bool, depth int)
	walk = func(v reflect.Value, viaIface bool, depth int) {
		if depth > 100000 {
			return
		}
		switch v.Kind() {
		case reflect.Interface:
			if !v.IsNil() {
				walk(v.Elem(), true, depth+1)
			}
		case reflect.Ptr:
			if !v.IsNil() && v.Type().Elem() != tScope && v.Type().Elem() != tVar {
				walk(v.Elem(), viaIface, depth+1)
			}
		case reflect.Struct:
			t := v.Type()
			if t == tScope || t == tVar {
				return
			}
			if t == tLiteral {
				l := v.Interface().(js.LiteralExpr)
				if o := offsetIn(base, l.Data); o >= 0 {
					if l.TokenType == js.RegExpToken {
						regexps[o] = true
					}
					if viaIface {
						exprs[o] = true
					} else {
						held = append(held, [2]int{o, len(l.Data)})
					}
				}
				return
			}
			if t == tComment {
				comments[string(v.Interface().(js.Comment).Value)] = true
				return
			}
			if t == tTmpl {
				te := v.Interface().(js.TemplateExpr)
				for _, p := range te.List {
					if o := offsetIn(base, p.Value); o >= 0 {
						exprs[o] = true
					}
				}
				if o := offsetIn(base, te.Tail); o >= 0 {
					exprs[o] = true
				}
			}
			for i := 0; i < t.NumField(); i++ {
				f := t.Field(i)
				if f.PkgPath != "" || f.Type == tScope || (f.Type.Kind() == reflect.Ptr && f.Type.Elem() == tScope) {
					continue
				}
				walk(v.Field(i), false, depth+1)
			}
		case reflect.Slice:
			if v.Type().Elem().Kind() == reflect.Uint8 {
				// text the tree holds in a slot that is not an expression (module specifier, alias, directive, label ...)
				if o := offsetIn(base, v.Bytes()); o >= 0 {
					held = append(held, [2]int{o, v.Len()})
				}
				return
			}
			for i := 0; i < v.Len(); i++ {
				walk(v.Index(i), false, depth+1)
			}
		}
	}
	walk(reflect.ValueOf(ast), false, 0)
	return
}

func lineEnd(src []byte) int {
	for i := 0; i < len(src); i++ {
		if src[i] == '\n' || src[i] == '\r' {
			return i
		}
		if src[i] == 0xE2 && i+2 < len(src) && src[i+1] == 0x80 && (src[i+2] == 0xA8 || src[i+2] == 0xA9) {
			return i
		}
	}
	return len(src)
}

// sourceLiterals lexes the source with js.Lexer. Where the tree says a regular expression literal starts, the lexer is
// switched to RegExp() just as the parser does. Returns the literal tokens, the number of significant tokens, and
// whether the lexer reached the end without an error.
func sourceLiterals(src []byte, inline bool, regexps, exprs map[int]bool, held [][2]int) (lits []Lit, ntok int, ok bool) {
	// a literal token is NOT in expression position exactly when the tree holds (part of) its bytes in a slot that is
	// not an expression: property name, module specifier, import/export alias, directive. A literal the tree does not
	// hold at all counts as one in expression position (the parser lost it).
	elsewhere := func(off, n int) bool {
		for _, h := range held {
			if off <= h[0] && h[0]+h[1] <= off+n {
				return true
			}
		}
		return false
	}
	start := 0
	if !inline && len(src) >= 2 && src[0] == '#' && src[1] == '!' {
		start = lineEnd(src)
		lits = append(lits, Lit{Kind: "shebang", Text: src[:start], Off: 0, Expr: true})
	}
	buf := make([]byte, len(src)-start, len(src)-start+1)
	copy(buf, src[start:])
	in := parse.NewInputBytes(buf)
	l := js.NewLexer(in)
	for {
		tt, data := l.Next()
		if tt == js.ErrorToken {
			return lits, ntok, l.Err() != nil && l.Err().Error() == "EOF"
		}
		off := start + in.Offset() - len(data)
		if (tt == js.DivToken || tt == js.DivEqToken) && regexps[off] {
			tt, data = l.RegExp()
			if tt == js.ErrorToken {
				return lits, ntok, false
			}
		}
		kind := ""
		switch {
		case tt == js.WhitespaceToken || tt == js.LineTerminatorToken:
			continue
		case tt == js.CommentToken || tt == js.CommentLineTerminatorToken:
			if 2 < len(data) && data[2] == '!' {
				lits = append(lits, Lit{Kind: "comment", Text: append([]byte{}, data...), Off: off, Expr: true})
			}
			continue
		case tt == js.StringToken:
			kind = "string"
		case tt == js.TemplateToken || tt == js.TemplateStartToken || tt == js.TemplateMiddleToken || tt == js.TemplateEndToken:
			kind = "template"
		case tt == js.RegExpToken:
			kind = "regexp"
		case js.IsNumeric(tt):
			kind = "numeric"
		}
		ntok++
		if kind != "" {
			lits = append(lits, Lit{Kind: kind, Text: append([]byte{}, data...), Off: off, Expr: exprs[off] || !elsewhere(off, len(data)), InTree: exprs[off]})
		}
	}
}

// missingLiterals looks the literals up in the printed text: literal tokens in source order (each after the previous
// one's occurrence), comments anywhere. Returns the indices (into lits) that are missing.
func missingLiterals(lits []Lit, text []byte) (missing []int) {
	pos := 0
	for i, l := range lits {
		if l.Kind == "comment" || l.Kind == "shebang" {
			if !bytes.Contains(text, l.Text) {
				missing = append(missing, i)
			}
			continue
		}
		k := bytes.Index(text[pos:], l.Text)
		if k < 0 {
			missing = append(missing, i)
			continue
		}
		if l.Expr {
			// only the literals that are judged advance the scan: a property name may legitimately be printed in
			// another spelling, and its bytes may then be found by accident further down
			pos += k + len(l.Text)
		}
	}
	return
}

// ---------------------------------------------------------------------------------------------- one round trip

// Result of one execution.
type Result struct {
	Accepted bool
	Mismatch bool
	Rule     string // first rule that failed (pre-check only; the verdict is the trace specification's)
	Key      string // rule, construct and Options value of the first failure
	Tokens   int
	Text1    string
}

func parseBytes(src []byte, o js.Options) (ast *js.AST, base []byte, err error, panicked string) {
	buf := make([]byte, len(src), len(src)+1)
	copy(buf, src)
	in := parse.NewInputBytes(buf)
	base = in.Bytes()
	defer func() {
		if x := recover(); x != nil {
			panicked = fmt.Sprint(x)
			ast = nil
		}
	}()
	ast, err = js.Parse(in, o)
	return
}

func printTree(ast *js.AST) (text []byte, panicked string) {
	defer func() {
		if x := recover(); x != nil {
			panicked = fmt.Sprint(x)
		}
	}()
	var b bytes.Buffer
	ast.JS(&b)
	return b.Bytes(), ""
}

func firstLine(err error) string {
	s := strings.SplitN(err.Error(), "\n", 2)[0]
	if len(s) > 120 {
		s = s[:120]
	}
	return s
}

// RoundTrip runs the protocol on src under option value opt and records it as the current trace of w (the caller has
// called w.Begin and decides with w.End whether the trace is kept). Inputs that are not valid UTF-8 or that js.Parse
// rejects are outside the property: nothing is recorded and Accepted is false.
func RoundTrip(w *tr.Writer, src []byte, opt int, meta tr.E) Result {
	res := Result{}
	if !utf8.Valid(src) {
		return res
	}
	o := Opts(opt)
	ast1, base1, err, pan := parseBytes(src, o)
	if pan == "" && (err != nil || ast1 == nil) {
		return res
	}
	res.Accepted = true
	open := tr.E{"src": tr.Ints(src), "opt": opt, "utf8": true}
	for k, v := range meta {
		open[k] = v
	}
	w.Ev("Open", open)
	fail := func(rule string, detail ...interface{}) {
		if !res.Mismatch {
			res.Mismatch, res.Rule = true, rule
			res.Key = fmt.Sprint(rule, opt, detail)
		}
	}
	if pan != "" {
		w.Ev("Parse1", tr.E{"out": "panic", "panic": pan, "ok": false})
		fail("panic")
		return res
	}
	w.Ev("Parse1", tr.E{"ok": true})

	regexps, exprs, comments, held := treeLiterals(ast1, base1)
	lits, ntok, lexok := sourceLiterals(src, o.Inline, regexps, exprs, held)
	res.Tokens = ntok
	w.Buf()[0]["ntok"] = ntok

	text1, pan := printTree(ast1)
	if pan != "" {
		w.Ev("Print1", tr.E{"out": "panic", "panic": pan, "text": []int{}})
		fail("panic")
		return res
	}
	res.Text1 = string(text1)
	w.Ev("Print1", tr.E{"text": tr.Ints(text1)})

	// (d) literal fidelity
	miss := missingLiterals(lits, text1)
	missing, mkinds, other, intree := []int{}, []string{}, []string{}, []bool{}
	var mtext []int
	for _, i := range miss {
		if lits[i].Expr {
			if len(missing) == 0 {
				mtext = tr.Ints(clipN(lits[i].Text, 200))
			}
			missing = append(missing, lits[i].Off)
			mkinds = append(mkinds, lits[i].Kind)
			if lits[i].Kind == "comment" || lits[i].Kind == "shebang" {
				intree = append(intree, comments[string(lits[i].Text)])
			} else {
				intree = append(intree, lits[i].InTree)
			}
		} else {
			other = append(other, lits[i].Kind)
		}
	}
	lev := tr.E{"lexed": lexok, "n": len(lits), "missing": missing, "kinds": mkinds, "other": other, "intree": intree}
	if mtext != nil {
		lev["first"] = mtext
	}
	w.Ev("Literals", lev)
	if len(missing) > 0 {
		fail("literal-altered", mkinds[0], intree[0])
	}

	// (a) the printed text is accepted under the same Options
	ast2, _, err2, pan2 := parseBytes(text1, o)
	if pan2 != "" {
		w.Ev("Parse2", tr.E{"out": "panic", "panic": pan2, "ok": false})
		fail("panic")
		return res
	}
	if err2 != nil || ast2 == nil {
		ev := tr.E{"ok": false}
		if err2 != nil {
			ev["etext"] = firstLine(err2)
		}
		w.Ev("Parse2", ev)
		fail("reparse-fails", firstLine(err2))
		return res
	}
	w.Ev("Parse2", tr.E{"ok": true})

	// (b) same tree except for parenthesis nodes
	var d *difference
	var dpan string
	func() {
		defer func() {
			if x := recover(); x != nil {
				dpan = fmt.Sprint(x)
			}
		}()
		d = diff(reflect.ValueOf(ast1), reflect.ValueOf(ast2), "", "AST", "", 0)
	}()
	if dpan != "" {
		w.Ev("Trees", tr.E{"out": "panic", "panic": dpan, "equal": false})
		fail("panic")
		return res
	}
	if d != nil {
		w.Ev("Trees", tr.E{"equal": false, "path": d.Path, "construct": d.Construct, "what": d.What})
		fail("tree-differs", d.Construct)
	} else {
		w.Ev("Trees", tr.E{"equal": true})
	}

	// (c) printing the second tree reproduces the text
	text2, pan3 := printTree(ast2)
	if pan3 != "" {
		w.Ev("Print2", tr.E{"out": "panic", "panic": pan3, "same": false})
		fail("panic")
		return res
	}
	same := bytes.Equal(text1, text2)
	ev := tr.E{"same": same, "len1": len(text1), "len2": len(text2)}
	if !same {
		k := 0
		for k < len(text1) && k < len(text2) && text1[k] == text2[k] {
			k++
		}
		ev["at"] = k
		lo := k - 20
		if lo < 0 {
			lo = 0
		}
		ev["near1"] = tr.Ints(clipN(text1[lo:], 60))
		ev["near2"] = tr.Ints(clipN(text2[lo:], 60))
		fail("not-a-fixed-point")
	}
	w.Ev("Print2", ev)
	w.Ev("Done", tr.E{})
	return res
}

func clipN(b []byte, n int) []byte {
	if len(b) > n {
		return b[:n]
	}
	return b
}

// Wrap puts src inside `depth` nested constructs that each add one level of indentation when printed.
// variant selects the kinds of construct; the innermost wrapper is wrappers[variant % n], and so on outwards.
var wrappers = [][2]string{
	{"{\n", "\n}"},
	{"function w(){\n", "\n}"},
	{"if(w){\n", "\n}"},
	{"w=()=>{\n", "\n}"},
	{"switch(w){case 1:\n", "\n}"},
	{"class W{static{\n", "\n}}"},
	{"try{\n", "\n}finally{}"},
	{"w={m(){\n", "\n}}"},
	{"for(;;){\n", "\n}"},
}

func Wrap(src []byte, depth int, variant int) []byte {
	if depth == 0 {
		return src
	}
	out := append([]byte{}, src...)
	for d := 0; d < depth; d++ {
		wr := wrappers[0]
		if variant >= 0 {
			wr = wrappers[(variant+d)%len(wrappers)]
		}
		out = append(append([]byte(wr[0]), out...), wr[1]...)
	}
	return out
}
