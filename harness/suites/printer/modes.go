package printer

import (
	"encoding/json"
	"flag"
	"fmt"
	"math/rand"
	"os"
	"sort"
	"strings"

	"verif/harness/internal/reg"
	"verif/harness/internal/tr"
	"verif/harness/suites/lexers"
)

type summary struct {
	Suite       string         `json:"suite"`
	Mode        string         `json:"mode"`
	Cases       int            `json:"cases"`
	Executions  int            `json:"executions"`
	Accepted    int            `json:"accepted"`
	Rejected    int            `json:"rejected_by_parse"`
	NotUTF8     int            `json:"not_utf8"`
	Mismatches  int            `json:"mismatches"`
	Rules       map[string]int `json:"rules"`
	Nontrivial  int            `json:"distinct_nontrivial"`
	Traces      int            `json:"traces"`
	Events      int            `json:"events"`
	Families    map[string]int `json:"families_accepted"`
	Atoms       map[string]int `json:"atoms_accepted"`
	RejectedFam map[string]int `json:"families_rejected"`
	RejectedEx  []string       `json:"rejected_examples"`
	Samples     []interface{}  `json:"samples"`
	Suppressed  int            `json:"mismatching_traces_not_kept"`
}

type runner struct {
	w      *tr.Writer
	sum    *summary
	tid    int
	sample int
	seenNT map[string]bool
	perKey map[string]int
	capKey int
}

func newRunner(out, mode string, sample int) *runner {
	return &runner{w: tr.NewWriter(out), sample: sample, seenNT: map[string]bool{}, perKey: map[string]int{}, capKey: 25,
		sum: &summary{Suite: "printer", Mode: mode, Rules: map[string]int{}, Families: map[string]int{}, Atoms: map[string]int{}, RejectedFam: map[string]int{}}}
}

// one executes a single (input, option) pair; returns whether js.Parse accepted the input.
func (r *runner) one(src []byte, opt int, meta tr.E) Result {
	r.tid++
	r.w.Begin(r.tid)
	res := RoundTrip(r.w, src, opt, meta)
	if !res.Accepted {
		r.w.End(false)
		r.tid--
		return res
	}
	r.sum.Executions++
	r.sum.Accepted++
	if res.Mismatch {
		r.sum.Mismatches++
		r.sum.Rules[res.Rule]++
	}
	if res.Tokens >= 10 && !r.seenNT[string(src)] {
		r.seenNT[string(src)] = true
		r.sum.Nontrivial++
		if len(r.sum.Samples) < 3 && res.Tokens >= 14 && len(src) < 200 {
			r.sum.Samples = append(r.sum.Samples, map[string]interface{}{"src": string(src), "opt": opt, "printed": res.Text1})
		}
	}
	keep := r.sample > 0 && r.tid%r.sample == 0
	if res.Mismatch {
		// all executions that differ in a new way are kept; of those that differ in the same way (same rule, same
		// construct, same Options value) the first capKey
		r.perKey[res.Key]++
		if r.perKey[res.Key] <= r.capKey {
			keep = true
		} else {
			r.sum.Suppressed++
		}
	}
	r.w.End(keep)
	return res
}

func (r *runner) finish() {
	r.w.Close()
	r.sum.Traces, r.sum.Events = r.w.Traces, r.w.Events
	json.NewEncoder(os.Stdout).Encode(r.sum)
}

// ---------------------------------------------------------------------------------------------- replay

type tcase struct {
	Fam   string   `json:"fam"`
	Outer string   `json:"outer"`
	Inner string   `json:"inner"`
	Lit   string   `json:"lit"`
	Depth int      `json:"depth"`
	Goal  string   `json:"goal"` // script | module
	Atoms []string `json:"atoms"`
	Sep   []int    `json:"sep"` // separator written before atom i: 0 none, 1 space, 2 newline
}

// Spell joins the atoms with the separators the specification chose (spec/js/PrinterGen.tla, NeedsSep).
func Spell(c *tcase) []byte {
	var b []byte
	for i, a := range c.Atoms {
		if i < len(c.Sep) {
			switch c.Sep[i] {
			case 1:
				b = append(b, ' ')
			case 2:
				b = append(b, '\n')
			}
		}
		b = append(b, a...)
	}
	return b
}

// Replay: the scenarios of PrinterGen.tla, each under the four Options values.
func Replay(args []string) {
	fs := flag.NewFlagSet("printer replay", flag.ExitOnError)
	cases := fs.String("cases", "", "ndjson from PrinterGen.tla")
	out := fs.String("out", "", "trace file")
	sample := fs.Int("sample", 50, "keep the trace of every n-th agreeing execution (all differing ones are kept)")
	inputs := fs.String("inputs", "", "also write the accepted programs as ndjson {input:[bytes]}")
	fs.Parse(args)
	r := newRunner(*out, "replay", *sample)
	var inw *os.File
	if *inputs != "" {
		inw, _ = os.Create(*inputs)
		defer inw.Close()
	}
	seen := map[string]bool{}
	err := tr.ReadCases(*cases, func(line int, raw []byte) {
		var c tcase
		if err := json.Unmarshal(raw, &c); err != nil {
			fmt.Fprintln(os.Stderr, "bad case", err)
			os.Exit(2)
		}
		src := Spell(&c)
		if seen[string(src)] {
			return
		}
		seen[string(src)] = true
		r.sum.Cases++
		fam := c.Fam + ":" + c.Outer
		any := false
		for opt := 0; opt < 4; opt++ {
			res := r.one(src, opt, tr.E{"origin": "gen", "fam": c.Fam, "outer": c.Outer, "inner": c.Inner, "lit": c.Lit, "depth": c.Depth})
			if res.Accepted {
				any = true
			}
		}
		if any {
			r.sum.Families[fam]++
			r.sum.Atoms["inner:"+c.Inner]++
			r.sum.Atoms["lit:"+c.Lit]++
			r.sum.Atoms[fmt.Sprintf("depth:%d", c.Depth)]++
			if inw != nil {
				b, _ := json.Marshal(map[string]interface{}{"input": tr.Ints(src)})
				inw.Write(append(b, '\n'))
			}
		} else {
			r.sum.Rejected++
			r.sum.RejectedFam[fam+"/"+c.Inner]++
			if len(r.sum.RejectedEx) < 40 && c.Depth == 0 && c.Lit == "none" {
				r.sum.RejectedEx = append(r.sum.RejectedEx, string(src))
			}
		}
	})
	if err != nil {
		fmt.Fprintln(os.Stderr, err)
		os.Exit(2)
	}
	r.finish()
}

// ---------------------------------------------------------------------------------------------- record

// snippets exercising every kind of node (copied from the walk suite) plus printer-specific shapes.
var snippets = []string{
	"a", "a;b", "{a}", ";", "if(a)b;else c", "do a;while(b)", "while(a)b", "for(var i=0;i<1;i++)a", "for(;;){}", "for(a in b)c", "for(const a of b)c",
	"for await(a of b)c", "switch(a){case 1:b;break;default:c}", "a:for(;;){continue a}", "function f(){return a}", "with(a)b", "throw a",
	"try{a}catch(e){b}finally{c}", "try{a}catch{b}", "debugger", "import a from 'b'", "import {a as b, c} from 'd'", "import * as a from 'b'",
	"export {a as b}", "export default a", "export var a=1", "export * from 'a'", "'use strict'", "var [a,,b=1,...c]=d", "let {a,b:c,[d]:e=1,...f}=g",
	"const a=1,b=2", "function f(a,b=1,...c){}", "async function f(){await a}", "function*f(){yield a;yield*b}", "x=function(){}", "x=function g(){}",
	"class A{}", "class A extends B{constructor(){super()}}", "class A{m(){}static s(){}get g(){}set s(v){}async a(){}*g2(){}}",
	"class A{[k](){}#p=1;static #q;f=2;static{a}}", "class A{#m(){this.#m()}}", "x=class{}", "x=class B{}", "x=[a,,b,...c]", "x={a,b:c,[d]:e,...f,g(){},get h(){},set i(v){}}",
	"x={a=1}=y", "x=`a${b}c${d}e`", "x=tag`a${b}`", "x=(a,b)", "x=a[b]", "x=a.b", "x=a?.b", "x=a?.[b]", "x=a?.(b)", "x=new.target", "x=import.meta", "f(a,...b)",
	"new A", "new A(b)", "x=-a", "x=!a", "x=typeof a", "x=a++", "x=a+b*c", "x=a?b:c", "x=a=>b", "x=(a,b)=>{c}", "x=async a=>b", "x=async(a)=>b", "x=a??b",
	"x=a**b", "x=a in b", "x=a instanceof b", "x=/a/g", "x=1n", "x=null", "x=this", "x=super.a", "a,b", "x=await a", "/*! bang */a", "#!shebang\na",
	"import('a')", "x=a||b&&c", "label:a", "x=void 0", "x=delete a.b", "if(a){b}else if(c){d}else{e}", "x=function*(){yield}", "var a;a=function(){var b;return b}",
	// arrays of holes only, quoted member names that spell a modifier keyword
	"x=[,]", "x=[,,]", "[,]=a", "x=[,a]", "x=[a,]", "class A{static 'get'(){} static 'set'(v){} static 'async'(){} 'static'(){} static 'static'(){} 'get'(){} get 'set'(){return 1}}",
	"x={'get'(){}, 'set'(v){}, 'async'(){}, get 'get'(){return 1}}", "class A{static get(){} static set(v){} static async(){} static static(){}}",
	"for(let [a,b] of c){}", "for(var {a} in b){}", "x=({a:[b,{c}]})=>d", "class A{static async*[a](){}}", "x={async*[a](){}}", "x=a?.b.c(d)[e]",
	// multi-line literals and comments
	"x=`a\nb`", "x=`a\n${b}\nc`", "x='a\\\nb'", "/*! a\n b */x", "//! a\nx", "x=/a\\/b/g", "x=`a${`b\n${c}`}\nd`", "x={'a\\\nb':1}", "x=tag`\n`", "f(`\n`,'\\\n')",
	"x=function(){return `\n`}", "x=function(){/*! k\n */}", "class A{'a\\\nb'(){return `\n`}}", "x=1;/*! c1 */y=2;//! c2\nz=3", "import 'a\\\nb'",
	// spacing hazards
	"x=+ +a", "x=- -a", "x=+ ++a", "x=- --a", "x=a++ + b", "x=a+ +b", "x=a- -b", "x=a - --b", "x=a+ ++b", "x=a-- - b", "x=a<!--b", "x=a-- >b", "x=! --a",
	"x=typeof(a)", "x=typeof'a'", "x=typeof/a/", "x=typeof`a`", "x=void(0)", "x=delete(a.b)", "x='a'in b", "x=a in'b'", "x=a instanceof(b)", "x=1..a", "x=1.0.a",
	"x=(1).a", "x=0x1.a", "x=1 .a", "x=1e3.a", "x=.5.a", "x=1n.a", "x=1?.a", "x=1[a]", "x=a/ /b/", "x=a/b/c", "x=a/ /b/g.c", "x=a\n/b/g", "x=(-a)**b", "x=a**-b",
	"x=(+a)**b", "x=(await a)**b", "x=new(a())", "x=new(a.b())", "x=new(a?.b)", "x=new a.b", "x=new a.b()", "x=new new a", "x=new(new a)", "x=new a()()", "x=new a`b`",
	"x=(new a).b", "x=new(a)(b)", "(function(){})", "(function(){})()", "(class{})", "({})", "({}).a", "({a}=b)", "(let)", "(let[a])", "(let)[a]=1", "let\na", "let.a", "let=1",
	"(async function(){})", "(async()=>{})", "(a,b)", "a\n(b)", "a\n[b]", "a\n++b", "a;(b)", "a;[b]", "x=()=>({})", "x=()=>({}).a", "x=()=>{}", "x=a=>(b,c)", "x=(a=>b)()", "f((a,b))",
	"f((a,b),c)", "x=(a,b)?c:d", "x=a?(b,c):d", "x=[(a,b)]", "x={a:(b,c)}", "for((a in b);;);", "for(var a=(b in c);;);", "for(a=(b in c)?1:2;;);", "for(var a=[b in c];;);",
	"for(var a=()=>{b in c};;);", "for((a,b) of c);", "for((async) of a);", "for((let) of a);", "for((let).a of b);", "for(let.a in b);", "for(async of=>a;;);",
	"if(a){if(b)c}else d", "if(a)if(b)c;else d", "if(a)for(;;)if(b)c;else d", "if(a)while(b)if(c)d;else e", "if(a){while(b)if(c)d}else e", "if(a)l:if(b)c;else d",
	"if(a)do if(b)c;while(d);else e", "if(a);else b", "if(a);", "do;while(a)", "do a\nwhile(b)\nc", "while(a);", "for(;;);", "with(a);", "l:;", "l:m:a", "l:function f(){}",
	"x={get:1,set:2,static:3,async:4,await:5,yield:6,let:7,of:8}", "x={get a(){},set a(v){}}", "x={get(){},set(){},async(){},static(){}}", "x={get get(){},set set(v){},async async(){}}",
	"x={async*a(){},*b(){},async get(){}}", "x={get 'a'(){},get 1(){},get [a](){}}", "x={'a':1,1:2,1.5:3,0x1:4,[a]:5,1n:6}", "x={a:a,b}", "x={a:b}", "x={a,b=1}=c", "x={__proto__:a}",
	"class A{get;set;static;async}", "class A{get\na(){}}", "class A{static\na}", "class A{a\n[b]}", "class A{a=1\n[b]=2}", "class A{a;[b];}", "class A{static static(){}}", "class A{static async *a(){}}",
	"class A{static get a(){}static set a(v){}}", "class A{'a'(){}1(){}[a](){}#a(){}}", "class A{static a=1;static #b=2;static [c]=3}", "class A{a=()=>{};b=function(){}}", "class A{static{}}", "class A{;}",
	"class A{a=b in c}", "class A{async\na(){}}", "class A{get=1;set=2;static=3;async=4}", "class A{static get(){}static set(){}static async(){}}", "class A extends(B,C){}", "class A extends B.C{}",
	"class A extends(a=>b){}", "x=class A extends B{}", "export default function(){}", "export default class{}", "export default function f(){}", "export default class A{}", "export default async function(){}",
	"export default(a,b)", "export default(function(){})", "export default a=>b", "export default{a}", "export function f(){}", "export class A{}", "export async function f(){}", "export function*f(){}",
	"export let a=1", "export const a=1", "export {}", "export {} from 'a'", "export * as a from 'b'", "export {a,b as c}", "export {a as default}", "export {default} from 'a'", "export {default as a} from 'b'",
	"import 'a'", "import {} from 'a'", "import a,{} from 'b'", "import a,{b} from 'c'", "import a,* as b from 'c'", "import {a as b} from 'c'", "import {default as a} from 'b'", "import {'a' as b} from 'c'",
	"export {a as 'b'}", "import.meta.a", "import('a').then(b)", "import.meta", "x=import.meta.url",
	"x=`${a}`", "x=`${`${a}`}`", "x=`a${{b:1}.b}c`", "x=`${a}${b}`", "x=a`b``c`", "x=a.b`c`", "x=a?.b`c`", "x=`$`", "x=`\\``", "x=`${'}'}`", "x=`${/}/}`", "x=`${a/*}*/}`",
	"x=yield", "function*g(){x=yield\na}", "function*g(){yield(a)}", "function*g(){yield[a]}", "function*g(){yield/a/}", "function*g(){yield*a}", "function*g(){yield yield a}", "function*g(){(yield)}",
	"function*g(){x=(yield a)+1}", "function*g(){yield a,b}", "function*g(){f(yield a)}", "function*g(){x=a?yield:b}", "async function f(){await(a)}", "async function f(){await[a]}", "async function f(){await/a/}",
	"async function f(){await await a}", "async function f(){(await a)()}", "async function f(){await a()}", "async function f(){x=-await a}", "async function f(){for await(a of b);}", "await a", "x=await", "await(a)",
	"x=async", "async\nfunction f(){}", "x=async\na=>b", "async(a)", "x=async()", "x=async.b", "x=async?.(a)", "x=(async)=>a", "x=async async=>async",
	"return", "return a", "return\na", "return(a)", "return[a]", "return/a/", "return`a`", "return-a", "return a,b", "return(a,b)", "return function(){}", "return{a}", "return{}",
	"throw(a)", "throw[a]", "throw/a/", "throw-a", "throw a,b", "throw new a", "break", "a:{break a}", "a:for(;;)break a", "a:for(;;){break\na}", "for(;;){continue}",
	"x=a?.b", "x=a?.[b]", "x=a?.(b)", "x=a?.b.c", "x=(a?.b).c", "x=a?.b?.c", "x=a?.b()", "x=(a?.b)()", "x=a?.0:1", "x=a?.5:1", "x=a?b:c?d:e", "x=(a?b:c)?d:e", "x=a?(b?c:d):e", "x=a?b:(c,d)",
	"x=a??(b||c)", "x=(a??b)||c", "x=(a&&b)??c", "x=a||(b??c)", "x=(a,b)??c", "x=a=b=c", "x=(a=b)=>c", "x=a=(b,c)", "[a,b]=c", "({a,b}=c)", "[a=1,[b],{c}]=d", "({a:[b]=c,...d}=e)", "[(a),(b.c)]=d", "[...a]=b", "[...[a]]=b",
	"x=a+(b+c)", "x=(a+b)+c", "x=a-(b-c)", "x=a*(b+c)", "x=(a*b)+c", "x=a**(b**c)", "x=(a**b)**c", "x=-(a+b)", "x=(-a).b", "x=(-a)()", "x=(a+b).c", "x=(a+b)()", "x=(a,b).c", "x=(a=b).c", "x=(a?b:c).d", "x=(a=>b).c",
	"x=(function(){}).a", "x=function(){}.a", "x=function(){}()", "x=(class{}).a", "x=class{}.a", "x=(yield)", "x=!(a in b)", "x=!a in b", "x=(!a)in b", "x=typeof(a+b)", "x=typeof a+b", "x=(typeof a)+b", "x=-a**b" + "", "x=(-a)**b",
	"x=a++\n+b", "x=a\n++\nb", "x=a+ ++b", "x=a+\n++b", "x=++a", "x=++a.b", "x=(++a).b", "x=++(a)", "x=(a)++", "x=-(-a)", "x=+(+a)", "x=-(--a)", "x=+(++a)", "x=-(+a)", "x=+(-a)", "x=- +a", "x=+ -a", "x=-+-+a", "x=~-a", "x=!-a", "x=- -(-a)", "x=-(-(-a))", "x=+-+a", "x=- - -a",
	"x=a - -b", "x=a - - -b", "x=a+(+b)", "x=a-(-b)", "x=a+(++b)", "x=a-(--b)", "x=(a++)+b", "x=(a--)-b", "x=a+++b", "x=a---b", "x=a--\n>b", "x=a<(!--b)", "x=a<!(--b)", "x=a<! --b",
	"x='\\u2028'", "x='é😀'", "x=`é😀`", "x=/é😀/u", "é=1", "x='\\'\"'", "x=\"'\\\"\"", "x=0", "x=00", "x=07", "x=08", "x=0.0", "x=0e0", "x=1_000", "x=0b1", "x=0o7", "x=0XA", "x=1E3", "x=1e+3", "x=1e-3", "x=.1", "x=1.", "x=1.e3", "x=0n", "x=0x1n",
	"x=1.toString", "x=1..toString()", "x=1.5.toFixed()", "x=08.a", "x=07.a", "x=1_0.a", "x=1e3.a", "x=1.e3.a", "x=0b1.a", "x=0o1.a", "x=1 in a", "x=1in a", "x=a?1.:2", "x=a?.1:2", "x=[1.,.1]", "x=1.+.1", "x=1. .a", "x=(1.).a", "x=(1)[a]", "x=1..a.b", "x=1.0.a()", "x=-1..a", "x=(-1).a", "x=1..a`b`",
	"x=a\n/b/g", "x=a\n/b/", "x=a/b/g", "x=a/(/b/g)", "x=/a/ /b/", "x=/a/g/b", "x=/a/.b", "x=/a/[b]", "x=/a/(b)", "x=/[/]/", "x=/\\//", "x=/=/", "x=/=/.a", "x=a/=b", "x=a/ /=/", "x=a / / /", "x=[/a/,/b/]", "x=a?/b/:/c/", "x=a||/b/", "f(/a/)", "x={a:/b/}", "x=(/a/)", "x=!/a/", "x=/a/ in b", "x=/a/ instanceof b", "x=/ /", "x=/ a/", "x=+/a/", "x=a+/b/", "x=a+ /b/g", "x=a++/b/g", "x=a++ / /b/g",
	// literals in every statement position; property names that the parser re-types
	"while(a)x='s'", "while(a)`t`", "while(a)/r/", "while(a)1", "do 's';while(a)", "if(a)'s';else `t`", "for(;;)'s'", "for(a in b)`t`", "for(a of b)/r/", "with(a)'s'", "l:'s'",
	"switch(a){case 's':`t`;default:/r/}", "try{'s'}catch{`t`}finally{/r/}", "while('s')`t`", "x={'5':1}", "class A{'5'(){}}", "x={'1.0':1,'.5':2,'5.':3,'010':4,'a':5,'if':6,'a-b':7}",
	"let instanceof b", "let in b", "let\ninstanceof b",
	// quoted property names that must stay quoted: escapes, and characters an identifier cannot hold
	"x={'a\\nb':1}", "x={\"\\n\":1}", "x={'\\x41':1,\"\\u0041\":2,'a\\\\b':3,'\\0':4,'\\t':5}", "class A{'a\\tb'(){}'\\n'=1;static '\\\\'(){}}", "({'\\n':a}=b)",
	"x={'\\u{41}':1,'a\\u0062':2}", "x={'a b':1,'a-b':2,'1a':3,'':4,'a.b':5,'é':6,'a\u200d':7,'$':8,'_':9,'if':10,'\\u0069f':11}",
	// unbraced bodies that are declarations or end in an expression: what follows must stay a separate statement
	"while(a)var x=b", "for(;;)var x=b", "for(a in b)var x=c", "for(a of b)var x=c", "if(a)var x=b", "if(a)var x=b;else var y=c", "do var x=b;while(a)", "with(a)var x=b", "l:var x=b",
	"while(a)x=b", "for(;;)x=b", "if(a)x=b;else y=c", "l:x=b", "while(a)x=function(){}", "while(a)x=class{}", "if(a)x=()=>{}", "while(a)do x=b;while(c)", "if(a)return;else throw b",
	"var x=b", "let x=b", "const x=b", "x=b", "x=function(){}", "x=class{}", "x=()=>{}", "x=a=>b", "x=a++", "x=a--", "break", "continue", "debugger", "throw a", "x=yield", "x=await a", "do a;while(b)",
	"class A{a=b}", "class A{a}", "class A{static a=b}", "class A{a=b;c}", "class A{a=()=>{}}", "x=`t`", "x=/r/", "x=1", "x='s'", "x=[a]", "x=(a)", "x={}",
	"x=a<!--b\nc", "x=a\n-->b\nc", "x=a-->b", "x=a--\n>b", "x=a-- > b", "x=a< !--b", "<!--a\nb", "-->a\nb", "x=a</b/",
}

// Record: inputs the specification did not design - harvested test literals, snippets, seeded combinations, and optional
// extra files from other suites' generators - each under the four Options values and at indentation depths 0..3.
func Record(args []string) {
	fs := flag.NewFlagSet("printer record", flag.ExitOnError)
	out := fs.String("out", "", "trace file")
	seed := fs.Int64("seed", 1, "seed")
	repo := fs.String("repo", reg.Repo(), "repository (js test literals are harvested from it)")
	nh := fs.Int("harvest", 500, "harvested literals to try")
	ncomb := fs.Int("combos", 400, "random combinations of snippets to try")
	maxExtra := fs.Int("maxextra", 2000, "programs to take from the -extra files (seeded choice)")
	extra := fs.String("extra", "", "comma-separated ndjson files {input:[bytes]} of further programs (from other suites' generators)")
	sample := fs.Int("sample", 50, "keep the trace of every n-th agreeing execution (all differing ones are kept)")
	fs.Parse(args)
	rng := rand.New(rand.NewSource(*seed))
	r := newRunner(*out, "record", *sample)
	seen := map[string]bool{}
	try := func(src string, origin string) {
		if seen[src] {
			return
		}
		seen[src] = true
		r.sum.Cases++
		accepted := false
		variant := rng.Intn(len(wrappers))
		depths := []int{0, 1, 2, 3}
		if strings.ContainsAny(src, "\n\r\u2028\u2029") {
			// a line break inside the source (multi-line literal or comment): also at the indentation widths around 32 and 64
			// columns, where an indenter that works with a fixed buffer would change its behaviour
			depths = append(depths, 7, 8, 9, 16, 17)
		}
		for _, depth := range depths {
			for opt := 0; opt < 4; opt++ {
				s := Wrap([]byte(src), depth, variant)
				res := r.one(s, opt, tr.E{"origin": origin, "depth": depth})
				if !res.Accepted && depth > 0 {
					// the chosen wrappers may not admit this program (e.g. await, super, import): plain blocks do more often
					res = r.one(Wrap([]byte(src), depth, -1), opt, tr.E{"origin": origin, "depth": depth})
				}
				if res.Accepted {
					accepted = true
				}
			}
		}
		if accepted {
			r.sum.Families[origin]++
		} else {
			r.sum.Rejected++
		}
	}
	for _, s := range snippets {
		try(s, "snippet")
	}
	lits := lexers.HarvestLiterals(*repo)["js"]
	sort.Strings(lits)
	rng.Shuffle(len(lits), func(i, j int) { lits[i], lits[j] = lits[j], lits[i] })
	for i := 0; i < len(lits) && i < *nh; i++ {
		try(lits[i], "harvest")
	}
	stmts := []string{}
	for _, s := range snippets {
		if !strings.HasPrefix(s, "import") && !strings.HasPrefix(s, "export") && !strings.HasPrefix(s, "'use") && !strings.HasPrefix(s, "#!") &&
			!strings.HasPrefix(s, "return") && !strings.HasPrefix(s, "<!--") && !strings.HasPrefix(s, "-->") {
			stmts = append(stmts, s)
		}
	}
	// every statement followed by a statement that starts with a token which could continue an expression: the printer must
	// keep them apart (a missing ';' is not repaired by automatic semicolon insertion before ( [ + - / ` ++ --)
	for _, s := range stmts {
		for _, f := range []string{"(a)", "[a]", "+a", "-a", "/a/.b", "`t`", "++a", "--a", "a", "function f(){}", "var y", "in_", "instanceof_"} {
			try(s+";\n"+f, "follow")
		}
	}
	seps := []string{";\n", ";", "\n", ";\n", " ;"}
	for i := 0; i < *ncomb; i++ {
		k := 2 + rng.Intn(4)
		var b strings.Builder
		for j := 0; j < k; j++ {
			b.WriteString(stmts[rng.Intn(len(stmts))])
			b.WriteString(seps[rng.Intn(len(seps))])
		}
		try(b.String(), "combo")
	}
	if *extra != "" {
		var progs []string
		for _, f := range strings.Split(*extra, ",") {
			if f == "" {
				continue
			}
			tr.ReadCases(f, func(line int, raw []byte) {
				var c struct {
					Input []int `json:"input"`
				}
				if json.Unmarshal(raw, &c) == nil && len(c.Input) > 0 {
					b := make([]byte, len(c.Input))
					for i, v := range c.Input {
						b[i] = byte(v)
					}
					progs = append(progs, string(b))
				}
			})
		}
		rng.Shuffle(len(progs), func(i, j int) { progs[i], progs[j] = progs[j], progs[i] })
		for i := 0; i < len(progs) && i < *maxExtra; i++ {
			try(progs[i], "extra")
		}
	}
	r.finish()
}

// File: run the programs of an ndjson file {input:[bytes], opt:k (optional; all four if absent)} as they are (rerun / --replay).
func File(args []string) {
	fs := flag.NewFlagSet("printer file", flag.ExitOnError)
	in := fs.String("in", "", "ndjson {input, opt}")
	out := fs.String("out", "", "trace file")
	fs.Parse(args)
	r := newRunner(*out, "file", 1)
	tr.ReadCases(*in, func(line int, raw []byte) {
		var c struct {
			Input []int `json:"input"`
			Opt   *int  `json:"opt"`
		}
		if json.Unmarshal(raw, &c) != nil {
			os.Exit(2)
		}
		b := make([]byte, len(c.Input))
		for i, v := range c.Input {
			b[i] = byte(v)
		}
		r.sum.Cases++
		for opt := 0; opt < 4; opt++ {
			if c.Opt == nil || *c.Opt == opt {
				r.one(b, opt, tr.E{"origin": "file", "depth": 0})
			}
		}
	})
	r.finish()
}

// Src: show what the round trip does to the programs given as arguments (debugging aid).
func Src(args []string) {
	w := tr.NewWriter(os.DevNull)
	for _, s := range args {
		for opt := 0; opt < 4; opt++ {
			w.Begin(1)
			res := RoundTrip(w, []byte(s), opt, nil)
			if !res.Accepted {
				fmt.Printf("%q opt=%d: not accepted\n", s, opt)
				continue
			}
			fmt.Printf("%q opt=%d -> %q mismatch=%v %s\n", s, opt, res.Text1, res.Mismatch, res.Rule)
			if res.Mismatch {
				for _, e := range w.Buf() {
					if e["ev"] != "Open" && e["ev"] != "Print1" {
						b, _ := json.Marshal(e)
						fmt.Printf("    %s\n", b)
					}
				}
			}
			if opt == 0 && !res.Mismatch {
				break
			}
		}
	}
}

func init() {
	reg.Register("printer", "replay", Replay)
	reg.Register("printer", "record", Record)
	reg.Register("printer", "file", File)
	reg.Register("printer", "src", Src)
}
