// Package normalise drives parse.ReplaceMultipleWhitespace, parse.ReplaceEntities,
// parse.ReplaceMultipleWhitespaceAndEntities, html.EscapeAttrVal, xml.EscapeAttrVal and xml.EscapeCDATAVal
// (property C17). replay runs the inputs TLC enumerated from spec/text/NormaliseGen.tla and compares with the
// expectations TLC computed; record runs seeded random byte strings. Both write traces (one input per trace, one
// event per call with everything observed) that spec/text/NormaliseTrace.tla judges.
//
// The functions under test work in place on their argument: every call gets a private copy that sits between
// guard bytes inside a larger array, results are copied out at once, and every call is made a second time with
// different bytes around the argument (the caller's other memory must be neither written nor needed).
package normalise

import (
	"bytes"
	"fmt"
	stdhtml "html"
	"io"

	"github.com/tdewolff/parse/v2"
	"github.com/tdewolff/parse/v2/html"
	"github.com/tdewolff/parse/v2/xml"

	"verif/harness/internal/tr"
)

// Entity maps "consistent with HTML" (a replacement is never longer than the reference and names the same
// character): the maps of the library's own tests (common_test.go) plus lt/gt. cfg 0 passes a reverse map,
// cfg 1 passes nil (as TestReplaceMultipleWhitespaceAndEntities does).
var entitiesMap = map[string][]byte{
	"quot":   []byte("\""),
	"apos":   []byte("'"),
	"amp":    []byte("&"),
	"lt":     []byte("<"),
	"gt":     []byte(">"),
	"varphi": []byte("&phiv;"),
	"varpi":  []byte("&piv;"),
}

var revMaps = []map[byte][]byte{
	{'\'': []byte("&#39;"), '<': []byte("&lt;")},
	nil,
}

const nCfg = 2

const guardLen = 8

// around holds the two surroundings every in-place call is made in.
var around = [2][2][]byte{
	{bytes.Repeat([]byte{0xAA}, guardLen), bytes.Repeat([]byte{0xAA}, guardLen)},
	{[]byte(" \n&#x41;&"), []byte(";amp; \n&#")},
}

// inPlace calls f on a private copy of in placed inside a larger array, once per surrounding. It returns a copy
// of the result and whether (a) the bytes around the argument are intact, (b) the result lies inside the
// argument, and (c) both surroundings gave the same result.
func inPlace(in []byte, f func([]byte) []byte) (out []byte, ok bool) {
	ok = true
	for v := 0; v < 2; v++ {
		pre, post := around[v][0], around[v][1]
		full := make([]byte, 0, len(pre)+len(in)+len(post))
		full = append(append(append(full, pre...), in...), post...)
		arg := full[len(pre) : len(pre)+len(in)] // capacity reaches into the trailing bytes, as for a token inside a buffer
		res := f(arg)
		cp := append([]byte{}, res...)
		if !bytes.Equal(full[:len(pre)], pre) || !bytes.Equal(full[len(pre)+len(in):], post) {
			ok = false
		}
		if v == 0 {
			out = cp
		} else if !bytes.Equal(out, cp) {
			ok = false
		}
	}
	return out, ok
}

func rmw(in []byte) ([]byte, bool) {
	return inPlace(in, parse.ReplaceMultipleWhitespace)
}

func re(in []byte, cfg int) ([]byte, bool) {
	return inPlace(in, func(b []byte) []byte { return parse.ReplaceEntities(b, entitiesMap, revMaps[cfg]) })
}

func comb(in []byte, cfg int) ([]byte, bool) {
	return inPlace(in, func(b []byte) []byte { return parse.ReplaceMultipleWhitespaceAndEntities(b, entitiesMap, revMaps[cfg]) })
}

func unescape(b []byte) []byte {
	return []byte(stdhtml.UnescapeString(string(b)))
}

// token kinds as Normalise.tla names them
const (
	kErr           = 0
	kStartTag      = 1
	kAttribute     = 2
	kStartTagClose = 3
	kText          = 4
	kEndTag        = 5
	kOther         = 9
)

type lexed struct {
	toks []int
	kx   bool   // every attribute is named x
	rb   []byte // value of the (last) attribute as the lexer returned it
	tx   []byte // concatenated text tokens
}

func lexHTML(doc []byte) (r lexed) {
	r.kx = true
	r.toks = []int{}
	l := html.NewLexer(parse.NewInputBytes(append([]byte{}, doc...)))
	for len(r.toks) < 16 {
		tt, data := l.Next()
		switch tt {
		case html.ErrorToken:
			if l.Err() != io.EOF {
				r.toks = append(r.toks, kErr)
			}
			return
		case html.StartTagToken:
			r.toks = append(r.toks, kStartTag)
		case html.AttributeToken:
			r.toks = append(r.toks, kAttribute)
			r.kx = r.kx && string(l.AttrKey()) == "x"
			r.rb = append([]byte{}, l.AttrVal()...)
		case html.StartTagCloseToken:
			r.toks = append(r.toks, kStartTagClose)
		case html.TextToken:
			r.toks = append(r.toks, kText)
			r.tx = append(r.tx, data...)
		case html.EndTagToken:
			r.toks = append(r.toks, kEndTag)
		default:
			r.toks = append(r.toks, kOther)
		}
	}
	return
}

func lexXML(doc []byte) (r lexed) {
	r.kx = true
	r.toks = []int{}
	l := xml.NewLexer(parse.NewInputBytes(append([]byte{}, doc...)))
	for len(r.toks) < 16 {
		tt, data := l.Next()
		switch tt {
		case xml.ErrorToken:
			if l.Err() != io.EOF {
				r.toks = append(r.toks, kErr)
			}
			return
		case xml.StartTagToken:
			r.toks = append(r.toks, kStartTag)
		case xml.AttributeToken:
			r.toks = append(r.toks, kAttribute)
			r.kx = r.kx && string(l.Text()) == "x"
			r.rb = append([]byte{}, l.AttrVal()...)
		case xml.StartTagCloseToken:
			r.toks = append(r.toks, kStartTagClose)
		case xml.TextToken:
			r.toks = append(r.toks, kText)
			r.tx = append(r.tx, data...)
		case xml.EndTagToken:
			r.toks = append(r.toks, kEndTag)
		default:
			r.toks = append(r.toks, kOther)
		}
	}
	return
}

// escape calls the attribute escaper of lang with three different scratch buffers; the value itself sits
// between guard bytes. ok: value and guards untouched, all three results equal.
func escape(lang string, val []byte, oq byte, mq bool) (res []byte, ok bool) {
	ok = true
	bufs := [][]byte{nil, make([]byte, 0, 3), bytes.Repeat([]byte{'"'}, 64)[:0]}
	for v, buf := range bufs {
		pre := around[0][0]
		full := append(append(append(make([]byte, 0, 2*guardLen+len(val)), pre...), val...), pre...)
		arg := full[len(pre) : len(pre)+len(val)]
		var r []byte
		if lang == "xml" {
			r = xml.EscapeAttrVal(&buf, arg)
		} else {
			r = html.EscapeAttrVal(&buf, arg, oq, mq)
		}
		cp := append([]byte{}, r...)
		if !bytes.Equal(full[:len(pre)], pre) || !bytes.Equal(full[len(pre)+len(val):], pre) || !bytes.Equal(arg, val) {
			ok = false
		}
		if v == 0 {
			res = cp
		} else if !bytes.Equal(res, cp) {
			ok = false
		}
	}
	return
}

func cdata(val []byte) (res []byte, used bool, ok bool) {
	ok = true
	bufs := [][]byte{nil, make([]byte, 0, 3), bytes.Repeat([]byte{'<'}, 64)[:0]}
	for v, buf := range bufs {
		pre := around[0][0]
		full := append(append(append(make([]byte, 0, 2*guardLen+len(val)), pre...), val...), pre...)
		arg := full[len(pre) : len(pre)+len(val)]
		r, u := xml.EscapeCDATAVal(&buf, arg)
		cp := append([]byte{}, r...)
		if !bytes.Equal(full[:len(pre)], pre) || !bytes.Equal(full[len(pre)+len(val):], pre) || !bytes.Equal(arg, val) {
			ok = false
		}
		if v == 0 {
			res, used = cp, u
		} else if !bytes.Equal(res, cp) || used != u {
			ok = false
		}
	}
	return
}

// input is what event 0 of a trace fixes.
type input struct {
	Kind string // ws, ent, attr, cdata: which calls the trace contains
	In   []byte
	Cfg  int
	Lang string
	Oq   byte
	Mq   bool
}

func (x *input) newEvent(w *tr.Writer) {
	lang := x.Lang
	if lang == "" {
		lang = "html"
	}
	w.Ev("In", tr.E{"k": x.Kind, "in": tr.Ints(x.In), "cfg": x.Cfg, "lang": lang, "oq": int(x.Oq), "mq": x.Mq})
}

// obs is everything observed for one input; the fields used depend on the kind.
type obs struct {
	rmwOut         []byte
	reOut, reAgain []byte
	di, do         []byte
	comb, s1, s2   []byte
	res            []byte
	lx             lexed
	drb, dv        []byte
	used           bool
	ur             []byte
	panicked       map[string]bool
	touched        bool // some call wrote outside its argument or depended on the bytes around it
}

// call runs one named call, records its event and fills o. A panic is recovered and logged as out:"panic".
func (x *input) call(w *tr.Writer, name string, o *obs) {
	ev := tr.E{}
	defer func() {
		if r := recover(); r != nil {
			ev = tr.E{"out": "panic", "panic": fmt.Sprint(r)}
			if o.panicked == nil {
				o.panicked = map[string]bool{}
			}
			o.panicked[name] = true
		}
		w.Ev(name, ev)
	}()
	switch name {
	case "RMW":
		out, g := rmw(x.In)
		o.rmwOut = out
		o.touched = o.touched || !g
		ev["o"], ev["g"] = tr.Ints(out), g
	case "RE":
		out, g := re(x.In, x.Cfg)
		again, g2 := re(out, x.Cfg)
		o.reOut, o.reAgain = out, again
		o.di, o.do = unescape(x.In), unescape(out)
		o.touched = o.touched || !(g && g2)
		ev["o"], ev["a"], ev["di"], ev["do"], ev["g"] = tr.Ints(out), tr.Ints(again), tr.Ints(o.di), tr.Ints(o.do), g && g2
	case "Comb":
		c, g := comb(x.In, x.Cfg)
		a, g1 := rmw(x.In)
		s1, g2 := re(a, x.Cfg)
		b, g3 := re(x.In, x.Cfg)
		s2, g4 := rmw(b)
		_, _, _, _ = g1, g2, g3, g4 // judged by their own events; only the combined call's memory behaviour belongs here
		o.comb, o.s1, o.s2 = c, s1, s2
		o.touched = o.touched || !g
		ev["c"], ev["s1"], ev["s2"], ev["g"] = tr.Ints(c), tr.Ints(s1), tr.Ints(s2), g
	case "Esc":
		res, g := escape(x.Lang, x.In, x.Oq, x.Mq)
		doc := append(append([]byte("<a x="), res...), '>')
		if x.Lang == "xml" {
			o.lx = lexXML(doc)
		} else {
			o.lx = lexHTML(doc)
		}
		o.res = res
		o.touched = o.touched || !g
		o.drb, o.dv = unescape(o.lx.rb), unescape(x.In)
		ev["r"], ev["tk"], ev["kx"], ev["rb"], ev["drb"], ev["dv"], ev["g"] =
			tr.Ints(res), o.lx.toks, o.lx.kx, tr.Ints(o.lx.rb), tr.Ints(o.drb), tr.Ints(o.dv), g
	case "CData":
		res, used, g := cdata(x.In)
		doc := append(append([]byte("<a>"), res...), []byte("</a>")...)
		o.lx = lexXML(doc)
		o.res, o.used, o.ur = res, used, unescape(res)
		o.touched = o.touched || !g
		ev["r"], ev["u"], ev["ur"], ev["tk"], ev["tx"], ev["g"] = tr.Ints(res), used, tr.Ints(o.ur), o.lx.toks, tr.Ints(o.lx.tx), g
	default:
		panic("unknown call " + name)
	}
}

// callsOf lists the calls a trace of the given kind consists of.
func callsOf(kind string) []string {
	switch kind {
	case "ws":
		return []string{"RMW", "Comb"}
	case "ent":
		return []string{"RE", "Comb", "RMW"}
	case "attr":
		return []string{"Esc"}
	case "cdata":
		return []string{"CData"}
	}
	return nil
}

// run executes one whole trace.
func (x *input) run(w *tr.Writer, id int) *obs {
	o := &obs{}
	w.Begin(id)
	x.newEvent(w)
	for _, c := range callsOf(x.Kind) {
		x.call(w, c, o)
	}
	return o
}
