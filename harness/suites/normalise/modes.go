package normalise

import (
	"bytes"
	"encoding/json"
	"flag"
	"fmt"
	"math/rand"
	"os"

	"verif/harness/internal/reg"
	"verif/harness/internal/tr"
)

type summary struct {
	Suite      string         `json:"suite"`
	Mode       string         `json:"mode"`
	Cases      int            `json:"cases"`
	Executions int            `json:"executions"`
	Mismatches int            `json:"mismatches"` // observation differs from what TLC emitted / from the relation: candidates, the T spec decides
	Traces     int            `json:"traces"`
	Events     int            `json:"events"`
	Nontrivial int            `json:"distinct_nontrivial"`
	ByKind     map[string]int `json:"-"`
	Samples    []interface{}  `json:"samples"`
	Candidates []interface{}  `json:"candidate_samples"`
}

// the fragments of spec/text/NormaliseGen.tla (Frag), by number
var frags = []string{"", "&", "#", "x", "X", "41", "0", "9999", ";", "amp", "lt", "quot", "apos", "unknown", "a", " ", "&#x"}

// concretisations of the symbol x (120), chosen by seed
var xsWS = []string{"a", "\xc3\xa9", "\xff", "\x0b", "\xc2\xa0", "\x00", "&", "\xe2\x80\xa8", "\x1f", "\x85", "x", "\xf0\x9f\x98\x80", "\xc3"}
var xsAttr = []string{"a", "/", "\xc3\xa9", "\xff", ";", "#", "\x0b", "\\", "x", "-", "\xe2\x80\xa8", "?"} // never NUL, never an unsafe character
var xsCData = []string{"a", "\xc3\xa9", "\xff", ";", " ", "\n", "]", "\xf0\x9f\x98\x80"}

func pick(list []string, seed int64, n int) []string {
	out := []string{}
	for k := 0; k < n; k++ {
		out = append(out, list[(int(seed)*n+k)%len(list)])
	}
	return out
}

func concretise(syms []int, x string) []byte {
	b := []byte{}
	for _, s := range syms {
		if s == 120 {
			b = append(b, x...)
		} else {
			b = append(b, byte(s))
		}
	}
	return b
}

type tcase struct {
	K     string `json:"k"`
	In    []int  `json:"in"`
	Exp   []int  `json:"exp"`
	F     []int  `json:"f"`
	Nul   bool   `json:"nul"`
	Lang  string `json:"lang"`
	Oq    int    `json:"oq"`
	Mq    bool   `json:"mq"`
	Unq   string `json:"unq"`
	Keep  int    `json:"keep"`
	Cheap []int  `json:"cheap"`
}

func quoted(r []byte) bool {
	return len(r) >= 2 && (r[0] == '"' || r[0] == '\'') && r[len(r)-1] == r[0]
}

func xnorm(b []byte) []byte {
	c := append([]byte{}, b...)
	for i, v := range c {
		if v == '\t' || v == '\n' || v == '\r' {
			c[i] = ' '
		}
	}
	return c
}

func intsEq(a, b []int) bool {
	if len(a) != len(b) {
		return false
	}
	for i := range a {
		if a[i] != b[i] {
			return false
		}
	}
	return true
}

// screen compares an observation with the expectation TLC emitted (c) and with the relations of the property.
// It only decides which traces are handed to the trace specification in full; the verdict is the T spec's.
func screen(x *input, o *obs, c *tcase, xconc string) bool {
	if len(o.panicked) > 0 || o.touched {
		return true
	}
	combBad := func() bool { return !bytes.Equal(o.comb, o.s1) && !bytes.Equal(o.comb, o.s2) }
	switch x.Kind {
	case "ws":
		return !bytes.Equal(o.rmwOut, concretise(c.Exp, xconc)) || combBad()
	case "ent":
		return len(o.reOut) > len(x.In) || !bytes.Equal(o.reAgain, o.reOut) || (!c.Nul && !bytes.Equal(o.di, o.do)) || combBad()
	case "attr":
		if !intsEq(o.lx.toks, []int{kStartTag, kAttribute, kStartTagClose}) || !o.lx.kx {
			return true
		}
		u := o.drb
		if quoted(o.lx.rb) {
			if len(u) < 2 {
				return true
			}
			u = u[1 : len(u)-1]
		}
		if x.Lang == "xml" {
			return !bytes.Equal(xnorm(u), xnorm(o.dv))
		}
		if !bytes.Equal(u, o.dv) {
			return true
		}
		q := quoted(o.res)
		if (!q && (c.Unq == "no" || !bytes.Equal(o.res, x.In))) || (q && c.Unq == "must") {
			return true
		}
		if q {
			if c.Keep != 0 && int(o.res[0]) != c.Keep {
				return true
			}
			ok := false
			for _, a := range c.Cheap {
				ok = ok || a == int(o.res[0])
			}
			return !ok
		}
		return false
	case "cdata":
		if !o.used {
			return !bytes.Equal(o.res, x.In)
		}
		want := []int{kStartTag, kStartTagClose, kText, kEndTag}
		if len(o.res) == 0 {
			want = []int{kStartTag, kStartTagClose, kEndTag}
		}
		return !bytes.Equal(o.ur, x.In) || !bytes.Equal(o.lx.tx, o.res) || !intsEq(o.lx.toks, want)
	}
	return true
}

func nontrivial(x *input, o *obs) bool {
	switch x.Kind {
	case "ws":
		return !bytes.Equal(o.rmwOut, x.In)
	case "ent":
		return !bytes.Equal(o.reOut, x.In)
	case "attr":
		return !bytes.Equal(o.res, x.In)
	case "cdata":
		return o.used && !bytes.Equal(o.res, x.In)
	}
	return false
}

// Replay runs every input TLC enumerated.
func Replay(args []string) {
	fs := flag.NewFlagSet("normalise replay", flag.ExitOnError)
	cases := fs.String("cases", "", "ndjson emitted by TLC from NormaliseGen")
	out := fs.String("out", "", "trace file")
	sample := fs.Int("sample", 200, "also keep the trace of every n-th execution that agrees")
	seed := fs.Int64("seed", 1, "seed (chooses the concretisations of the symbol x)")
	maxCand := fs.Int("maxcand", 3000, "at most this many candidate traces are written (all are counted)")
	tid0 := fs.Int("tid0", 0, "first trace id minus one (keeps ids distinct when trace files are concatenated)")
	fs.Parse(args)
	w := tr.NewWriter(*out)
	sum := summary{Suite: "normalise", Mode: "replay"}
	tid := *tid0
	seen := map[string]bool{}
	xs := map[string][]string{"ws": pick(xsWS, *seed, 3), "attr": pick(xsAttr, *seed, 2), "cdata": pick(xsCData, *seed, 2), "ent": {""}}
	err := tr.ReadCases(*cases, func(line int, raw []byte) {
		var c tcase
		if err := json.Unmarshal(raw, &c); err != nil {
			fmt.Fprintln(os.Stderr, "bad case:", err)
			os.Exit(2)
		}
		sum.Cases++
		hasX := false
		for _, s := range c.In {
			hasX = hasX || s == 120
		}
		for xi, xc := range xs[c.K] {
			if xi > 0 && !hasX {
				break // the other concretisations give the same bytes
			}
			var in []byte
			if c.K == "ent" {
				for _, f := range c.F {
					in = append(in, frags[f]...)
				}
			} else {
				in = concretise(c.In, xc)
			}
			cfgs := 1
			if c.K == "ent" {
				cfgs = nCfg
			}
			for cfg := 0; cfg < cfgs; cfg++ {
				x := &input{Kind: c.K, In: in, Cfg: cfg, Lang: c.Lang, Oq: byte(c.Oq), Mq: c.Mq}
				tid++
				sum.Executions++
				o := x.run(w, tid)
				mism := screen(x, o, &c, xc)
				if nontrivial(x, o) {
					key := fmt.Sprint(c.K, cfg, c.Lang, c.Oq, c.Mq, string(in))
					if !seen[key] {
						seen[key] = true
						sum.Nontrivial++
					}
				}
				if mism {
					sum.Mismatches++
					if len(sum.Candidates) < 5 {
						sum.Candidates = append(sum.Candidates, map[string]interface{}{"case": c, "in": string(in), "cfg": cfg})
					}
				} else if len(sum.Samples) < 3 && nontrivial(x, o) && tid%97 == 0 {
					sum.Samples = append(sum.Samples, map[string]interface{}{"case": c, "in": fmt.Sprintf("%q", in), "cfg": cfg,
						"observed": fmt.Sprintf("%q", append(append(append([]byte{}, o.rmwOut...), o.reOut...), o.res...))})
				}
				w.End((mism && sum.Mismatches <= *maxCand) || tid%*sample == 0)
			}
		}
	})
	if err != nil {
		fmt.Fprintln(os.Stderr, "replay:", err)
		os.Exit(2)
	}
	w.Close()
	sum.Traces, sum.Events = w.Traces, w.Events
	json.NewEncoder(os.Stdout).Encode(sum)
}

// material for random inputs
var entPieces = []string{"&", "&", "#", "#", "x", "X", ";", ";", "&#", "&#x", "&#x", "41", "0", "00", "9999", "39", "34", "27", "22", "26", "38", "60", "3c", "3C",
	"10", "a", "A", "d", "9", "32", "20", "128", "80", "9f", "d800", "110000", "10ffff", "FFFFF", "fffff", "270F", "2710", "amp", "amp;", "lt", "gt", "quot", "apos", "varphi", "varpi",
	"phiv", "nbsp", "eacute", "unknown", "AMP", "notin", "not", "a", "b", "mp", "t", " ", " ", "\n", "\t", "\r", "\f", "<", ">", "\"", "'",
	"\xc3\xa9", "\xe2\x80\xa8", "\xf0\x9f\x98\x80", "\xff", "\xc3", "\x80", "\x0b", "&amp;", "&#38;", "&#x26;", "&lt;", "&#x41;", "&#65;", "&#x61;", "&#x23;",
	"&#x3b;", "&#59;", "&#x31;", "&#49;", "&#32;", "&#10;", "&#9;", "&apos;", "&quot;", "&#39;", "&#x27;", "&varphi;", "&#0;", "&#x0;"}

var wsPieces = []string{" ", " ", " ", "\n", "\t", "\r", "\f", "a", "b", "\x0b", "\xc2\xa0", "\xc3\xa9", "\xff", "\x00", "\x1f", "!", "\xe2\x80\xa8", "\x85"}

var attrPieces = []string{"\"", "\"", "'", "'", " ", "\t", "\n", "\r", "\f", ">", "<", "=", "`", "&", "a", "b", "/", "\\", ";", "#", "x", "&amp;", "&#34;", "&quot;",
	"&#39;", "&apos;", "&#34", "&quot", "&lt;", "&#x27;", "\xc3\xa9", "\xe2\x80\xa8", "\xff", "\xc3", "\x0b", "\x01", "?", "-", "&#", "39;", "34;", "quot;", "&#9;", "&#10;"}

var cdataPieces = []string{"<", "<", "&", "&", "]", "]]", ">", "a", "b", " ", "\n", ";", "lt;", "amp;", "&lt;", "&amp;", "]]&gt;", "\xc3\xa9", "\xff", "\xe2\x80\xa8", "#", "<![CDATA[", "</a>"}

const hexd = "0123456789abcdefABCDEF"

func build(rng *rand.Rand, pieces []string, max int) []byte {
	n := rng.Intn(max + 1)
	b := []byte{}
	for i := 0; i < n; i++ {
		b = append(b, pieces[rng.Intn(len(pieces))]...)
	}
	return b
}

func randInput(rng *rand.Rand) *input {
	switch r := rng.Intn(20); {
	case r < 4:
		return &input{Kind: "ws", In: build(rng, wsPieces, 14)}
	case r < 12:
		b := build(rng, entPieces, 9)
		if rng.Intn(12) == 0 { // a numeric reference with a very long digit string
			ref := []byte("&#x")
			if rng.Intn(4) == 0 {
				ref = []byte("&#")
			}
			for k, n := 0, 8+rng.Intn(14); k < n; k++ {
				if len(ref) == 2 {
					ref = append(ref, hexd[rng.Intn(10)])
				} else {
					ref = append(ref, hexd[rng.Intn(len(hexd))])
				}
			}
			ref = append(ref, ';')
			at := rng.Intn(len(b) + 1)
			b = append(append(append([]byte{}, b[:at]...), ref...), b[at:]...)
		}
		if rng.Intn(6) == 0 && len(b) > 0 { // truncated at the end
			b = b[:len(b)-1-rng.Intn(min(len(b), 3))]
		}
		return &input{Kind: "ent", In: b, Cfg: rng.Intn(nCfg)}
	case r < 18:
		x := &input{Kind: "attr", In: build(rng, attrPieces, 8), Lang: "html", Oq: []byte{0, '\'', '"'}[rng.Intn(3)], Mq: rng.Intn(2) == 0}
		if rng.Intn(4) == 0 {
			x.Lang, x.Oq, x.Mq = "xml", 0, false
		}
		return x
	default:
		return &input{Kind: "cdata", In: build(rng, cdataPieces, 10)}
	}
}

func min(a, b int) int {
	if a < b {
		return a
	}
	return b
}

// Record runs seeded random inputs; every trace is kept and judged by the trace specification alone.
func Record(args []string) {
	fs := flag.NewFlagSet("normalise record", flag.ExitOnError)
	out := fs.String("out", "", "trace file")
	n := fs.Int("n", 2000, "number of inputs")
	seed := fs.Int64("seed", 1, "seed")
	fs.Parse(args)
	rng := rand.New(rand.NewSource(*seed))
	w := tr.NewWriter(*out)
	sum := summary{Suite: "normalise", Mode: "record"}
	seen := map[string]bool{}
	// deterministic part: numeric references around every value at which ReplaceEntities (or an HTML decoder) changes its
	// treatment, decimal and hexadecimal, with and without ';', alone and next to text, in every entity-table configuration
	var sweep []*input
	for _, v := range []int{0, 1, 8, 9, 10, 13, 31, 32, 33, 34, 38, 39, 59, 60, 62, 96, 126, 127, 128, 129, 159, 160, 255, 256, 9999, 10000, 55295, 55296, 57343, 57344, 65533, 65535, 65536, 1114111, 1114112} {
		for _, f := range []string{"&#%d;", "&#x%x;", "&#X%X;", "&#%d", "&#x%x", "&#0%d;", "&#x0%x;"} {
			ref := fmt.Sprintf(f, v)
			for _, ctx := range []string{"%s", "a%sb", "%s;", "&%s", "%s%s"} {
				in := fmt.Sprintf(ctx, ref)
				if ctx == "%s%s" {
					in = ref + ref
				}
				for cfg := 0; cfg < nCfg; cfg++ {
					sweep = append(sweep, &input{Kind: "ent", In: []byte(in), Cfg: cfg})
				}
			}
		}
	}
	for t := 1; t <= *n+len(sweep); t++ {
		var x *input
		if t <= len(sweep) {
			x = sweep[t-1]
		} else {
			x = randInput(rng)
		}
		if x.Kind == "attr" || x.Kind == "cdata" {
			x.In = bytes.ReplaceAll(x.In, []byte{0}, nil) // the statement excludes NUL
		}
		sum.Executions++
		o := x.run(w, t)
		if nontrivial(x, o) {
			key := fmt.Sprint(x.Kind, x.Cfg, x.Lang, x.Oq, x.Mq, string(x.In))
			if !seen[key] {
				seen[key] = true
				sum.Nontrivial++
			}
			if len(sum.Samples) < 3 && t%7 == 0 {
				sum.Samples = append(sum.Samples, map[string]interface{}{"kind": x.Kind, "in": fmt.Sprintf("%q", x.In), "cfg": x.Cfg, "lang": x.Lang,
					"oq": x.Oq, "mq": x.Mq, "observed": fmt.Sprintf("%q", append(append(append([]byte{}, o.rmwOut...), o.reOut...), o.res...))})
			}
		}
		w.End(true)
	}
	w.Close()
	sum.Traces, sum.Events = w.Traces, w.Events
	json.NewEncoder(os.Stdout).Encode(sum)
}

// Rerun re-executes the calls of one recorded trace (a JSON array of events) on the current code and records a
// fresh trace: the reproduction step before a rejected trace is reported, and the --replay entry point.
func Rerun(args []string) {
	fs := flag.NewFlagSet("normalise rerun", flag.ExitOnError)
	in := fs.String("trace", "", "JSON array of events")
	out := fs.String("out", "", "trace file")
	fs.Parse(args)
	raw, err := os.ReadFile(*in)
	if err != nil {
		fmt.Fprintln(os.Stderr, err)
		os.Exit(2)
	}
	var evs []map[string]interface{}
	if err := json.Unmarshal(raw, &evs); err != nil || len(evs) == 0 {
		fmt.Fprintln(os.Stderr, "bad trace", err)
		os.Exit(2)
	}
	n0 := evs[0]
	x := &input{}
	x.Kind, _ = n0["k"].(string)
	x.Lang, _ = n0["lang"].(string)
	if v, ok := n0["cfg"].(float64); ok {
		x.Cfg = int(v)
	}
	if v, ok := n0["oq"].(float64); ok {
		x.Oq = byte(v)
	}
	x.Mq, _ = n0["mq"].(bool)
	if g, ok := n0["in"].([]interface{}); ok {
		for _, v := range g {
			x.In = append(x.In, byte(v.(float64)))
		}
	}
	if x.Cfg < 0 || x.Cfg >= nCfg {
		fmt.Fprintln(os.Stderr, "bad cfg")
		os.Exit(2)
	}
	w := tr.NewWriter(*out)
	w.Begin(1)
	x.newEvent(w)
	o := &obs{}
	for _, e := range evs[1:] {
		name, _ := e["ev"].(string)
		x.call(w, name, o)
	}
	w.End(true)
	w.Close()
	json.NewEncoder(os.Stdout).Encode(summary{Suite: "normalise", Mode: "rerun", Executions: 1, Traces: 1, Events: w.Events})
}

func init() {
	reg.Register("normalise", "replay", Replay)
	reg.Register("normalise", "record", Record)
	reg.Register("normalise", "rerun", Rerun)
}
