// Package rw records random histories of buffer.Reader and buffer.Writer for spec/buffer/RWTrace.tla.
package rw

import (
	"encoding/json"
	"flag"
	"fmt"
	"io"
	"math/rand"
	"os"

	"github.com/tdewolff/parse/v2/buffer"

	"verif/harness/internal/reg"
	"verif/harness/internal/tr"
)

func en(err error) string {
	switch err {
	case nil:
		return "nil"
	case io.EOF:
		return "eof"
	}
	return "other"
}

func Record(args []string) {
	fs := flag.NewFlagSet("rw record", flag.ExitOnError)
	out := fs.String("out", "", "trace file")
	n := fs.Int("n", 600, "traces")
	seed := fs.Int64("seed", 1, "seed")
	fs.Parse(args)
	rng := rand.New(rand.NewSource(*seed))
	w := tr.NewWriter(*out)
	rb := func(k int) []byte {
		b := make([]byte, k)
		for i := range b {
			b[i] = byte(rng.Intn(256))
		}
		return b
	}
	for t := 1; t <= *n; t++ {
		w.Begin(t)
		guard := func(name string, ev tr.E, f func()) {
			defer func() {
				if x := recover(); x != nil {
					ev["out"], ev["panic"] = "panic", fmt.Sprint(x)
				}
				w.Ev(name, ev)
			}()
			f()
		}
		if rng.Intn(2) == 0 {
			d := rb(rng.Intn(9))
			r := buffer.NewReader(d)
			w.Ev("New", tr.E{"kind": "reader", "data": tr.Ints(d), "cap": 0})
			for s := 0; s < 25; s++ {
				switch rng.Intn(6) {
				case 0, 1:
					k := rng.Intn(5)
					ev := tr.E{"k": k}
					guard("Read", ev, func() { p := make([]byte, k); m, err := r.Read(p); ev["bs"], ev["e"] = tr.Ints(p[:m]), en(err) })
				case 2:
					k, off := rng.Intn(5), rng.Intn(len(d)+2)
					ev := tr.E{"k": k, "off": off}
					guard("ReadAt", ev, func() {
						p := make([]byte, k)
						m, err := r.ReadAt(p, int64(off))
						ev["bs"], ev["e"] = tr.Ints(p[:m]), en(err)
					})
				case 3:
					guard("ResetR", tr.E{}, func() { r.Reset() })
				case 4:
					ev := tr.E{}
					guard("Bytes", ev, func() { ev["bs"], ev["cap"] = tr.Ints(r.Bytes()), 0 })
				default:
					ev := tr.E{}
					guard("Len", ev, func() { ev["n"] = r.Len() })
				}
			}
		} else {
			c := rng.Intn(8)
			pre := rb(rng.Intn(c + 1))
			buf := make([]byte, len(pre), c)
			copy(buf, pre)
			static := rng.Intn(2) == 0
			var wr *buffer.Writer
			if static {
				wr = buffer.NewStaticWriter(buf)
			} else {
				wr = buffer.NewWriter(buf)
			}
			kind := "writer"
			if static {
				kind = "static"
			}
			w.Ev("New", tr.E{"kind": kind, "data": tr.Ints(pre), "cap": c})
			for s := 0; s < 25; s++ {
				switch rng.Intn(6) {
				case 0, 1, 2:
					p := rb(rng.Intn(6))
					ev := tr.E{"p": tr.Ints(p)}
					guard("Write", ev, func() { m, err := wr.Write(p); ev["n"], ev["e"], ev["cap"] = m, en(err), cap(wr.Bytes()) })
				case 3:
					guard("ResetW", tr.E{}, func() { wr.Reset() })
				case 4:
					ev := tr.E{}
					guard("Bytes", ev, func() { ev["bs"], ev["cap"] = tr.Ints(wr.Bytes()), cap(wr.Bytes()) })
				default:
					ev := tr.E{}
					guard("Close", ev, func() { ev["e"] = en(wr.Close()) })
				}
			}
		}
		w.End(true)
	}
	w.Close()
	json.NewEncoder(os.Stdout).Encode(map[string]interface{}{"suite": "rw", "mode": "record", "executions": *n, "traces": w.Traces, "events": w.Events, "distinct_nontrivial": *n})
}

func init() { reg.Register("rw", "record", Record) }
