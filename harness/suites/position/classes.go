// Package position drives parse.Position and the error positions of the library's lexers and parsers
// (property C15). Texts come as sequences of the character classes of spec/text/Position.tla; this file
// concretises classes to characters, classifies characters back, and parses (never judges) context strings.
package position

import (
	"fmt"
	"os"
	"strconv"
	"strings"
	"unicode"
	"unicode/utf8"
)

// class numbers of spec/text/Position.tla
const (
	P1 = 1
	P2 = 2
	P3 = 3
	P4 = 4
	C1 = 5
	C3 = 6
	LF = 7
	CR = 8
	LS = 9
	PS = 10
)

var widths = [11]int{0, 1, 2, 3, 4, 1, 3, 1, 1, 3, 3}

// representatives of every class. '.' and ':' are left out of P1 (they delimit markers and the prefix of a
// context string) and U+00B7 out of P2 (it is the display form of a non-printable character).
var pools = [11][]rune{
	P1: {'a', 'Z', '~', ' ', '0', '@', '^', '_'},
	P2: {'\u00E9', '\u00DF', '\u0416', '\u00BF'},
	P3: {'\u20AC', '\u4E16', '\u2713', '\uFFFD'},
	P4: {'\U0001F600', '\U0001D49C', '\U00010348'},
	C1: {0x01, 0x00, '\t', 0x1B, 0x7F, '\f', '\v'},
	C3: {'\u200B', '\uFEFF', '\uE000', '\u202E', '\u2060'},
	LF: {'\n'},
	CR: {'\r'},
	LS: {'\u2028'},
	PS: {'\u2029'},
}

// display code of a rune found in a context string: 1..4 a printable representative, 0 the middle dot, 99 else
var dispCode = map[rune]int{'\u00B7': 0}

func init() {
	for c := 1; c <= 10; c++ {
		for _, r := range pools[c] {
			printable := c <= P4
			if utf8.RuneLen(r) != widths[c] || unicode.IsPrint(r) != printable || unicode.IsGraphic(r) != printable {
				fmt.Fprintf(os.Stderr, "position: representative %U does not belong to class %d\n", r, c)
				os.Exit(2)
			}
			if printable {
				dispCode[r] = c
			}
		}
	}
}

func mix(a, b uint64) uint64 {
	z := a ^ (b+1)*0x9E3779B97F4A7C15
	z = (z ^ (z >> 30)) * 0xBF58476D1CE4E5B9
	z = (z ^ (z >> 27)) * 0x94D049BB133111EB
	z ^= z >> 31
	return z >> 11
}

// concretise expands a run-length text and picks a representative for every character, determined by cs.
func concretise(rl [][2]int, cs uint64) []byte {
	var b []byte
	i := 0
	for _, r := range rl {
		for n := 0; n < r[1]; n++ {
			p := pools[r[0]]
			b = utf8.AppendRune(b, p[mix(cs, uint64(i))%uint64(len(p))])
			i++
		}
	}
	return b
}

// runs compresses a class sequence: equal neighbours of a non-break class become one run (Position.tla AsRuns).
func runs(cls []int) [][2]int {
	out := [][2]int{}
	for _, c := range cls {
		if n := len(out); n > 0 && c <= C3 && out[n-1][0] == c {
			out[n-1][1]++
		} else {
			out = append(out, [2]int{c, 1})
		}
	}
	return out
}

// classify maps valid UTF-8 to classes. Width and break kind are exact; a non-printable character of 2 or 4
// bytes has no class of its own and is reported as P2/P4 (only used where printability is irrelevant).
func classify(b []byte) (cls []int, valid bool) {
	if !utf8.Valid(b) {
		return []int{}, false
	}
	cls = []int{}
	for _, r := range string(b) {
		switch {
		case r == '\n':
			cls = append(cls, LF)
		case r == '\r':
			cls = append(cls, CR)
		case r == '\u2028':
			cls = append(cls, LS)
		case r == '\u2029':
			cls = append(cls, PS)
		default:
			w := utf8.RuneLen(r)
			if unicode.IsPrint(r) || w == 2 || w == 4 {
				cls = append(cls, w)
			} else if w == 1 {
				cls = append(cls, C1)
			} else {
				cls = append(cls, C3)
			}
		}
	}
	return cls, true
}

// ctxObs is a context string taken apart. Nothing in here decides whether it is a correct context.
type ctxObs struct {
	wf     bool  // two lines; "%5d: " prefix; second line is spaces and one '^'
	pl     int   // line number printed in the prefix
	ef, er bool  // "..." before / after the displayed text
	disp   []int // display codes of the text between the markers
	k      int   // displayed characters to the left of the caret
}

func parseCtx(ctx string) (o ctxObs) {
	o.disp = []int{}
	parts := strings.Split(ctx, "\n")
	if len(parts) != 2 {
		return
	}
	first, second := parts[0], parts[1]
	idx := strings.Index(first, ": ")
	if idx < 0 {
		return
	}
	n, err := strconv.Atoi(strings.TrimLeft(first[:idx], " "))
	if err != nil || fmt.Sprintf("%5d", n) != first[:idx] {
		return
	}
	if len(second) == 0 || second[len(second)-1] != '^' || strings.Trim(second[:len(second)-1], " ") != "" {
		return
	}
	if !utf8.ValidString(first) {
		return
	}
	rest := []rune(first[idx+2:])
	lead, trail := 0, 0
	for lead < len(rest) && rest[lead] == '.' {
		lead++
	}
	for trail < len(rest)-lead && rest[len(rest)-1-trail] == '.' {
		trail++
	}
	if (lead != 0 && lead != 3) || (trail != 0 && trail != 3) {
		return
	}
	o.wf, o.pl, o.ef, o.er = true, n, lead == 3, trail == 3
	for _, r := range rest[lead : len(rest)-trail] {
		if c, ok := dispCode[r]; ok {
			o.disp = append(o.disp, c)
		} else {
			o.disp = append(o.disp, 99)
		}
	}
	o.k = len(second) - 1 - utf8.RuneCountInString(first[:idx+2]) - lead
	return
}
