package position

import (
	"bytes"
	"encoding/json"
	"flag"
	"fmt"
	"io"
	"math/rand"
	"os"
	"strings"

	"github.com/tdewolff/parse/v2"
	"github.com/tdewolff/parse/v2/css"
	"github.com/tdewolff/parse/v2/html"
	"github.com/tdewolff/parse/v2/js"
	pjson "github.com/tdewolff/parse/v2/json"
	"github.com/tdewolff/parse/v2/xml"

	"verif/harness/internal/reg"
	"verif/harness/internal/tr"
)

type summary struct {
	Suite       string        `json:"suite"`
	Mode        string        `json:"mode"`
	Cases       int           `json:"cases"`
	Executions  int           `json:"executions"`
	Mismatches  int           `json:"mismatches"` // observation differs from the expectation the G spec emitted
	Traces      int           `json:"traces"`
	Events      int           `json:"events"`
	Nontrivial  int           `json:"distinct_nontrivial"`
	BaseInvalid int           `json:"base_invalid"` // insertion corpus: documents that do not parse untouched (generator bug)
	Errors      int           `json:"errors"`       // *parse.Error values examined
	Samples     []interface{} `json:"samples"`
	Drift       []interface{} `json:"mismatch_samples"`
}

// ------------------------------------------------------------------------------------------------ Position

// reader kinds: with Bytes() (taken over in place), plain (io.ReadAll), string
func reader(kind int, b []byte) io.Reader {
	switch kind % 3 {
	case 0:
		return bytes.NewBuffer(append(make([]byte, 0, len(b)+1), b...))
	case 1:
		return bytes.NewReader(append([]byte{}, b...))
	}
	return strings.NewReader(string(b))
}

// posEvent calls parse.Position and records what came back, the context taken apart by parseCtx.
func posEvent(w *tr.Writer, text []byte, off, rk int) (ev tr.E, o ctxObs) {
	ev = tr.E{"off": off, "rk": rk % 3, "line": 0, "col": 0, "wf": false, "pl": 0, "ef": false, "er": false, "disp": []int{}, "k": 0}
	defer func() {
		if r := recover(); r != nil {
			ev["out"] = "panic"
			ev["panic"] = fmt.Sprint(r)
		}
		w.Ev("Pos", ev)
	}()
	line, col, ctx := parse.Position(reader(rk, text), off)
	o = parseCtx(ctx)
	ev["line"], ev["col"] = line, col
	ev["wf"], ev["pl"], ev["ef"], ev["er"], ev["disp"], ev["k"] = o.wf, o.pl, o.ef, o.er, o.disp, o.k
	return
}

type row struct {
	Off    int  `json:"off"`
	Line   int  `json:"line"`
	ColLo  int  `json:"colLo"`
	ColHi  int  `json:"colHi"`
	Ls     int  `json:"ls"`
	N      int  `json:"n"`
	Tgt    int  `json:"tgt"`
	Bd     int  `json:"bd"`
	Col    int  `json:"col"`
	IdNext bool `json:"idnext"`
}

type tcase struct {
	Mode    string   `json:"mode"`
	Rl      [][2]int `json:"rl"`
	Blen    int      `json:"blen"`
	Rows    []row    `json:"rows"`
	Suite   string   `json:"suite"`
	Toks    [][]int  `json:"toks"`
	Illegal [][]int  `json:"illegal"`
}

func geti(e tr.E, k string) int {
	if v, ok := e[k].(int); ok {
		return v
	}
	return -999
}

// Replay runs the cases TLC emitted from PositionGen (texts x offsets) or InsertGen (documents x boundaries).
func Replay(args []string) {
	fs := flag.NewFlagSet("position replay", flag.ExitOnError)
	cases := fs.String("cases", "", "ndjson emitted by TLC")
	out := fs.String("out", "", "trace file")
	seed := fs.Int64("seed", 1, "seed (choice of class representatives)")
	tid0 := fs.Int("tid0", 0, "trace ids start after this number")
	fs.Parse(args)
	w := tr.NewWriter(*out)
	sum := summary{Suite: "position", Mode: "replay"}
	seen := map[string]bool{}
	tid := *tid0
	err := tr.ReadCases(*cases, func(ln int, raw []byte) {
		var c tcase
		if err := json.Unmarshal(raw, &c); err != nil {
			fmt.Fprintln(os.Stderr, "bad case:", err)
			os.Exit(2)
		}
		sum.Cases++
		if c.Suite != "" {
			replayInsert(w, &sum, &c, &tid)
			return
		}
		cs := mix(uint64(*seed), uint64(ln))
		text := concretise(c.Rl, cs)
		if len(text) != c.Blen {
			fmt.Fprintf(os.Stderr, "case %d: %d bytes, the specification says %d\n", ln, len(text), c.Blen)
			os.Exit(2)
		}
		tid++
		w.Begin(tid)
		w.Ev("Text", tr.E{"rl": c.Rl, "cs": fmt.Sprint(cs)})
		for j, r := range c.Rows {
			sum.Executions++
			ev, o := posEvent(w, text, r.Off, int(cs>>8)+j)
			mism := ev["out"] != nil && ev["out"] != "ret" || geti(ev, "line") != r.Line || geti(ev, "col") < r.ColLo || geti(ev, "col") > r.ColHi || !o.wf
			if !mism && r.Off >= 0 && geti(ev, "col") == r.ColLo {
				// where the displayed window is anchored to an end of the line the caret's character is known
				if !o.ef && o.k != r.Tgt {
					mism = true
				} else if o.ef && !o.er && r.N-len(o.disp)+o.k != r.Tgt {
					mism = true
				}
			}
			if mism {
				sum.Mismatches++
				if len(sum.Drift) < 5 {
					sum.Drift = append(sum.Drift, map[string]interface{}{"rl": c.Rl, "expected": r, "observed": ev})
				}
			}
			if r.Line > 1 || r.ColLo > 1 || o.ef || o.er {
				key := fmt.Sprint(c.Rl, r.Off)
				if !seen[key] {
					seen[key] = true
					sum.Nontrivial++
				}
			}
			if len(sum.Samples) < 2 && (o.ef || r.Line > 1) && j == len(c.Rows)/2 {
				sum.Samples = append(sum.Samples, map[string]interface{}{"rl": c.Rl, "text": string(text), "expected": r, "observed": ev})
			}
		}
		w.End(true)
	})
	if err != nil {
		fmt.Fprintln(os.Stderr, "replay:", err)
		os.Exit(2)
	}
	w.Close()
	sum.Traces, sum.Events = w.Traces, w.Events
	json.NewEncoder(os.Stdout).Encode(sum)
}

// ------------------------------------------------------------------------------------------------ error positions

// perr is one *parse.Error together with the parser's cursor when it was handed out (-1: not observable)
type perr struct {
	e   *parse.Error
	cur int
	// alone: what a second parser over the same input hands out when it is asked for its error only at this report
	// (nil: not tried -- the first report, or a parser that stops at its first error)
	alone *parse.Error
}

// errAlone runs a fresh css parser / js lexer over input and calls Err() only at the k-th error report (0-based).
func errAlone(suite string, opt int, input []byte, k int) *parse.Error {
	in := parse.NewInputBytes(append(make([]byte, 0, len(input)+1), input...))
	limit := 4*len(input) + 64
	n := 0
	switch suite {
	case "css":
		p := css.NewParser(in, opt == 1)
		for i := 0; i < limit; i++ {
			if gt, _, _ := p.Next(); gt == css.ErrorGrammar {
				if n == k {
					pe, _ := p.Err().(*parse.Error)
					return pe
				}
				n++
			}
		}
	case "jslex":
		l := js.NewLexer(in)
		for i := 0; i < limit; i++ {
			if tt, _ := l.Next(); tt == js.ErrorToken {
				if n == k {
					pe, _ := l.Err().(*parse.Error)
					return pe
				}
				n++
			}
		}
	}
	return nil
}

// runParser feeds input to one lexer/parser of the library and collects every *parse.Error it hands out.
func runParser(suite string, opt int, input []byte) (errs []perr) {
	in := parse.NewInputBytes(append(make([]byte, 0, len(input)+1), input...))
	add := func(err error, cur int) bool {
		if pe, ok := err.(*parse.Error); ok && pe != nil {
			errs = append(errs, perr{e: pe, cur: cur})
			return true
		}
		return false
	}
	limit := 4*len(input) + 64
	switch suite {
	case "js":
		_, err := js.Parse(in, js.Options{Inline: opt == 1})
		add(err, -1)
	case "jslex":
		l := js.NewLexer(in)
		for i := 0; i < limit; i++ {
			tt, _ := l.Next()
			if tt == js.ErrorToken {
				if !add(l.Err(), -1) {
					break
				}
			}
		}
	case "json":
		p := pjson.NewParser(in)
		for i := 0; i < limit; i++ {
			gt, _ := p.Next()
			if gt == pjson.ErrorGrammar {
				add(p.Err(), in.Offset())
				break
			}
		}
	case "css":
		p := css.NewParser(in, opt == 1)
		for i := 0; i < limit; i++ {
			gt, _, _ := p.Next()
			if gt == css.ErrorGrammar {
				if !add(p.Err(), -1) {
					break
				}
			}
		}
	case "xml":
		l := xml.NewLexer(in)
		for i := 0; i < limit; i++ {
			tt, _ := l.Next()
			if tt == xml.ErrorToken {
				add(l.Err(), in.Offset())
				break
			}
		}
	case "html":
		l := html.NewLexer(in)
		for i := 0; i < limit; i++ {
			tt, _ := l.Next()
			if tt == html.ErrorToken {
				add(l.Err(), in.Offset())
				break
			}
		}
	default:
		panic("unknown suite " + suite)
	}
	return
}

// matches tabulates the offsets inside the input whose parse.Position equals the error's triple.
func matches(input []byte, e *parse.Error) []int {
	m := []int{}
	for k := 0; k <= len(input); k++ {
		func() {
			defer func() { recover() }() // a panic of Position is observed (and judged) where Position itself is the subject
			l, c, ctx := parse.Position(bytes.NewReader(input), k)
			if l == e.Line && c == e.Column && ctx == e.Context {
				m = append(m, k)
			}
		}()
	}
	return m
}

// contextCase names how the context of an error that matches no byte of the input differs from the context parse.Position
// gives for a byte at the same line and column: "letter-case-before-foreign-content" (only ASCII letter case, and only in front
// of / within the opening tag of the first svg or math element of the line -- names the html lexer has handed out lower-cased
// in earlier tokens), "letter-case" (only letter case, elsewhere), "" (anything else, or no byte has that line and column).
func contextCase(input []byte, e *parse.Error) (kind string) {
	defer func() {
		if recover() != nil {
			kind = ""
		}
	}()
	for k := 0; k <= len(input); k++ {
		l, c, ctx := parse.Position(bytes.NewReader(input), k)
		if l != e.Line || c != e.Column {
			continue
		}
		if len(ctx) != len(e.Context) || !strings.EqualFold(ctx, e.Context) {
			return ""
		}
		low := strings.ToLower(ctx)
		limit := -1
		for _, name := range []string{"<svg", "<math"} {
			if i := strings.Index(low, name); i >= 0 && (limit < 0 || i < limit) {
				limit = i + len(name)
			}
		}
		for i := 0; i < len(ctx); i++ {
			if ctx[i] != e.Context[i] && (limit < 0 || i >= limit) {
				return "letter-case"
			}
		}
		return "letter-case-before-foreign-content"
	}
	return ""
}

// errTrace runs a parser on input and writes the trace: Input, then one ErrPos per error (or NoErr).
// It returns the errors. always: write a trace even when no error came out.
func errTrace(w *tr.Writer, tid int, suite string, opt int, input []byte, ins int, always bool) (errs []perr, panicked bool) {
	cls, valid := classify(input)
	w.Begin(tid)
	w.Ev("Input", tr.E{"suite": suite, "opt": opt, "rl": runs(cls), "valid": valid, "ilen": len(input), "ins": ins, "bytes": tr.Ints(input)})
	func() {
		defer func() {
			if r := recover(); r != nil {
				panicked = true
				w.Ev("ErrPos", tr.E{"out": "panic", "panic": fmt.Sprint(r), "line": 0, "col": 0, "matches": []int{}, "cur": -1})
			}
		}()
		errs = runParser(suite, opt, input)
		if suite == "css" || suite == "jslex" {
			for k := 1; k < len(errs) && k < 5; k++ {
				errs[k].alone = errAlone(suite, opt, input, k)
			}
		}
	}()
	for _, pe := range errs {
		msg := pe.e.Message
		if len(msg) > 60 {
			msg = msg[:60]
		}
		ev := tr.E{"line": pe.e.Line, "col": pe.e.Column, "matches": matches(input, pe.e), "cur": pe.cur, "msg": msg}
		if m, _ := ev["matches"].([]int); len(m) == 0 {
			ev["ctxcase"] = contextCase(input, pe.e)
		}
		if a := pe.alone; a != nil {
			ev["same"] = a.Line == pe.e.Line && a.Column == pe.e.Column && a.Context == pe.e.Context && a.Message == pe.e.Message
			ev["alone"] = []int{a.Line, a.Column}
		}
		w.Ev("ErrPos", ev)
	}
	if len(errs) == 0 && !panicked {
		w.Ev("NoErr", tr.E{})
	}
	w.End(always || len(errs) > 0 || panicked)
	return
}

func toBytes(v []int) []byte {
	b := make([]byte, len(v))
	for i, x := range v {
		b[i] = byte(x)
	}
	return b
}

// replayInsert: the untouched document must parse; then every illegal character at every interior boundary.
func replayInsert(w *tr.Writer, sum *summary, c *tcase, tid *int) {
	var base []byte
	for _, t := range c.Toks {
		base = append(base, toBytes(t)...)
	}
	if errs := runParser(c.Suite, 0, base); len(errs) > 0 {
		sum.BaseInvalid++
		fmt.Fprintf(os.Stderr, "insertion corpus: %s document %q does not parse: %v\n", c.Suite, base, errs[0].e)
		return
	}
	for _, r := range c.Rows {
		for _, ill := range c.Illegal {
			if len(ill) == 1 && ill[0] == '#' && r.IdNext {
				continue // '#' + identifier is a token (a private name), not an illegal character
			}
			doc := append(append(append([]byte{}, base[:r.Off]...), toBytes(ill)...), base[r.Off:]...)
			*tid++
			sum.Executions++
			errs, panicked := errTrace(w, *tid, c.Suite, 0, doc, r.Off, true)
			sum.Errors += len(errs)
			mism := panicked || len(errs) == 0
			for _, pe := range errs {
				mism = mism || pe.e.Line != r.Line || pe.e.Column != r.Col
			}
			if mism {
				sum.Mismatches++
				if len(sum.Drift) < 5 {
					obs := interface{}("no error")
					if len(errs) > 0 {
						obs = map[string]interface{}{"line": errs[0].e.Line, "col": errs[0].e.Column, "msg": errs[0].e.Message}
					}
					sum.Drift = append(sum.Drift, map[string]interface{}{"suite": c.Suite, "doc": string(doc), "expected": r, "observed": obs})
				}
			}
			if r.Line > 1 || r.Col > 1 {
				sum.Nontrivial++
			}
			if len(sum.Samples) < 2 && r.Line > 1 && !mism {
				sum.Samples = append(sum.Samples, map[string]interface{}{"suite": c.Suite, "doc": string(doc), "expected": r,
					"observed": map[string]interface{}{"line": errs[0].e.Line, "col": errs[0].e.Column, "msg": errs[0].e.Message}})
			}
		}
	}
}

// ------------------------------------------------------------------------------------------------ record

// randClasses draws a class sequence the specification did not choose: mixtures of short lines, long lines
// (beyond the elision limit) and all break kinds.
func randClasses(rng *rand.Rand) []int {
	var cls []int
	lines := 1 + rng.Intn(4)
	for l := 0; l < lines; l++ {
		n := rng.Intn(12)
		switch rng.Intn(4) {
		case 0:
			n = 38 + rng.Intn(50)
		case 1:
			n = 55 + rng.Intn(12)
		}
		fav := 1 + rng.Intn(6)
		for i := 0; i < n; i++ {
			c := fav
			if rng.Intn(3) == 0 {
				c = 1 + rng.Intn(6)
			}
			if rng.Intn(40) == 0 {
				c = LS + rng.Intn(2)
			}
			cls = append(cls, c)
		}
		if l < lines-1 || rng.Intn(3) == 0 {
			switch rng.Intn(5) {
			case 0:
				cls = append(cls, LF)
			case 1:
				cls = append(cls, CR)
			case 2:
				cls = append(cls, CR, LF)
			case 3:
				cls = append(cls, LS)
			case 4:
				cls = append(cls, PS)
			}
		}
	}
	return cls
}

var corpus = map[string][]string{
	"js": {"var a = 1;\nlet b = 'x\u00e9';\nif (a) { b = `t${a}u` }", "function f(x, y) {\r\n  return x / y // c\n}\nf(1, 2)", "a = /re[/]x/g.test(s) ? {k: [1, 2.5e3]} : null",
		"class A extends B { #p = 1; static m() { return super.m() } }", "for (const x of [1,2]) { x => x+1 }\u2028y\u2029z", "a = 0x1F + 1_000n - .5e-3; /* \U0001F600 */ b++", "label: while (1) { break label }"},
	"jslex": {"var a = 1;\nlet b = 'x\u00e9';", "a = 0x1F + 1_000n - .5e-3; /* \U0001F600 */ b++", "`t${a}u` 'str' \"s\\\n\" /=/", "1.5e+3 0b101 0o17 078 1n .5"},
	"json":  {"{\"a\": [1, -2.5e3, true, null], \"b\u00e9\": {\"c\": \"\U0001F600\\n\"}}", "[\n  1,\r\n  \"two\",\n  {\"three\": 3}\n]", "[[[]], {}, \"\", 0]"},
	"css": {"a { color: red; margin: 0 auto }\n@media (min-width: 10px) {\n  b > c { d: e(1, 2) !important }\r\n}", "@import url('x\u00e9.css');\n.a::before { content: \"\\201C\"; --v: {a:b} }", "color: red; background: url(x.png) no-repeat; width: calc(1px + 2%)",
		"a{b:c}d{e:f;g:h}/* \U0001F600 */i{}", "@font-face { font-family: x; src: url(a) }\n@keyframes k { from { a: b } 50% { c: d } }"},
	"xml": {"<a b=\"c\nd\" e='f\r\ng'>\n<h i=\"j\tk\"/>x</a>", "<?xml version=\"1.0\"?>\n<a b=\"c\u00e9\">text<!-- c --><d/>\r\n<![CDATA[x]]></a>", "<!DOCTYPE a [<!ENTITY e \"v\">]><a x='1' y=\"2\">&e;</a>"},
	"html": {"<!doctype html>\n<html><head><title>t\u00e9</title><script>var a = '</b>';\n</script></head>\r\n<body class=a id='b'>x<br/><!-- c --><style>a{b:c}</style></body></html>",
		"<div a=\"b\nc\" d='e\r\nf'>\n<p g=\"h\ti\">x</p></div>", "<p a=1 b='2' c=\"3\" d>text &amp; more<svg><path d=\"M0\"/></svg><textarea>\U0001F600</textarea>",
		// foreign content whose inner names are not lower case (the lexer leaves them alone), all on one line
		"<p a=1><svg viewBox=\"0 0 1 1\"><linearGradient id=\"g\"><G></G></linearGradient><clipPath/>t</svg><math><MI>x</MI><mo>+</mo></math>",
		// names outside foreign content that are not lower case (the lexer lower-cases them in its buffer)
		"<P CLASS=a ID='b'><svg><g>t</g></svg>"},
}
var suiteNames = []string{"js", "jslex", "json", "css", "xml", "html"}

var splices = []string{"\x00", "@", "\\", "\xff", "\xc3", "\u0080", "\u2028", "\r\n", "\n", "\r", "#", "'", "\"", "`", "{", "}", "(", ")", "[", "]", "<", ">", "/", "*", ",", ":", ";", "\U0001F600", "\u20ac", "0", "e", "=", "$"}

// mutate truncates / substitutes / inserts / duplicates, one to three times.
func mutate(rng *rand.Rand, s []byte) []byte {
	b := append([]byte{}, s...)
	for n := 1 + rng.Intn(3); n > 0; n-- {
		if len(b) == 0 {
			break
		}
		p := rng.Intn(len(b) + 1)
		sp := splices[rng.Intn(len(splices))]
		switch rng.Intn(5) {
		case 0:
			b = b[:p]
		case 1:
			if p < len(b) {
				b = append(append(append([]byte{}, b[:p]...), sp...), b[p+1:]...)
			}
		case 2:
			b = append(append(append([]byte{}, b[:p]...), sp...), b[p:]...)
		case 3:
			q := p + rng.Intn(len(b)-p+1)
			b = append(append(append([]byte{}, b[:q]...), b[p:q]...), b[q:]...)
		case 4:
			q := p + rng.Intn(len(b)-p+1)
			if q-p > 8 {
				q = p + 8
			}
			b = append(append([]byte{}, b[:p]...), b[q:]...)
		}
	}
	if len(b) > 400 {
		b = b[:400]
	}
	return b
}

// Record drives inputs the specification did not choose: random valid-UTF-8 texts x random offsets for
// parse.Position, and random mutations of small documents for every lexer/parser to harvest *parse.Error values.
func Record(args []string) {
	fs := flag.NewFlagSet("position record", flag.ExitOnError)
	out := fs.String("out", "", "trace file")
	n := fs.Int("n", 500, "number of random texts")
	offs := fs.Int("offs", 8, "offsets per text")
	m := fs.Int("m", 2000, "number of mutated parser inputs")
	sweep := fs.Bool("sweep", true, "also: every corpus document truncated at / NUL substituted at / NUL inserted at every offset")
	seed := fs.Int64("seed", 1, "seed")
	tid0 := fs.Int("tid0", 0, "trace ids start after this number")
	fs.Parse(args)
	rng := rand.New(rand.NewSource(*seed))
	w := tr.NewWriter(*out)
	sum := summary{Suite: "position", Mode: "record"}
	tid := *tid0
	for t := 0; t < *n; t++ {
		cls := randClasses(rng)
		rl := runs(cls)
		cs := mix(uint64(*seed), uint64(1000000+t))
		text := concretise(rl, cs)
		tid++
		w.Begin(tid)
		w.Ev("Text", tr.E{"rl": rl, "cs": fmt.Sprint(cs)})
		for j := 0; j < *offs; j++ {
			off := rng.Intn(len(text)+3) - 1
			sum.Executions++
			posEvent(w, text, off, rng.Intn(3))
		}
		if len(sum.Samples) < 1 && len(text) > 60 {
			sum.Samples = append(sum.Samples, map[string]interface{}{"rl": rl, "offsets": *offs})
		}
		if len(cls) > 1 {
			sum.Nontrivial++
		}
		w.End(true)
	}
	seen := map[string]bool{}
	harvest := func(suite string, opt int, input []byte) {
		tid++
		sum.Executions++
		errs, _ := errTrace(w, tid, suite, opt, input, -1, false)
		sum.Errors += len(errs)
		if len(errs) > 0 {
			if key := suite + string(input); !seen[key] {
				seen[key] = true
				sum.Nontrivial++
			}
			if len(sum.Samples) < 3 {
				sum.Samples = append(sum.Samples, map[string]interface{}{"suite": suite, "input": string(input), "line": errs[0].e.Line, "col": errs[0].e.Column, "msg": errs[0].e.Message})
			}
		}
	}
	if *sweep {
		for _, suite := range suiteNames {
			for _, doc := range corpus[suite] {
				d := []byte(doc)
				for off := 0; off <= len(d); off++ {
					harvest(suite, 0, d[:off])
					harvest(suite, 0, append(append(append([]byte{}, d[:off]...), 0), d[off:]...))
					if off < len(d) {
						harvest(suite, 0, append(append(append([]byte{}, d[:off]...), 0), d[off+1:]...))
					}
				}
			}
		}
	}
	for t := 0; t < *m; t++ {
		suite := suiteNames[rng.Intn(len(suiteNames))]
		docs := corpus[suite]
		input := mutate(rng, []byte(docs[rng.Intn(len(docs))]))
		opt := 0
		if (suite == "css" || suite == "js") && rng.Intn(3) == 0 {
			opt = 1
		}
		harvest(suite, opt, input)
	}
	w.Close()
	sum.Traces, sum.Events = w.Traces, w.Events
	json.NewEncoder(os.Stdout).Encode(sum)
}

// ------------------------------------------------------------------------------------------------ rerun

// Rerun re-executes one recorded trace (a JSON array of events) on the current code and records a fresh trace.
func Rerun(args []string) {
	fs := flag.NewFlagSet("position rerun", flag.ExitOnError)
	in := fs.String("trace", "", "JSON array of events")
	out := fs.String("out", "", "trace file")
	fs.Parse(args)
	raw, err := os.ReadFile(*in)
	if err != nil {
		fmt.Fprintln(os.Stderr, err)
		os.Exit(2)
	}
	var evs []map[string]interface{}
	if err := json.Unmarshal(raw, &evs); err != nil || len(evs) == 0 {
		fmt.Fprintln(os.Stderr, "bad trace", err)
		os.Exit(2)
	}
	num := func(e map[string]interface{}, k string) int {
		if v, ok := e[k].(float64); ok {
			return int(v)
		}
		return 0
	}
	w := tr.NewWriter(*out)
	e0 := evs[0]
	switch e0["ev"] {
	case "Text":
		var rl [][2]int
		for _, r := range e0["rl"].([]interface{}) {
			p := r.([]interface{})
			rl = append(rl, [2]int{int(p[0].(float64)), int(p[1].(float64))})
		}
		if rl == nil {
			rl = [][2]int{}
		}
		var cs uint64
		fmt.Sscan(e0["cs"].(string), &cs)
		text := concretise(rl, cs)
		w.Begin(1)
		w.Ev("Text", tr.E{"rl": rl, "cs": fmt.Sprint(cs)})
		for _, e := range evs[1:] {
			posEvent(w, text, num(e, "off"), num(e, "rk"))
		}
		w.End(true)
	case "Input":
		var input []byte
		for _, v := range e0["bytes"].([]interface{}) {
			input = append(input, byte(v.(float64)))
		}
		errTrace(w, 1, e0["suite"].(string), num(e0, "opt"), input, num(e0, "ins"), true)
	default:
		fmt.Fprintln(os.Stderr, "trace does not start with Text or Input")
		os.Exit(2)
	}
	w.Close()
	json.NewEncoder(os.Stdout).Encode(summary{Suite: "position", Mode: "rerun", Executions: 1, Traces: w.Traces, Events: w.Events})
}

func init() {
	reg.Register("position", "replay", Replay)
	reg.Register("position", "record", Record)
	reg.Register("position", "rerun", Rerun)
}
