package csstok

// Differential conformance of the implementation-shaped model spec/css/CssLexImpl.tla (kind I) with css.Lexer: TLC writes
// every class string within its bound together with the token list the model predicts (type, length in characters), the
// deviation flags the model raised on it and - for flagged inputs - the token list of the reference tokeniser
// spec/css/CssRef.tla (the standard).  This mode spells every character class with a representative byte sequence chosen by
// the seed, lexes the bytes with lexers.RunTokens and compares token by token: type and byte length, then the error report
// (io.EOF).  A difference is MODEL DRIFT, never a verdict.  What the code did on a differing input is recorded as an ordinary
// csstok trace whose expectation is the STANDARD's token list as TLC computed it (for an input without flags TLC has proved
// the predicted list equal to it), and spec/css/CssTokensTrace.tla - the property - judges that trace.  Inputs on which the
// code is known to leave the standard (flags other than badstring-newline, which the property allows) are not judged.

import (
	"encoding/json"
	"flag"
	"fmt"
	"hash/fnv"
	"math/rand"
	"os"

	"verif/harness/internal/reg"
	"verif/harness/internal/tr"
	"verif/harness/suites/lexers"
)

// character class of CssLexImpl.tla -> representatives.  The classes are the byte tests css/lex.go makes; "letter" has no
// hexadecimal digit and none of e u r l, "nonascii" is one valid UTF-8 code point (lead byte >= 0xC0), "other" has no role.
var implReps = map[string][]string{
	"letter": {"g", "z", "Q", "_", "k", "x", "G", "h", "t", "Z", "n", "o", "p", "s", "w"}, "hex": {"a", "b", "c", "d", "f", "A", "B", "C", "D", "F"},
	"e": {"e", "E"}, "u": {"u", "U"}, "r": {"r", "R"}, "l": {"l", "L"},
	"digit": {"0", "1", "2", "3", "4", "5", "6", "7", "8", "9"}, "nonascii": {"é", "†", "😀", "\u0080", "δ", "߿", "￿"},
	"ws": {" ", "\t"}, "nl": {"\n"}, "cr": {"\r"}, "ff": {"\f"}, "nul": {"\x00"},
	"np": {"\x01", "\x08", "\x0b", "\x0e", "\x1f", "\x7f"}, "other": {"&", "`"},
	"plus": {"+"}, "dash": {"-"}, "dot": {"."}, "bslash": {"\\"}, "dq": {"\""}, "sq": {"'"}, "lparen": {"("}, "rparen": {")"},
	"hash": {"#"}, "at": {"@"}, "slash": {"/"}, "star": {"*"}, "lt": {"<"}, "gt": {">"}, "bang": {"!"}, "pipe": {"|"}, "tilde": {"~"},
	"caret": {"^"}, "dollar": {"$"}, "eq": {"="}, "pct": {"%"}, "qmark": {"?"}, "colon": {":"}, "semi": {";"}, "comma": {","},
	"lbrack": {"["}, "rbrack": {"]"}, "lbrace": {"{"}, "rbrace": {"}"},
}

// a token kind -> an item of CssTokens.tla of that kind: the trace specification looks the kind of an expected item up by its
// name (CssTokens!Kind), so the standard's token list is handed over as a list of such names.
var kindItem = map[string]string{
	"Ident": "id.one", "Function": "func.plain", "AtKeyword": "at.plain", "Hash": "hash.id", "String": "str.dq", "BadString": "badstr.dq",
	"URL": "url.unq", "BadURL": "badurl.quote", "Delim": "delim.other", "Number": "num.int", "Percentage": "pct.int", "Dimension": "dim.plain",
	"UnicodeRange": "ur.single", "IncludeMatch": "match.incl", "DashMatch": "match.dash", "PrefixMatch": "match.prefix",
	"SuffixMatch": "match.suffix", "SubstringMatch": "match.substr", "Column": "column", "Whitespace": "sep.sp", "CDO": "cdo", "CDC": "cdc",
	"Colon": "colon", "Semicolon": "semi", "Comma": "comma", "LeftBracket": "lbrack", "RightBracket": "rbrack", "LeftParenthesis": "lparen",
	"RightParenthesis": "rparen", "LeftBrace": "lbrace", "RightBrace": "rbrace", "Comment": "sep.cmt", "CustomPropertyName": "custom.plain",
}

type stdTok struct {
	K string `json:"k"`
	N int    `json:"n"`
}

type implCase struct {
	Cls []string `json:"cls"`
	Ks  []string `json:"ks"`
	Ns  []int    `json:"ns"`
	Dev []string `json:"dev"`
	Std []stdTok `json:"std"`
}

type implSummary struct {
	Suite      string         `json:"suite"`
	Mode       string         `json:"mode"`
	Cases      int            `json:"cases"`
	Executions int            `json:"executions"`
	Mismatches int            `json:"mismatches"`
	Judged     int            `json:"judged_by_property"`
	Unjudged   int            `json:"differences_on_deviation_inputs"`
	Respelled  int            `json:"respelled"`
	Skipped    int            `json:"skipped_spellings"`
	Traces     int            `json:"traces"`
	Events     int            `json:"events"`
	Nontrivial int            `json:"distinct_nontrivial"`
	Tokens     int            `json:"tokens_compared"`
	KindCount  map[string]int `json:"kind_count"`
	DevCount   map[string]int `json:"dev_count"`
	DriftKinds map[string]int `json:"drift_kinds"`
	Drift      []interface{}  `json:"drift_samples"`
	Samples    []interface{}  `json:"samples"`
}

func implRng(seed int64, raw []byte, salt int) *rand.Rand {
	h := fnv.New64a()
	h.Write(raw)
	return rand.New(rand.NewSource(int64(h.Sum64()) ^ seed*1000003 ^ int64(salt)*7919))
}

// spellImpl: the bytes, and off[i] = byte offset of character i (off[len] = length of the input).
func spellImpl(cls []string, rng *rand.Rand) ([]byte, []int) {
	var in []byte
	off := make([]int, len(cls)+1)
	for i, c := range cls {
		r, ok := implReps[c]
		if !ok {
			fmt.Fprintln(os.Stderr, "csstok impl: unknown character class", c)
			os.Exit(2)
		}
		off[i] = len(in)
		in = append(in, r[rng.Intn(len(r))]...)
	}
	off[len(cls)] = len(in)
	return in, off
}

func hexVal(c byte) int {
	switch {
	case c >= '0' && c <= '9':
		return int(c - '0')
	case c >= 'a' && c <= 'f':
		return int(c-'a') + 10
	case c >= 'A' && c <= 'F':
		return int(c-'A') + 10
	}
	return -1
}

// spellsURLLetter: some backslash is followed by hexadecimal digits whose value is u, r or l in either case. The value of a
// hexadecimal escape is not determined on classes; the model (and CssRef) take it to be none of these letters.
func spellsURLLetter(in []byte) bool {
	for i := 0; i < len(in); i++ {
		if in[i] != '\\' {
			continue
		}
		v, n := 0, 0
		for j := i + 1; j < len(in) && n < 6 && hexVal(in[j]) >= 0; j++ {
			v = v*16 + hexVal(in[j])
			n++
		}
		if n > 0 {
			switch v {
			case 'u', 'U', 'r', 'R', 'l', 'L':
				return true
			}
		}
	}
	return false
}

// diffImpl compares the prediction with what the lexer returned; "" if they agree, else (field, detail).
func diffImpl(c *implCase, off []int, got []lexers.Tok, pn string) (string, string) {
	if pn != "" {
		return "panic", pn
	}
	at := 0
	for i, k := range c.Ks {
		if i >= len(got) {
			return "count", fmt.Sprintf("model: %d tokens, code: %d reports", len(c.Ks), len(got))
		}
		g := got[i]
		if g.IsErr {
			return "count", fmt.Sprintf("token %d: model %s, code: error report %q", i, k, g.Err)
		}
		if g.KName != k {
			return "kind", fmt.Sprintf("token %d: model %s, code %s %q", i, k, g.KName, g.Text)
		}
		hi := at + c.Ns[i]
		if hi >= len(off) {
			return "range", fmt.Sprintf("token %d: model range behind the input", i)
		}
		if len(g.Text) != off[hi]-off[at] {
			return "len", fmt.Sprintf("token %d %s: model %d bytes, code %d bytes %q", i, k, off[hi]-off[at], len(g.Text), g.Text)
		}
		at = hi
	}
	if len(got) != len(c.Ks)+1 {
		return "count", fmt.Sprintf("model: %d tokens then the error report, code: %d reports", len(c.Ks), len(got))
	}
	if e := got[len(got)-1]; !e.IsErr || e.Err != "EOF" {
		return "err", fmt.Sprintf("model: error report io.EOF, code: %s %q", e.KName, e.Err)
	}
	return "", ""
}

// Impl: cases of CssLexImpl.tla -> bytes -> css.Lexer; prediction against observation.
func Impl(args []string) {
	fs := flag.NewFlagSet("csstok impl", flag.ExitOnError)
	cases := fs.String("cases", "", "ndjson cases of CssLexImpl.tla")
	out := fs.String("out", "", "trace file (the differing inputs, for CssTokensTrace.tla)")
	seed := fs.Int64("seed", 1, "seed")
	variants := fs.Int("variants", 2, "spellings per case")
	tidbase := fs.Int("tidbase", 0, "first trace id minus one")
	fs.Parse(args)
	w := tr.NewWriter(*out)
	sum := implSummary{Suite: "csstok", Mode: "impl", KindCount: map[string]int{}, DevCount: map[string]int{}, DriftKinds: map[string]int{}}
	tid := *tidbase
	nline := 0
	err := tr.ReadCases(*cases, func(line int, raw []byte) {
		var c implCase
		if err := json.Unmarshal(raw, &c); err != nil || len(c.Ks) != len(c.Ns) {
			fmt.Fprintln(os.Stderr, "csstok impl: bad case:", err, string(raw))
			os.Exit(2)
		}
		nline++
		sum.Cases++
		for _, k := range c.Ks {
			sum.KindCount[k]++
		}
		for _, d := range c.Dev {
			sum.DevCount[d]++
		}
		seen := map[string]bool{}
		for v := 0; v < *variants; v++ {
			var in []byte
			var off []int
			okSpell := false
			for salt := 0; salt < 8; salt++ {
				in, off = spellImpl(c.Cls, implRng(*seed, raw, v*8+salt))
				if !spellsURLLetter(in) {
					okSpell = true
					break
				}
				sum.Respelled++
			}
			if !okSpell {
				sum.Skipped++
				continue
			}
			if seen[string(in)] {
				continue
			}
			seen[string(in)] = true
			var got []lexers.Tok
			pn := ""
			func() {
				defer func() {
					if x := recover(); x != nil {
						pn = fmt.Sprint(x)
					}
				}()
				got = lexers.RunTokens(lang, in)
			}()
			sum.Executions++
			sum.Tokens += len(c.Ks)
			if len(c.Ks) >= 2 {
				sum.Nontrivial++
			}
			field, detail := diffImpl(&c, off, got, pn)
			if field != "" {
				sum.Mismatches++
				sum.DriftKinds[field]++
				// the standard's token list: TLC's reference list for a flagged input, else the prediction (proved equal to it)
				exp := c.Std
				if len(c.Dev) == 0 {
					exp = exp[:0]
					for i, k := range c.Ks {
						exp = append(exp, stdTok{k, c.Ns[i]})
					}
				}
				judge := true
				for _, d := range c.Dev {
					if d != "badstring-newline" {
						judge = false
					}
				}
				if len(sum.Drift) < 12 {
					sum.Drift = append(sum.Drift, map[string]interface{}{"cls": c.Cls, "input": string(in), "field": field, "detail": detail,
						"model": c.Ks, "flags": c.Dev, "judged_by_property": judge})
				}
				if judge {
					sum.Judged++
					var nm []string
					var los, his []int
					at := 0
					for _, x := range exp {
						nm = append(nm, kindItem[x.K])
						los = append(los, off[at])
						at += x.N
						his = append(his, off[at])
					}
					toks, eof, pn2 := lex(in)
					tid++
					record(w, tid, nm, los, his, in, toks, eof, pn2, tr.E{"impl": true, "cls": c.Cls, "drift": field, "detail": detail, "flags": c.Dev})
				} else {
					sum.Unjudged++
				}
			}
			if len(sum.Samples) < 3 && len(c.Ks) >= 3 && nline%997 == 5 {
				sum.Samples = append(sum.Samples, map[string]interface{}{"cls": c.Cls, "input": string(in), "predicted": c.Ks, "lengths": c.Ns})
			}
		}
	})
	if err != nil {
		fmt.Fprintln(os.Stderr, "csstok impl:", err)
		os.Exit(2)
	}
	w.Close()
	sum.Traces, sum.Events = w.Traces, w.Events
	json.NewEncoder(os.Stdout).Encode(sum)
}

func init() {
	reg.Register("csstok", "impl", Impl)
}
