// Package csstok drives css.Lexer, css.IsIdent and css.IsURLUnquoted for property C07. Cases come from TLC
// (spec/css/CssTokensGen.tla: sequences of token atoms and separators with their expansion into character classes;
// spec/css/CssClassStrings.tla: every short string of character classes). The harness only spells the classes with
// bytes, runs the real code and records what it returned; the expected token kinds are looked up by the trace
// specification spec/css/CssTokensTrace.tla, which judges every recorded trace.
package csstok

import (
	"bytes"
	"encoding/json"
	"flag"
	"fmt"
	"os"
	"sort"

	"github.com/tdewolff/parse/v2/css"

	"verif/harness/internal/reg"
	"verif/harness/internal/tr"
	"verif/harness/suites/lexers"
)

const lang = "css.lex"

// representatives per class symbol of spec/css/CssTokens.tla (token clause)
var reps = map[string][]string{
	"letter": {"g", "z", "Q", "_", "k", "x", "G", "h", "t", "Z", "n", "o"}, "hex": {"a", "b", "c", "d", "f", "A", "B", "C", "D", "F"},
	"e": {"e", "E"}, "u": {"u", "U"}, "r": {"r", "R"}, "l": {"l", "L"},
	"digit": {"0", "1", "2", "3", "4", "5", "6", "7", "8", "9"}, "nonascii": {"é", "†", "😀", "\u0080", "δ"},
	"sp": {" ", "\t"}, "nl": {"\n", "\r", "\f", "\r\n"}, "np": {"\x01", "\x08", "\x0b", "\x0e", "\x1f", "\x7f"}, "other": {"&", "`"},
	"dash": {"-"}, "plus": {"+"}, "dot": {"."}, "bslash": {"\\"}, "lparen": {"("}, "rparen": {")"}, "lbrack": {"["}, "rbrack": {"]"},
	"lbrace": {"{"}, "rbrace": {"}"}, "hash": {"#"}, "at": {"@"}, "star": {"*"}, "slash": {"/"}, "lt": {"<"}, "gt": {">"}, "bang": {"!"},
	"pipe": {"|"}, "eq": {"="}, "tilde": {"~"}, "caret": {"^"}, "dollar": {"$"}, "pct": {"%"}, "qmark": {"?"}, "colon": {":"},
	"semi": {";"}, "comma": {","}, "quote": {"\""}, "apos": {"'"},
}

// representatives per class symbol of spec/css/CssClassStrings.tla (IsIdent / IsURLUnquoted clause)
var isReps = map[string][]string{
	"letter": {"g", "z", "Q", "_", "u", "r", "l", "U", "x"}, "hex": {"a", "f", "A", "F", "e", "E", "c"}, "digit": {"0", "9", "5"},
	"dash": {"-"}, "bslash": {"\\"}, "sp": {" ", "\t"}, "nl": {"\n", "\r", "\f"}, "quote": {"\"", "'"}, "lparen": {"("}, "rparen": {")"},
	"nonascii": {"é", "†", "😀", "\u0080"}, "bad": {"\xff", "\xc3", "\x80", "\xf0", "\xbf", "\xe2"}, "nul": {"\x00"},
	"np": {"\x01", "\x0b", "\x1f", "\x7f", "\x08", "\x0e"}, "other": {"+", ".", "#", "/", "*", "@", "%", "!", "&", ":", "=", "?", ";", "~"},
}

func mix(a ...uint64) uint64 {
	var h uint64 = 0x9e3779b97f4a7c15
	for _, x := range a {
		h ^= x + 0x9e3779b97f4a7c15 + (h << 6) + (h >> 2)
		h ^= h >> 30
		h *= 0xbf58476d1ce4e5b9
		h ^= h >> 27
		h *= 0x94d049bb133111eb
		h ^= h >> 31
	}
	return h
}

type item struct {
	N string   `json:"n"`
	K string   `json:"k"`
	C []string `json:"c"`
}

type tcase struct {
	Items  []item   `json:"items"`
	Meta   bool     `json:"meta"`
	Atoms  []string `json:"atoms"`
	Seps   []string `json:"seps"`
	Finals []string `json:"finals"`
}

// spell concretises a case: variant 1 writes every newline as CR LF (one newline of the standard, two bytes for the code).
func spell(items []item, seed, idx uint64, variant int) (input []byte, los, his []int) {
	p := uint64(0)
	for _, it := range items {
		los = append(los, len(input))
		for _, c := range it.C {
			r, ok := reps[c]
			if !ok {
				fmt.Fprintln(os.Stderr, "csstok: unknown class", c)
				os.Exit(2)
			}
			s := r[mix(seed, idx, uint64(variant), p)%uint64(len(r))]
			if c == "nl" {
				if variant == 1 {
					s = "\r\n"
				} else {
					s = r[mix(seed, idx, uint64(variant), p)%3]
				}
			}
			input = append(input, s...)
			p++
		}
		his = append(his, len(input))
	}
	return
}

type obsTok struct {
	kname  string
	lo, hi int
	same   bool
}

// lex runs the lexer; returns the tokens before the end report, whether the end report was (Error, io.EOF), and a panic text.
func lex(input []byte) (toks []obsTok, eof bool, pn string) {
	defer func() {
		if x := recover(); x != nil {
			pn = fmt.Sprint(x)
		}
	}()
	at := 0
	for _, t := range lexers.RunTokens(lang, input) {
		if t.IsErr {
			eof = t.Err == "EOF"
			break
		}
		hi := at + len(t.Text)
		toks = append(toks, obsTok{t.KName, at, hi, hi <= len(input) && bytes.Equal(t.Text, input[at:hi])})
		at = hi
	}
	return
}

func names(items []item) []string {
	r := make([]string, len(items))
	for i, it := range items {
		r[i] = it.N
	}
	return r
}

// differs is the harness's own field-by-field comparison with the kinds TLC emitted, on the fields the property
// determines (a BadString may end anywhere inside the whitespace item behind it); it only selects which executions
// are written as traces when sampling and feeds the summary. Verdicts come from the trace specification.
func differs(items []item, los, his []int, toks []obsTok, eof bool, pn string) bool {
	if pn != "" || !eof {
		return true
	}
	k := 0
	for i := 0; i < len(items); i++ {
		if k >= len(toks) {
			return true
		}
		t := toks[k]
		k++
		if t.kname != items[i].K || t.lo != los[i] || !t.same {
			return true
		}
		if t.hi == his[i] {
			continue
		}
		if items[i].K != "BadString" || i+1 >= len(items) || items[i+1].K != "Whitespace" || t.hi < his[i] || t.hi > his[i+1] {
			return true
		}
		i++ // the whitespace item: swallowed entirely, or its rest is one whitespace token
		if t.hi < his[i] {
			if k >= len(toks) || toks[k].kname != "Whitespace" || toks[k].lo != t.hi || toks[k].hi != his[i] || !toks[k].same {
				return true
			}
			k++
		}
	}
	return k != len(toks)
}

func record(w *tr.Writer, tid int, nm []string, los, his []int, input []byte, toks []obsTok, eof bool, pn string, gen tr.E) {
	w.Begin(tid)
	open := tr.E{"mode": "tok", "lang": lang, "names": nm, "los": los, "his": his, "input": tr.Ints(input)}
	for k, v := range gen {
		open[k] = v
	}
	w.Ev("Open", open)
	for _, t := range toks {
		w.Ev("Tok", tr.E{"kname": t.kname, "lo": t.lo, "hi": t.hi, "same": t.same})
	}
	if pn != "" {
		w.Ev("End", tr.E{"out": "panic", "panic": pn, "eof": false})
	} else {
		w.Ev("End", tr.E{"eof": eof, "ntok": len(toks)})
	}
	w.End(true)
}

type summary struct {
	Suite      string         `json:"suite"`
	Mode       string         `json:"mode"`
	Cases      int            `json:"cases"`
	Executions int            `json:"executions"`
	Traces     int            `json:"traces"`
	Events     int            `json:"events"`
	Mismatches int            `json:"strict_differences"`
	Panics     int            `json:"panics"`
	Nontrivial int            `json:"distinct_nontrivial"`
	Juxtaposed int            `json:"juxtaposed_cases"`
	Listed     []string       `json:"listed_items,omitempty"`
	Unused     []string       `json:"unused_items"`
	UsedCount  int            `json:"used_items"`
	Samples    []interface{}  `json:"samples"`
	IsTrue     map[string]int `json:"is_true,omitempty"`
}

func readCases(path string, fn func(idx int, c *tcase)) {
	idx := 0
	err := tr.ReadCases(path, func(line int, raw []byte) {
		var c tcase
		if err := json.Unmarshal(raw, &c); err != nil {
			fmt.Fprintln(os.Stderr, "csstok: bad case", err)
			os.Exit(2)
		}
		fn(idx, &c)
		idx++
	})
	if err != nil {
		fmt.Fprintln(os.Stderr, err)
		os.Exit(2)
	}
}

func caseKey(items []item) string {
	var b []byte
	for _, it := range items {
		b = append(b, it.N...)
		b = append(b, ' ')
	}
	return string(b)
}

// Replay: every case of the generator, `variants` spellings each.
func Replay(args []string) {
	fs := flag.NewFlagSet("csstok replay", flag.ExitOnError)
	cases := fs.String("cases", "", "ndjson {items:[{n,k,c}]}")
	out := fs.String("out", "", "trace file")
	seed := fs.Uint64("seed", 1, "seed")
	variants := fs.Int("variants", 2, "spellings per case")
	sample := fs.Int("sample", 1, "write the trace of every n-th agreeing execution (disagreeing ones are always written)")
	fs.Parse(args)
	w := tr.NewWriter(*out)
	sum := summary{Suite: "csstok", Mode: "replay"}
	used := map[string]int{}
	var listed []string
	tid := 0
	readCases(*cases, func(idx int, c *tcase) {
		if c.Meta {
			listed = append(append(append(listed, c.Atoms...), c.Seps...), c.Finals...)
			return
		}
		sum.Cases++
		ntok, seps := 0, 0
		for _, it := range c.Items {
			used[it.N]++
			if len(it.N) > 4 && it.N[:4] == "sep." {
				seps++
			} else {
				ntok++
			}
		}
		if len(c.Items) >= 2 {
			sum.Nontrivial++
		}
		if ntok >= 2 && seps == 0 {
			sum.Juxtaposed++
		}
		nm := names(c.Items)
		var prev []byte
		for v := 0; v < *variants; v++ {
			input, los, his := spell(c.Items, *seed, uint64(idx), v)
			if v > 0 && bytes.Equal(input, prev) {
				continue
			}
			prev = input
			toks, eof, pn := lex(input)
			sum.Executions++
			d := differs(c.Items, los, his, toks, eof, pn)
			if d {
				sum.Mismatches++
			}
			if pn != "" {
				sum.Panics++
			}
			if d || sum.Executions%*sample == 0 {
				tid++
				record(w, tid, nm, los, his, input, toks, eof, pn, tr.E{"variant": v})
			}
			if len(sum.Samples) < 4 && len(c.Items) >= 3 && idx%977 == 5 {
				sum.Samples = append(sum.Samples, map[string]interface{}{"items": nm, "input": string(input)})
			}
		}
	})
	for _, n := range listed {
		if used[n] == 0 {
			sum.Unused = append(sum.Unused, n)
		} else {
			sum.UsedCount++
		}
	}
	sort.Strings(sum.Unused)
	if sum.Unused == nil {
		sum.Unused = []string{}
	}
	sum.Listed = nil
	w.Close()
	sum.Traces, sum.Events = w.Traces, w.Events
	json.NewEncoder(os.Stdout).Encode(sum)
}

// ---------------------------------------------------------------- IsIdent / IsURLUnquoted against the lexer

func isFacts(s []byte) (ev tr.E) {
	ev = tr.E{"len": len(s), "s": tr.Ints(s)}
	defer func() {
		if x := recover(); x != nil {
			ev["out"], ev["panic"] = "panic", fmt.Sprint(x)
		}
	}()
	isIdent := css.IsIdent(append([]byte{}, s...))
	isURL := css.IsURLUnquoted(append([]byte{}, s...))
	// the same questions about the argument as a piece of a longer text in the caller's memory
	whole := append(append([]byte("url("), s...), ")x"...)
	pristine := append([]byte{}, whole...)
	piece := whole[4 : 4+len(s)]
	in1, in2 := css.IsIdent(piece), css.IsURLUnquoted(piece)
	ev["intact"] = bytes.Equal(whole, pristine) && in1 == isIdent && in2 == isURL
	one := func(input []byte, kinds ...string) bool {
		toks := lexers.RunTokens(lang, input)
		if len(toks) != 2 || toks[0].IsErr || !toks[1].IsErr || toks[1].Err != "EOF" || !bytes.Equal(toks[0].Text, input) {
			return false
		}
		for _, k := range kinds {
			if toks[0].KName == k {
				return true
			}
		}
		return false
	}
	ev["isIdent"], ev["isURL"] = isIdent, isURL
	ev["oneIdent"] = one(s, "Ident", "CustomPropertyName")
	ev["oneURL"] = one(append(append([]byte("url("), s...), ')'), "URL")
	return
}

type scase struct {
	Cls  []string `json:"cls"`
	Meta bool     `json:"meta"`
}

// Is: every class string of the generator, `variants` spellings each; one trace per class string.
func Is(args []string) {
	fs := flag.NewFlagSet("csstok is", flag.ExitOnError)
	cases := fs.String("cases", "", "ndjson {cls:[...]}")
	out := fs.String("out", "", "trace file")
	seed := fs.Uint64("seed", 1, "seed")
	variants := fs.Int("variants", 2, "spellings per class string")
	longLen := fs.Int("longlen", 99, "class strings of at least this length get one spelling")
	batch := fs.Int("batch", 20, "class strings per trace")
	fs.Parse(args)
	w := tr.NewWriter(*out)
	sum := summary{Suite: "csstok", Mode: "is", IsTrue: map[string]int{}, Unused: []string{}}
	seen := map[string]bool{}
	idx := uint64(0)
	tid := 0
	inBatch := 0
	err := tr.ReadCases(*cases, func(line int, raw []byte) {
		var c scase
		if err := json.Unmarshal(raw, &c); err != nil {
			fmt.Fprintln(os.Stderr, "csstok: bad case", err)
			os.Exit(2)
		}
		if c.Meta {
			return
		}
		idx++
		sum.Cases++
		if inBatch == 0 {
			tid++
			w.Begin(tid)
			w.Ev("Open", tr.E{"mode": "is"})
		}
		inBatch++
		nv := *variants
		if len(c.Cls) >= *longLen {
			nv = 1
		}
		for v := 0; v < nv; v++ {
			var s []byte
			for p, cl := range c.Cls {
				r, ok := isReps[cl]
				if !ok {
					fmt.Fprintln(os.Stderr, "csstok: unknown class", cl)
					os.Exit(2)
				}
				s = append(s, r[mix(*seed, idx, uint64(v), uint64(p))%uint64(len(r))]...)
			}
			if seen[string(s)] {
				continue
			}
			seen[string(s)] = true
			ev := isFacts(s)
			sum.Executions++
			if ev["out"] == "panic" {
				sum.Panics++
			} else {
				for _, k := range []string{"isIdent", "isURL", "oneIdent", "oneURL"} {
					if ev[k] == true {
						sum.IsTrue[k]++
					}
				}
				if ev["isIdent"] == true || ev["isURL"] == true {
					sum.Nontrivial++
				}
				if len(s) > 0 && ev["isIdent"] != ev["oneIdent"] || ev["isURL"] == true && ev["oneURL"] != true {
					sum.Mismatches++
				}
			}
			ev["cls"] = c.Cls
			w.Ev("Is", ev)
			if len(sum.Samples) < 2 && ev["isIdent"] == true && len(c.Cls) >= 3 {
				sum.Samples = append(sum.Samples, map[string]interface{}{"cls": c.Cls, "arg": string(s), "IsIdent": true, "IsURLUnquoted": ev["isURL"]})
			}
		}
		if inBatch >= *batch {
			w.End(true)
			inBatch = 0
		}
	})
	if inBatch > 0 {
		w.End(true)
	}
	if err != nil {
		fmt.Fprintln(os.Stderr, err)
		os.Exit(2)
	}
	w.Close()
	sum.Traces, sum.Events = w.Traces, w.Events
	json.NewEncoder(os.Stdout).Encode(sum)
}

// ---------------------------------------------------------------- inputs for the protocol checks (C01 / C02)

// Inputs writes every concretised case and a few seeded mutations of it as {"lang","input"} lines (vdrive lexers file).
func Inputs(args []string) {
	fs := flag.NewFlagSet("csstok inputs", flag.ExitOnError)
	cases := fs.String("cases", "", "ndjson {items}")
	out := fs.String("out", "", "ndjson {lang, input}")
	seed := fs.Uint64("seed", 1, "seed")
	muts := fs.Int("muts", 2, "mutations per document")
	every := fs.Int("every", 1, "use every n-th case")
	fs.Parse(args)
	f, err := os.Create(*out)
	if err != nil {
		fmt.Fprintln(os.Stderr, err)
		os.Exit(2)
	}
	enc := json.NewEncoder(f)
	sum := summary{Suite: "csstok", Mode: "inputs", Unused: []string{}}
	seen := map[string]bool{}
	put := func(b []byte) {
		if seen[string(b)] {
			return
		}
		seen[string(b)] = true
		enc.Encode(map[string]interface{}{"lang": lang, "input": tr.Ints(b)})
		sum.Executions++
	}
	readCases(*cases, func(idx int, c *tcase) {
		if c.Meta || idx%*every != 0 {
			return
		}
		sum.Cases++
		input, _, _ := spell(c.Items, *seed, uint64(idx), idx%2)
		put(input)
		for m := 0; m < *muts && len(input) > 0; m++ {
			h := mix(*seed, uint64(idx), uint64(m), 77)
			at := int(h % uint64(len(input)))
			b := append([]byte{}, input...)
			switch (h >> 32) % 4 {
			case 0:
				b = b[:at]
			case 1:
				b[at] = 0
			case 2:
				b[at] = 0xff
			default:
				b[at] = []byte{0xc3, 0xe2, 0xf0}[(h>>40)%3]
			}
			put(b)
		}
	})
	f.Close()
	json.NewEncoder(os.Stdout).Encode(sum)
}

// ---------------------------------------------------------------- rerun (reproduction, --replay)

// File re-executes recorded executions: lines {mode:"tok", names, los, his, input} or {mode:"is", s}.
func File(args []string) {
	fs := flag.NewFlagSet("csstok file", flag.ExitOnError)
	in := fs.String("in", "", "ndjson")
	out := fs.String("out", "", "trace file")
	fs.Parse(args)
	w := tr.NewWriter(*out)
	sum := summary{Suite: "csstok", Mode: "file", Unused: []string{}}
	tid := 0
	err := tr.ReadCases(*in, func(line int, raw []byte) {
		var c struct {
			Mode  string   `json:"mode"`
			Names []string `json:"names"`
			Los   []int    `json:"los"`
			His   []int    `json:"his"`
			Input []int    `json:"input"`
			S     []int    `json:"s"`
		}
		if err := json.Unmarshal(raw, &c); err != nil {
			fmt.Fprintln(os.Stderr, "csstok: bad line", err)
			os.Exit(2)
		}
		toB := func(a []int) []byte {
			b := make([]byte, len(a))
			for i, v := range a {
				b[i] = byte(v)
			}
			return b
		}
		tid++
		sum.Cases++
		sum.Executions++
		if c.Mode == "is" {
			w.Begin(tid)
			w.Ev("Open", tr.E{"mode": "is"})
			w.Ev("Is", isFacts(toB(c.S)))
			w.End(true)
			return
		}
		input := toB(c.Input)
		toks, eof, pn := lex(input)
		if c.Los == nil {
			c.Los = []int{}
		}
		if c.His == nil {
			c.His = []int{}
		}
		if c.Names == nil {
			c.Names = []string{}
		}
		record(w, tid, c.Names, c.Los, c.His, input, toks, eof, pn, nil)
	})
	if err != nil {
		fmt.Fprintln(os.Stderr, err)
		os.Exit(2)
	}
	w.Close()
	sum.Traces, sum.Events = w.Traces, w.Events
	json.NewEncoder(os.Stdout).Encode(sum)
}

func init() {
	reg.Register("csstok", "replay", Replay)
	reg.Register("csstok", "is", Is)
	reg.Register("csstok", "inputs", Inputs)
	reg.Register("csstok", "file", File)
}
