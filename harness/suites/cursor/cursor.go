// Package cursor drives parse.Input and buffer.Lexer (property C12): it replays the transitions that TLC
// enumerates from spec/cursor/CursorImpl.tla, and records random contract-respecting histories; both kinds of
// execution are written as traces that spec/cursor/CursorTrace.tla (the property-level spec) judges.
package cursor

import (
	"bytes"
	"encoding/json"
	"errors"
	"flag"
	"fmt"
	"io"
	"math/rand"
	"os"
	"strings"
	"unsafe"

	"github.com/tdewolff/parse/v2"
	"github.com/tdewolff/parse/v2/buffer"

	"verif/harness/internal/reg"
	"verif/harness/internal/tr"
)

type api interface {
	Peek(int) byte
	PeekErr(int) error
	Err() error
	PeekRune(int) (rune, int)
	Move(int)
	Pos() int
	Rewind(int)
	Lexeme() []byte
	Skip()
	Shift() []byte
	Offset() int
	Bytes() []byte
	Reset()
	Restore()
}

var errBoom = errors.New("boom")

// chunkReader delivers data in small chunks, optionally failing with errBoom after all data.
type chunkReader struct {
	data    []byte
	chunk   int
	fail    bool
	withEnd bool // the last chunk comes together with the end (io.EOF, or the error): allowed by io.Reader
	stall   bool // every other call delivers nothing yet: (0, nil), allowed by io.Reader
	calls   int
}

func (r *chunkReader) Read(p []byte) (int, error) {
	r.calls++
	if r.stall && r.calls%2 == 1 && len(p) > 0 {
		return 0, nil
	}
	if len(r.data) == 0 {
		if r.fail {
			return 0, errBoom
		}
		return 0, io.EOF
	}
	n := r.chunk
	if n > len(r.data) {
		n = len(r.data)
	}
	if n > len(p) {
		n = len(p)
	}
	copy(p, r.data[:n])
	r.data = r.data[n:]
	if r.withEnd && len(r.data) == 0 {
		if r.fail {
			return n, errBoom
		}
		return n, io.EOF
	}
	return n, nil
}

// reader_sized*: readers of the standard library that know their total size (Size(), Len(), ReadAt, Seek) -- fresh, and after
// the caller has consumed a prefix (a byte order mark, a header): the cursor ranges over exactly what the reader still delivers
var ctors = []string{"bytes_spare", "bytes_tight", "string", "reader_bytes", "reader_plain", "reader_fail",
	"reader_sized", "reader_sized_mid", "reader_bytesreader_mid", "reader_section_mid", "reader_eofdata", "reader_eofdata_1", "reader_fail_withdata", "reader_stall"}

// inst is one cursor under test plus what the harness knows about the caller's memory.
type inst struct {
	kind   string
	ctor   string
	z      api
	data   []byte // pristine copy of what the cursor ranges over
	given  []byte // what was handed to the constructor (a failing reader delivers it before the error)
	back   []byte // caller's backing array at full capacity (nil if the caller handed over no memory)
	orig   []byte // pristine copy of back
	spare  bool
	failed bool
}

func build(kind, ctor string, data []byte) *inst {
	in := &inst{kind: kind, ctor: ctor, data: append([]byte{}, data...), given: append([]byte{}, data...)}
	var r io.Reader
	var b []byte
	switch ctor {
	case "bytes_spare", "reader_bytes":
		// spare capacity behind the slice: exactly one byte (the case in which the terminator fits only just), two or three
		extra, sum := 1, len(data)
		for _, c := range data {
			sum += int(c)
		}
		extra = []int{1, 3, 1, 2}[sum%4]
		full := make([]byte, len(data)+extra)
		copy(full, data)
		for i := len(data); i < len(full); i++ {
			full[i] = 0xAA
		}
		b = full[:len(data)]
		in.back, in.spare = full, true
	case "bytes_tight":
		b = make([]byte, len(data))
		copy(b, data)
		b = b[:len(data):len(data)]
		in.back, in.spare = b, false
	}
	if in.back != nil {
		in.orig = append([]byte{}, in.back...)
	}
	switch ctor {
	case "reader_bytes":
		r = bytes.NewBuffer(b)
	case "reader_plain":
		r = &chunkReader{data: append([]byte{}, data...), chunk: 2}
	case "reader_fail":
		r = &chunkReader{data: append([]byte{}, data...), chunk: 2, fail: true}
		in.failed = true
		in.data = nil
	case "reader_stall":
		r = &chunkReader{data: append([]byte{}, data...), chunk: 2, stall: true}
	case "reader_eofdata":
		r = &chunkReader{data: append([]byte{}, data...), chunk: 2, withEnd: true}
	case "reader_eofdata_1":
		r = &chunkReader{data: append([]byte{}, data...), chunk: 1 << 20, withEnd: true} // everything and io.EOF in one call
	case "reader_fail_withdata":
		r = &chunkReader{data: append([]byte{}, data...), chunk: 3, fail: true, withEnd: true}
		in.failed = true
		in.data = nil
	case "reader_sized":
		r = strings.NewReader(string(data))
	case "reader_sized_mid":
		sr := strings.NewReader("\xEF\xBB\xBF" + string(data))
		io.CopyN(io.Discard, sr, 3)
		r = sr
	case "reader_bytesreader_mid":
		br := bytes.NewReader(append([]byte("#!"), data...))
		br.Seek(2, io.SeekStart)
		r = br
	case "reader_section_mid":
		sc := io.NewSectionReader(bytes.NewReader(append(append([]byte("head"), data...), "tail"...)), 3, int64(len(data))+1)
		sc.Read(make([]byte, 1))
		r = sc
	}
	if len(data) == 0 {
		in.spare = false // nothing is borrowed for an empty input
	}
	if kind == "input" {
		switch ctor {
		case "bytes_spare", "bytes_tight":
			in.z = parse.NewInputBytes(b)
		case "string":
			in.z = parse.NewInputString(string(data))
		default:
			in.z = parse.NewInput(r)
		}
	} else {
		switch ctor {
		case "bytes_spare", "bytes_tight":
			in.z = buffer.NewLexerBytes(b)
		case "string":
			return nil
		default:
			in.z = buffer.NewLexer(r)
		}
	}
	return in
}

func (in *inst) diff() []int {
	d := []int{}
	for i := range in.back {
		if in.back[i] != in.orig[i] {
			d = append(d, i)
		}
	}
	return d
}

func errName(err error) string {
	switch {
	case err == nil:
		return "nil"
	case err == io.EOF:
		return "eof"
	case err == errBoom:
		return "fail"
	}
	return "other:" + err.Error()
}

// sliceInfo describes a slice the cursor returned, relative to the start of the cursor's bytes.
func (in *inst) sliceInfo(s []byte, base unsafe.Pointer, e tr.E) {
	n := len(s)
	e["n"] = n
	e["capEq"] = cap(s) == len(s)
	lo := -1
	same := true
	if n > 0 {
		if base != nil {
			lo = int(uintptr(unsafe.Pointer(&s[0])) - uintptr(base))
		}
		if lo >= 0 && lo+n <= len(in.data) {
			same = bytes.Equal(s, in.data[lo:lo+n])
		} else {
			same = false
		}
	}
	e["lo"] = lo
	e["same"] = same
}

// base address of the cursor's bytes. For constructors where the harness owns the array and it has room for
// the terminator the library works in place, so the array's address is known independently of the API; in the
// other cases the only handle is Bytes() itself.
func (in *inst) base() unsafe.Pointer {
	if len(in.data) == 0 {
		return nil
	}
	if in.spare && in.back != nil {
		return unsafe.Pointer(&in.back[0])
	}
	b := in.z.Bytes()
	if len(b) == 0 {
		return nil
	}
	return unsafe.Pointer(&b[0])
}

type call struct {
	Op string `json:"op"`
	K  int    `json:"k"`
	N  int    `json:"n"`
	M  int    `json:"m"`
	R  int    `json:"r"`
	E  string `json:"e"`
	Lo int    `json:"lo"`
}

// do performs one call on the real object and records the event; it returns the event.
func (in *inst) do(w *tr.Writer, c call) (ev tr.E) {
	ev = tr.E{}
	name := c.Op
	defer func() {
		if r := recover(); r != nil {
			ev["out"] = "panic"
			ev["panic"] = fmt.Sprint(r)
		}
		w.Ev(name, ev)
	}()
	z := in.z
	switch c.Op {
	case "Peek":
		ev["k"] = c.K
		ev["r"] = int(z.Peek(c.K))
	case "PeekErr":
		ev["k"] = c.K
		ev["e"] = errName(z.PeekErr(c.K))
	case "Err":
		ev["e"] = errName(z.Err())
	case "PeekRune":
		ev["k"] = c.K
		r, n := z.PeekRune(c.K)
		ev["r"], ev["n"] = int(r), n
	case "Pos":
		ev["r"] = z.Pos()
	case "Offset":
		ev["r"] = z.Offset()
	case "Len":
		ev["r"] = z.(interface{ Len() int }).Len()
	case "Lexeme":
		base := in.base()
		in.sliceInfo(z.Lexeme(), base, ev)
	case "Bytes":
		base := in.base()
		if !(in.spare && in.back != nil) {
			base = nil
		}
		b := z.Bytes()
		if base == nil && len(b) > 0 {
			base = unsafe.Pointer(&b[0]) // no independent handle: only length, capacity and contents are judged
		}
		in.sliceInfo(b, base, ev)
	case "Move":
		ev["n"] = c.N
		z.Move(c.N)
	case "MoveRune":
		before := z.Offset()
		z.(interface{ MoveRune() }).MoveRune()
		ev["n"] = z.Offset() - before
	case "Rewind":
		ev["m"] = c.M
		z.Rewind(c.M)
	case "Skip":
		z.Skip()
	case "Shift":
		base := in.base()
		in.sliceInfo(z.Shift(), base, ev)
	case "Reset":
		z.Reset()
	case "Restore":
		z.Restore()
	case "Scribble":
		// after Restore the memory is the caller's again: the caller overwrites its whole backing array (the byte that had been
		// borrowed included) and that becomes the state any later modification is measured against
		for i := range in.back {
			in.back[i] ^= 0x5a
			in.orig[i] = in.back[i]
		}
	case "Mem":
		ev["diff"] = in.diff()
	default:
		panic("unknown op " + c.Op)
	}
	return ev
}

func (in *inst) newEvent(w *tr.Writer) {
	w.Ev("New", tr.E{"kind": in.kind, "ctor": in.ctor, "data": tr.Ints(in.data), "failed": in.failed, "spare": in.spare, "given": tr.Ints(in.given)})
}

type tcase struct {
	Kind   string `json:"kind"`
	Data   []int  `json:"data"`
	Failed bool   `json:"failed"`
	Start  int    `json:"start"`
	Pos    int    `json:"pos"`
	Call   call   `json:"call"`
	Start2 int    `json:"start2"`
	Pos2   int    `json:"pos2"`
}

type summary struct {
	Suite      string        `json:"suite"`
	Mode       string        `json:"mode"`
	Cases      int           `json:"cases"`
	Executions int           `json:"executions"`
	Mismatches int           `json:"mismatches"` // code differs from the implementation-shaped model (drift or violation: P decides)
	Traces     int           `json:"traces"`
	Events     int           `json:"events"`
	Nontrivial int           `json:"distinct_nontrivial"`
	Samples    []interface{} `json:"samples"`
	Drift      []interface{} `json:"drift_samples"`
}

func geti(e tr.E, k string) int {
	if v, ok := e[k].(int); ok {
		return v
	}
	return -999
}

// Replay runs every TLC-emitted transition on every applicable constructor.
func Replay(args []string) {
	fs := flag.NewFlagSet("cursor replay", flag.ExitOnError)
	cases := fs.String("cases", "", "ndjson emitted by TLC from CursorImpl")
	out := fs.String("out", "", "trace file")
	sample := fs.Int("sample", 50, "also keep the trace of every n-th matching execution")
	fs.Parse(args)
	w := tr.NewWriter(*out)
	sum := summary{Suite: "cursor", Mode: "replay"}
	tid := 0
	seenNT := map[string]bool{}
	err := tr.ReadCases(*cases, func(line int, raw []byte) {
		var c tcase
		if err := json.Unmarshal(raw, &c); err != nil {
			fmt.Fprintln(os.Stderr, "bad case:", err)
			os.Exit(2)
		}
		sum.Cases++
		data := make([]byte, len(c.Data))
		for i, v := range c.Data {
			data[i] = byte(v)
		}
		for _, ctor := range ctors {
			if (ctor == "reader_fail" || ctor == "reader_fail_withdata") != c.Failed {
				continue
			}
			in := build(c.Kind, ctor, data)
			if in == nil {
				continue
			}
			tid++
			sum.Executions++
			w.Begin(tid)
			in.newEvent(w)
			if c.Start > 0 {
				in.do(w, call{Op: "Move", N: c.Start})
				in.do(w, call{Op: "Skip"})
			}
			if c.Pos > c.Start {
				in.do(w, call{Op: "Move", N: c.Pos - c.Start})
			}
			ev := in.do(w, c.Call)
			off := in.do(w, call{Op: "Offset"})
			ps := in.do(w, call{Op: "Pos"})
			in.do(w, call{Op: "Mem"})
			// compare with what the implementation-shaped model computed
			mism := ev["out"] != "ret" || geti(off, "r") != c.Pos2 || geti(off, "r")-geti(ps, "r") != c.Start2
			switch c.Call.Op {
			case "Peek", "Pos", "Offset", "Len":
				mism = mism || geti(ev, "r") != c.Call.R
			case "PeekErr", "Err":
				mism = mism || ev["e"] != c.Call.E
			case "PeekRune":
				mism = mism || geti(ev, "r") != c.Call.R || geti(ev, "n") != c.Call.N
			case "MoveRune":
				mism = mism || geti(ev, "n") != c.Call.N
			case "Lexeme", "Shift", "Bytes":
				mism = mism || geti(ev, "n") != c.Call.N || geti(ev, "lo") != c.Call.Lo || ev["capEq"] != true || ev["same"] != true
			}
			if c.Pos > 0 || c.Call.Op == "PeekRune" {
				key := fmt.Sprint(c.Kind, c.Data, c.Failed, c.Start, c.Pos, c.Call)
				if !seenNT[key] {
					seenNT[key] = true
					sum.Nontrivial++
				}
			}
			if mism {
				sum.Mismatches++
				if len(sum.Drift) < 5 {
					sum.Drift = append(sum.Drift, map[string]interface{}{"case": c, "ctor": ctor, "observed": ev})
				}
			}
			keep := mism || tid%*sample == 0
			if keep && len(sum.Samples) < 3 && !mism {
				sum.Samples = append(sum.Samples, map[string]interface{}{"case": c, "ctor": ctor, "observed": ev})
			}
			w.End(keep)
		}
	})
	if err != nil {
		fmt.Fprintln(os.Stderr, "replay:", err)
		os.Exit(2)
	}
	w.Close()
	sum.Traces, sum.Events = w.Traces, w.Events
	json.NewEncoder(os.Stdout).Encode(sum)
}

// interesting byte material for random inputs
var frags = [][]byte{
	{0}, {'a'}, {'Z'}, {' '}, {0x7f}, {0xC3, 0xA9}, {0xE2, 0x80, 0xA8}, {0xF0, 0x9F, 0x98, 0x80}, {0xC3}, {0xE2}, {0xE2, 0x80},
	{0xF0}, {0xF0, 0x9F}, {0xF0, 0x9F, 0x98}, {0x80}, {0xBF}, {0xFF}, {0xC0, 0x80}, {0xED, 0xA0, 0x80}, {0xF4, 0x90, 0x80, 0x80},
	{0xE0, 0x80, 0x80}, {0xF0, 0x80, 0x80, 0x80}, {0xDF, 0xBF}, {0xEF, 0xBF, 0xBD}, {0xF4, 0x8F, 0xBF, 0xBF}, {0xC3, 0}, {0xE2, 0x80, 0},
	// the first and last code point of every UTF-8 length class and of the ranges around the surrogates, with their invalid neighbours
	{0xC2, 0x80}, {0xC2, 0xBF}, {0xE0, 0xA0, 0x80}, {0xE0, 0xBF, 0xBF}, {0xE1, 0x80, 0x80}, {0xED, 0x9F, 0xBF}, {0xEE, 0x80, 0x80}, {0xEF, 0xBF, 0xBF},
	{0xF0, 0x90, 0x80, 0x80}, {0xF1, 0x80, 0x80, 0x80}, {0xF3, 0xBF, 0xBF, 0xBF}, {0xF4, 0x80, 0x80, 0x80},
	{0xC1, 0xBF}, {0xE0, 0x9F, 0xBF}, {0xF0, 0x8F, 0xBF, 0xBF}, {0xF5, 0x80, 0x80, 0x80}, {0xE0, 0xA0}, {0xF0, 0x90, 0x80}, {0xF4, 0x8F, 0xBF},
}

func randData(rng *rand.Rand) []byte {
	n := rng.Intn(7)
	var b []byte
	for i := 0; i < n; i++ {
		b = append(b, frags[rng.Intn(len(frags))]...)
	}
	if rng.Intn(4) == 0 && len(b) > 0 { // truncate inside the last sequence
		b = b[:len(b)-rng.Intn(min(len(b), 3))]
	}
	return b
}

func min(a, b int) int {
	if a < b {
		return a
	}
	return b
}

// Record drives random contract-respecting histories. The harness tracks start/pos only to stay inside the
// documented contract when it picks arguments; all judging is done by the trace specification.
func Record(args []string) {
	fs := flag.NewFlagSet("cursor record", flag.ExitOnError)
	out := fs.String("out", "", "trace file")
	n := fs.Int("n", 500, "number of traces")
	steps := fs.Int("steps", 40, "calls per trace")
	seed := fs.Int64("seed", 1, "seed")
	fs.Parse(args)
	rng := rand.New(rand.NewSource(*seed))
	w := tr.NewWriter(*out)
	sum := summary{Suite: "cursor", Mode: "record"}
	seenNT := map[string]bool{}
	ops := []string{"Peek", "Peek", "PeekErr", "Err", "PeekRune", "PeekRune", "Pos", "Offset", "Len", "Lexeme", "Bytes", "Move", "Move",
		"MoveRune", "MoveRune", "Rewind", "Skip", "Shift", "Reset", "Mem"}
	for t := 1; t <= *n; t++ {
		kind := []string{"input", "lexer"}[rng.Intn(2)]
		ctor := ctors[rng.Intn(len(ctors))]
		data := randData(rng)
		in := build(kind, ctor, data)
		if in == nil {
			continue
		}
		sum.Executions++
		w.Begin(t)
		in.newEvent(w)
		N := len(in.data)
		start, pos := 0, 0
		for s := 0; s < *steps; s++ {
			op := ops[rng.Intn(len(ops))]
			c := call{Op: op}
			switch op {
			case "Peek", "PeekErr", "PeekRune":
				c.K = rng.Intn(N-pos+1) - func() int {
					if rng.Intn(5) == 0 && pos > 0 {
						return rng.Intn(pos + 1)
					}
					return 0
				}()
				if pos+c.K < 0 {
					c.K = -pos
				}
			case "Move":
				c.N = rng.Intn(N-start+1) + start - pos
			case "MoveRune":
				if kind != "input" || pos >= N {
					continue
				}
			case "Len":
				if kind != "input" {
					continue
				}
			case "Rewind":
				c.M = rng.Intn(N - start + 1)
			}
			ev := in.do(w, c)
			// keep the harness's idea of the position in step with the object *as observed through Offset/Pos*
			pos = in.z.Offset()
			start = pos - in.z.Pos()
			if ev["out"] != "ret" || pos < 0 || pos > N || start < 0 || start > pos {
				break // contract can no longer be followed; the trace spec rejects the event that went wrong
			}
		}
		in.do(w, call{Op: "Mem"})
		if rng.Intn(2) == 0 {
			in.do(w, call{Op: "Restore"})
			in.do(w, call{Op: "Mem"})
			if in.back != nil && rng.Intn(2) == 0 {
				in.do(w, call{Op: "Scribble"})
				in.do(w, call{Op: "Restore"}) // a second Restore has nothing left to put back
				in.do(w, call{Op: "Mem"})
			}
		}
		if len(sum.Samples) < 2 {
			sum.Samples = append(sum.Samples, map[string]interface{}{"kind": kind, "ctor": ctor, "data": tr.Ints(data), "steps": *steps})
		}
		if key := fmt.Sprint(kind, ctor, data); N > 1 && !seenNT[key] {
			seenNT[key] = true
			sum.Nontrivial++
		}
		w.End(true)
	}
	w.Close()
	sum.Traces, sum.Events = w.Traces, w.Events
	json.NewEncoder(os.Stdout).Encode(sum)
}

// Rerun re-executes the calls of one recorded trace (a JSON array of events) on the current code and records
// a fresh trace: the reproduction step before a rejected trace is reported, and the --replay entry point.
func Rerun(args []string) {
	fs := flag.NewFlagSet("cursor rerun", flag.ExitOnError)
	in := fs.String("trace", "", "JSON array of events")
	out := fs.String("out", "", "trace file")
	fs.Parse(args)
	raw, err := os.ReadFile(*in)
	if err != nil {
		fmt.Fprintln(os.Stderr, err)
		os.Exit(2)
	}
	var evs []map[string]interface{}
	if err := json.Unmarshal(raw, &evs); err != nil || len(evs) == 0 {
		fmt.Fprintln(os.Stderr, "bad trace", err)
		os.Exit(2)
	}
	num := func(e map[string]interface{}, k string) int {
		if v, ok := e[k].(float64); ok {
			return int(v)
		}
		return 0
	}
	n0 := evs[0]
	var data []byte
	if g, ok := n0["given"].([]interface{}); ok {
		for _, v := range g {
			data = append(data, byte(v.(float64)))
		}
	}
	inst := build(n0["kind"].(string), n0["ctor"].(string), data)
	w := tr.NewWriter(*out)
	w.Begin(1)
	inst.newEvent(w)
	for _, e := range evs[1:] {
		ev := inst.do(w, call{Op: e["ev"].(string), K: num(e, "k"), N: num(e, "n"), M: num(e, "m")})
		if ev["out"] != "ret" {
			break
		}
	}
	w.End(true)
	w.Close()
	json.NewEncoder(os.Stdout).Encode(summary{Suite: "cursor", Mode: "rerun", Executions: 1, Traces: 1, Events: w.Events})
}

func init() {
	reg.Register("cursor", "replay", Replay)
	reg.Register("cursor", "record", Record)
	reg.Register("cursor", "rerun", Rerun)
}
