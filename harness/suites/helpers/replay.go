package helpers

import (
	"encoding/json"
	"flag"
	"fmt"
	"os"
	"strings"

	"github.com/tdewolff/parse/v2"

	"verif/harness/internal/reg"
	"verif/harness/internal/tr"
)

// gcase is one case of a line emitted by HelpersGen.tla; which fields are present depends on the family.
type gcase struct {
	S []int `json:"s"`
	// num
	N *int  `json:"n"`
	U []int `json:"u"`
	// dec
	Wf *int            `json:"wf"`
	R  json.RawMessage `json:"r"`
	// text
	Low   []int `json:"low"`
	Trim  []int `json:"trim"`
	Lo    *int  `json:"lo"`
	AllWS *int  `json:"allws"`
	// fold
	T []int `json:"t"`
	// enc
	Mu []int `json:"mu"`
	Md []int `json:"md"`
	Ru []int `json:"ru"`
	Rd []int `json:"rd"`
	// datauri
	Kind    string  `json:"kind"`
	Base    []int   `json:"base"`
	Params  []int   `json:"params"`
	Enc     string  `json:"enc"`
	Payload []int   `json:"payload"`
	Pay     [][]int `json:"pay"`
	Mt      []int   `json:"mt"`
	// media
	K [][]int `json:"k"`
	V [][]int `json:"v"`
}

type gline struct {
	F string  `json:"f"`
	C []gcase `json:"c"`
}

func toBytes(a []int) []byte {
	b := make([]byte, len(a))
	for i, v := range a {
		b[i] = byte(v)
	}
	return b
}

func ints(e tr.E, k string) []int {
	if v, ok := e[k].([]int); ok {
		return v
	}
	return nil
}

func eqInts(a, b []int) bool {
	if len(a) != len(b) {
		return false
	}
	for i := range a {
		if a[i] != b[i] {
			return false
		}
	}
	return true
}

func eqSeqs(a, b [][]int) bool {
	if len(a) != len(b) {
		return false
	}
	for i := range a {
		if !eqInts(a[i], b[i]) {
			return false
		}
	}
	return true
}

func inSeqs(a []int, set [][]int) bool {
	for _, b := range set {
		if eqInts(a, b) {
			return true
		}
	}
	return false
}

func rawInts(r json.RawMessage) []int {
	var a []int
	if len(r) > 0 {
		json.Unmarshal(r, &a)
	}
	return a
}

type mismatch struct {
	T    int    `json:"t"`
	Fam  string `json:"fam"`
	Ev   string `json:"ev"`
	S    []int  `json:"s"`
	What string `json:"what"`
	Kept bool   `json:"kept"` // the execution was written to the trace file (the trace specification judges it)
}

type summary struct {
	Suite        string         `json:"suite"`
	Mode         string         `json:"mode"`
	Cases        int            `json:"cases"`
	Executions   int            `json:"executions"` // calls of a function under test
	Mismatches   int            `json:"mismatches"` // observation differs from the expectation HelpersGen emitted
	Undetermined int            `json:"undetermined_diff"`
	SpecStd      int            `json:"spec_std_disagree"` // Helpers.tla's definition differs from the stdlib fact it is supposed to equal (a bug of the spec)
	Panics       int            `json:"panics"`
	Traces       int            `json:"traces"`
	Events       int            `json:"events"`
	Nontrivial   int            `json:"distinct_nontrivial"`
	PerFam       map[string]int `json:"per_family"`
	Samples      []interface{}  `json:"samples"`
	List         []mismatch     `json:"mismatch_list"`
	SpecStdList  []interface{}  `json:"spec_std_samples"`
}

func isRet(e tr.E) bool { return e != nil && e["out"] != "panic" }

// Replay executes every case TLC emitted and compares the observation with the expectation, field by field on
// the fields the specification determines. Every mismatching execution and every n-th matching one is also
// written as a trace, so that the property-level trace specification gives the verdict.
func Replay(args []string) {
	fs := flag.NewFlagSet("helpers replay", flag.ExitOnError)
	cases := fs.String("cases", "", "comma-separated ndjson files emitted by TLC from HelpersGen")
	out := fs.String("out", "", "trace file")
	sample := fs.Int("sample", 50, "also keep the trace of every n-th matching execution")
	maxBad := fs.Int("maxbad", 60, "keep at most this many mismatching traces per (family, function)")
	fs.Parse(args)
	w := tr.NewWriter(*out)
	sum := summary{Suite: "helpers", Mode: "replay", PerFam: map[string]int{}}
	tid := 0
	sampled := map[string]int{}
	kept := map[string]int{}
	for _, file := range strings.Split(*cases, ",") {
		err := tr.ReadCases(file, func(line int, raw []byte) {
			var l gline
			if err := json.Unmarshal(raw, &l); err != nil {
				fmt.Fprintln(os.Stderr, "bad case line:", err)
				os.Exit(2)
			}
			for i := range l.C {
				c := &l.C[i]
				sum.Cases++
				sum.PerFam[l.F]++
				tid++
				w.Begin(tid)
				bad, nontrivial := runCase(w, l.F, c, &sum)
				if nontrivial {
					sum.Nontrivial++
				}
				// every kind of mismatch goes to the trace specification, but not thousands of instances of the same one
				keep := tid%*sample == 0
				for _, b := range bad {
					sum.Mismatches++
					k := kept[l.F+"/"+b[0]] < *maxBad
					if k {
						kept[l.F+"/"+b[0]]++
						keep = true
					}
					if len(sum.List) < 400 && k {
						sum.List = append(sum.List, mismatch{T: tid, Fam: l.F, Ev: b[0], S: c.S, What: b[1], Kept: true})
					}
				}
				if keep && len(bad) == 0 && sampled[l.F] < 1 {
					sampled[l.F]++
					sum.Samples = append(sum.Samples, map[string]interface{}{"case": json.RawMessage(mustJSON(c)), "family": l.F})
				}
				w.End(keep)
			}
		})
		if err != nil {
			fmt.Fprintln(os.Stderr, "replay:", err)
			os.Exit(2)
		}
	}
	w.Close()
	sum.Traces, sum.Events = w.Traces, w.Events
	json.NewEncoder(os.Stdout).Encode(sum)
}

func mustJSON(v interface{}) []byte {
	b, err := json.Marshal(v)
	if err != nil {
		panic(err)
	}
	// drop null fields of the sparse case struct
	var m map[string]interface{}
	json.Unmarshal(b, &m)
	for k, x := range m {
		if x == nil || x == "" {
			delete(m, k)
		}
	}
	b, _ = json.Marshal(m)
	return b
}

// runCase executes one generated case; it returns the list of (event, what) that differ from the expectation
// and whether the case counts as non-trivial.
func runCase(w *tr.Writer, fam string, c *gcase, sum *summary) (bad [][2]string, nontrivial bool) {
	s := toBytes(c.S)
	add := func(ev, what string) { bad = append(bad, [2]string{ev, what}) }
	chk := func(res result, name string) tr.E {
		e := res[name]
		sum.Executions++
		if !isRet(e) {
			sum.Panics++
			add(strings.SplitN(name, "/", 2)[0], "panic")
			return nil
		}
		return e
	}
	specStd := func(what string) {
		sum.SpecStd++
		if len(sum.SpecStdList) < 5 {
			sum.SpecStdList = append(sum.SpecStdList, map[string]interface{}{"family": fam, "s": c.S, "what": what})
		}
	}
	switch fam {
	case "num":
		res := exec(w, &spec{Fam: "num", S: s})
		if e := chk(res, "Number"); e != nil && e["r"] != *c.N {
			add("Number", fmt.Sprintf("got %v want %d", e["r"], *c.N))
		}
		if e := chk(res, "Dimension"); e != nil {
			okU := false
			for _, u := range c.U {
				okU = okU || e["u"] == u
			}
			if e["n"] != *c.N || !okU {
				add("Dimension", fmt.Sprintf("got (%v,%v) want (%d,%v)", e["n"], e["u"], *c.N, c.U))
			}
		}
		nontrivial = *c.N > 0
	case "dec":
		res := exec(w, &spec{Fam: "url", S: s})
		want := rawInts(c.R)
		e := chk(res, "DecodeURL")
		if e != nil && !eqInts(ints(e, "r"), want) {
			if *c.Wf == 1 {
				add("DecodeURL", fmt.Sprintf("got %v want %v", e["r"], want))
			} else {
				sum.Undetermined++
			}
		}
		// the specification's definition against the stdlib fact it is meant to coincide with
		n := res["New"]
		if (n["qok"] == true) != (*c.Wf == 1) {
			specStd("WellFormedPct differs from url.QueryUnescape's success")
		} else if n["qok"] == true && !eqInts(ints(n, "q"), want) {
			specStd("Decode differs from url.QueryUnescape's result")
		}
		for _, k := range []string{"EncodeURL/url/tight", "EncodeURL/url/spare", "EncodeURL/datauri/tight", "EncodeURL/datauri/spare", "RoundTrip"} {
			if e := chk(res, k); e != nil && k == "RoundTrip" && !eqInts(ints(e, "r"), c.S) {
				add("RoundTrip", fmt.Sprintf("got %v want %v", e["r"], c.S))
			}
		}
		nontrivial = !eqInts(want, c.S)
	case "enc":
		res := exec(w, &spec{Fam: "url", S: s})
		n := res["New"]
		if !eqInts(ints(n, "mu"), c.Mu) || !eqInts(ints(n, "md"), c.Md) {
			specStd("table membership in the case differs from the package's tables (stale tables file?)")
		}
		for _, k := range []string{"EncodeURL/url/tight", "EncodeURL/url/spare", "EncodeURL/datauri/tight", "EncodeURL/datauri/spare"} {
			want := c.Ru
			if strings.Contains(k, "datauri") {
				want = c.Rd
			}
			if e := chk(res, k); e != nil && !eqInts(ints(e, "r"), want) {
				add("EncodeURL", fmt.Sprintf("%s got %v want %v", k, e["r"], want))
			}
		}
		if e := chk(res, "RoundTrip"); e != nil && !eqInts(ints(e, "r"), c.S) {
			add("RoundTrip", fmt.Sprintf("got %v want %v", e["r"], c.S))
		}
		chk(res, "DecodeURL")
		nontrivial = !eqInts(c.Ru, c.S)
	case "text":
		res := exec(w, &spec{Fam: "text", S: s, Tgt: asciiLower(s)})
		if e := chk(res, "ToLower"); e != nil && !eqInts(ints(e, "r"), c.Low) {
			add("ToLower", fmt.Sprintf("got %v want %v", e["r"], c.Low))
		}
		if e := chk(res, "IsAllWhitespace"); e != nil && e["r"] != (*c.AllWS == 1) {
			add("IsAllWhitespace", fmt.Sprintf("got %v want %v", e["r"], *c.AllWS == 1))
		}
		if e := chk(res, "TrimWhitespace"); e != nil && (!eqInts(ints(e, "r"), c.Trim) || e["lo"] != *c.Lo) {
			add("TrimWhitespace", fmt.Sprintf("got %v at %v want %v at %d", e["r"], e["lo"], c.Trim, *c.Lo))
		}
		chk(res, "EqualFold")
		nontrivial = !eqInts(c.Low, c.S) || !eqInts(c.Trim, c.S)
	case "fold":
		res := exec(w, &spec{Fam: "text", S: s, Tgt: toBytes(c.T)})
		want := string(c.R) == "1"
		if e := chk(res, "EqualFold"); e != nil && e["r"] != want {
			add("EqualFold", fmt.Sprintf("target %v got %v want %v", c.T, e["r"], want))
		}
		nontrivial = want
	case "datauri":
		if c.Kind == "bad" {
			res := exec(w, &spec{Fam: "datauri", Kind: "bad", S: s})
			if e := chk(res, "DataURI"); e != nil && e["err"] == "nil" {
				add("DataURI", "malformed shape accepted")
			}
			nontrivial = true
			break
		}
		sp := &spec{Fam: "datauri", Kind: "enc", Base: toBytes(c.Base), Params: toBytes(c.Params), Enc: c.Enc, Payload: toBytes(c.Payload)}
		res := exec(w, sp)
		c.S = tr.Ints(sp.S)
		if e := chk(res, "DataURI"); e != nil {
			mt := ints(e, "mt")
			switch {
			case e["err"] != "nil":
				add("DataURI", fmt.Sprintf("error %v on a well-formed data URI", e["err"]))
			case !inSeqs(ints(e, "data"), c.Pay):
				add("DataURI", fmt.Sprintf("payload %v want one of %v", e["data"], c.Pay))
			case !eqInts(mt, c.Mt) && !eqInts(mt, append(append([]int{}, c.Mt...), c.Params...)):
				add("DataURI", fmt.Sprintf("media type %q want %q", toBytes(mt), toBytes(c.Mt)))
			}
		}
		nontrivial = true
	case "media":
		res := exec(w, &spec{Fam: "mediatype", S: s})
		n := res["New"]
		// expected parameters sorted by key, as the harness logs them
		m := map[string]string{}
		for i := range c.K {
			m[string(toBytes(c.K[i]))] = string(toBytes(c.V[i]))
		}
		wk, wv := sortedParams(m)
		if n["stdok"] != true || !eqInts(ints(n, "stdmt"), c.Mt) || !eqSeqs(n["stdk"].([][]int), wk) || !eqSeqs(n["stdv"].([][]int), wv) {
			specStd("expected (type, params) differs from mime.ParseMediaType")
		}
		if e := chk(res, "Mediatype"); e != nil && (!eqInts(ints(e, "mt"), c.Mt) || !eqSeqs(e["k"].([][]int), wk) || !eqSeqs(e["v"].([][]int), wv)) {
			add("Mediatype", fmt.Sprintf("got %q %v=%v want %q %v=%v", toBytes(ints(e, "mt")), e["k"], e["v"], toBytes(c.Mt), wk, wv))
		}
		nontrivial = len(c.K) > 0
	default:
		fmt.Fprintln(os.Stderr, "unknown family in case file:", fam)
		os.Exit(2)
	}
	return
}

var _ = parse.Number

func init() {
	reg.Register("helpers", "replay", Replay)
	reg.Register("helpers", "record", Record)
	reg.Register("helpers", "rerun", Rerun)
	reg.Register("helpers", "tables", Tables)
}
