package helpers

import (
	"encoding/json"
	"flag"
	"fmt"
	"math/rand"
	"os"

	"github.com/tdewolff/parse/v2"

	"verif/harness/internal/tr"
)

func S(xs ...string) [][]byte {
	r := make([][]byte, len(xs))
	for i, x := range xs {
		r[i] = []byte(x)
	}
	return r
}

// byte material around the syntax boundaries of each helper
var (
	numFrags = S("+", "-", ".", "e", "E", "0", "1", "5", "9", "%", "px", "em", "ex", "e+", "e-", "E5", ".5", "1.", "/", ":", "\x00", "\xff", "é", " ",
		"e1", "--", "..", "+.", "Q", "z", "@", "[", "`", "{", "\xe2\x80\xa8")
	urlFrags = S("%", "%4", "%41", "%e9", "%E9", "%zz", "%4g", "%g4", "+", "a", "z", " ", "\x00", "\xff", "é", "%%", "%2B", "%25", "%2", "/", ":", "@", "G",
		"g", "`", "F", "f", "0", "9", "%00", "%ff", "%Ff", "&", "=", "~", "-", "_", ".", "\x7f", "\x80", "\"", "<", "{")
	duFrags = S("data:", "data:", "data", "dat:", "text/html", ";", "base64", ";base64", ",", ",", "=", "charset=utf-8", " ", "QQ==", "QUJD", "Q", "%41",
		"+", "\x00", "\xff", "a", "%", "%2", "\n", "base64,", "BASE64", "!")
	mtFrags = S("a", "text", "plain", "/", "/", ";", ";", "=", "=", " ", " ", "k", "v", "charset", "utf-8", "*", "\"", "A", "x-y", "\t", ",", "é", "\x00",
		"0", ".", "+", "q", "\xff")
	txtBytes = []byte{' ', ' ', '\n', '\t', '\f', '\r', '\v', 0x1f, 0xa0, 0x85, 'A', 'Z', 'M', 'a', 'z', 'm', '@', '[', '`', '{', 0, 255, 0xC3, 0x89, '0', '!'}
	duBases  = S("", "", "text/html", "a/b", "image/svg+xml", "text/plain")
	duParams = S("", "", ";charset=utf-8", ";a=b;c=d", ";x=y")
	duEncs   = []string{"b64", "pctall", "pctlower", "pctmin", "query", "tab"}
	special  = []byte{0, '%', '+', ',', ';', '=', ' ', 'a', 'Z', '9', 255, 0x80, '/', ':', '#', '&', '~', '\n', '"'}
)

func cat(rng *rand.Rand, frags [][]byte, max int) []byte {
	n := rng.Intn(max + 1)
	var b []byte
	for i := 0; i < n; i++ {
		b = append(b, frags[rng.Intn(len(frags))]...)
	}
	return b
}

func randBytes(rng *rand.Rand, max int) []byte {
	n := rng.Intn(max + 1)
	b := make([]byte, n)
	for i := range b {
		if rng.Intn(3) == 0 {
			b[i] = byte(rng.Intn(256))
		} else {
			b[i] = special[rng.Intn(len(special))]
		}
	}
	return b
}

const tokChars = "abcxyz019-.+"

func randTok(rng *rand.Rand) []byte {
	n := 1 + rng.Intn(5)
	b := make([]byte, n)
	for i := range b {
		b[i] = tokChars[rng.Intn(len(tokChars))]
	}
	return b
}

func sp(rng *rand.Rand, max int) []byte {
	return []byte("    "[:rng.Intn(max+1)])
}

// a well-formed unquoted lower-case media type with distinct parameter names
func randMedia(rng *rand.Rand) []byte {
	b := append(sp(rng, 2), randTok(rng)...)
	b = append(append(b, '/'), randTok(rng)...)
	for j, n := 0, rng.Intn(4); j < n; j++ {
		b = append(append(append(b, sp(rng, 2)...), ';'), sp(rng, 2)...)
		b = append(append(b, randTok(rng)...), byte('a'+j)) // distinct keys
		b = append(append(b, '='), randTok(rng)...)
	}
	return append(b, sp(rng, 2)...)
}

// hashCalls builds the calls around one constant: the name, its case variants, every one-edit neighbour over
// a small byte set, neighbours in the concatenated text, and random non-members.
func hashCalls(rng *rand.Rand, names [][]byte, vals []int64, k int) []hcall {
	name := names[k]
	var cs []hcall
	th := func(b []byte) { cs = append(cs, hcall{Ev: "ToHash", S: append([]byte{}, b...)}) }
	th(name)
	up := append([]byte{}, name...)
	for i := range up {
		if up[i] >= 'a' && up[i] <= 'z' {
			up[i] -= 32
		}
	}
	th(up)
	if len(name) > 0 {
		t := append([]byte{}, name...)
		t[0] = up[0]
		th(t)
		t = append([]byte{}, name...)
		t[len(t)-1] = up[len(t)-1]
		th(t)
	}
	alt := []byte{'a', 'z', '-', 'E', 0, 0xFF, ' '}
	for i := 0; i <= len(name); i++ {
		if i < len(name) {
			th(append(append([]byte{}, name[:i]...), name[i+1:]...)) // deletion
			for _, c := range append(alt, name[i]^0x20, name[i]+1, name[i]-1) {
				if c != name[i] {
					t := append([]byte{}, name...)
					t[i] = c
					th(t) // substitution
				}
			}
		}
		for _, c := range alt {
			t := append(append(append([]byte{}, name[:i]...), c), name[i:]...)
			th(t) // insertion
		}
		th(name[:i])
		th(name[i:])
	}
	other := names[rng.Intn(len(names))]
	th(append(append([]byte{}, name...), other...))
	th(append(append([]byte{}, name...), name...))
	// windows of the concatenation of two names, with the length of a real constant
	joined := append(append([]byte{}, other...), name...)
	for i := 1; i+len(name) <= len(joined) && i < len(other)+1; i++ {
		th(joined[i : i+len(name)])
	}
	th(nil)
	for j := 0; j < 40; j++ { // random non-members (and the occasional member) of plausible lengths
		n := 1 + rng.Intn(len(name)+3)
		t := make([]byte, n)
		for i := range t {
			switch rng.Intn(8) {
			case 0:
				t[i] = byte(rng.Intn(256))
			case 1:
				t[i] = '-'
			default:
				t[i] = byte('a' + rng.Intn(26))
			}
		}
		th(t)
	}
	h := uint32(vals[k])
	for _, x := range []uint32{h, h + 1, h - 1, h ^ 0x100, h | 0xff, 0, 0xffffffff, 0xffffff00 | h&0xff, uint32(rng.Int63())} {
		cs = append(cs, hcall{Ev: "HashString", H: x})
	}
	return cs
}

// Record drives the helpers with seeded random byte strings around their syntax boundaries.
func Record(args []string) {
	fs := flag.NewFlagSet("helpers record", flag.ExitOnError)
	out := fs.String("out", "", "trace file")
	n := fs.Int("n", 500, "number of random traces per family")
	seed := fs.Int64("seed", 1, "seed")
	fs.Parse(args)
	rng := rand.New(rand.NewSource(*seed))
	w := tr.NewWriter(*out)
	sum := summary{Suite: "helpers", Mode: "record", PerFam: map[string]int{}}
	seen := map[string]bool{}
	tid := 0
	run := func(sp *spec) {
		tid++
		w.Begin(tid)
		res := exec(w, sp)
		for k, e := range res {
			if k == "New" {
				continue
			}
			sum.Executions++
			if !isRet(e) {
				sum.Panics++
			}
		}
		sum.Executions += len(sp.Calls)
		sum.PerFam[sp.Fam]++
		key := sp.Fam + string(sp.S) + "|" + string(sp.Tgt)
		if len(sp.S) > 1 && !seen[key] {
			seen[key] = true
			sum.Nontrivial++
		}
		if len(sum.Samples) < 3 && tid%97 == 5 {
			sum.Samples = append(sum.Samples, map[string]interface{}{"family": sp.Fam, "s": tr.Ints(sp.S)})
		}
		w.End(true)
	}
	for i := 0; i < *n; i++ {
		run(&spec{Fam: "num", S: cat(rng, numFrags, 7)})
		run(&spec{Fam: "url", S: cat(rng, urlFrags, 7)})
		if i%4 == 0 {
			run(&spec{Fam: "url", S: randBytes(rng, 10)})
		}
		// data URIs: built by encoding random payloads, and arbitrary byte strings around the syntax
		run(&spec{Fam: "datauri", Kind: "enc", Base: duBases[rng.Intn(len(duBases))], Params: duParams[rng.Intn(len(duParams))],
			Enc: duEncs[rng.Intn(len(duEncs))], Payload: randBytes(rng, 12)})
		du := cat(rng, duFrags, 8)
		if rng.Intn(3) > 0 {
			du = append([]byte("data:"), du...)
		}
		run(&spec{Fam: "datauri", Kind: "any", S: du})
		// media types: well-formed, well-formed with one random edit, and fragments
		m := randMedia(rng)
		switch rng.Intn(3) {
		case 1:
			if len(m) > 0 {
				m[rng.Intn(len(m))] = mtFrags[rng.Intn(len(mtFrags))][0]
			}
		case 2:
			m = cat(rng, mtFrags, 10)
		}
		run(&spec{Fam: "mediatype", S: m})
		// case and whitespace
		t := make([]byte, rng.Intn(9))
		for j := range t {
			t[j] = txtBytes[rng.Intn(len(txtBytes))]
		}
		tgt := asciiLower(t)
		switch rng.Intn(6) {
		case 0:
			if len(tgt) > 0 {
				tgt[rng.Intn(len(tgt))] = txtBytes[rng.Intn(len(txtBytes))]
			}
		case 1:
			tgt = append([]byte{}, t...)
		case 2:
			if len(tgt) > 0 {
				tgt = tgt[:len(tgt)-1]
			}
		case 3:
			tgt = append(tgt, 'a')
		}
		run(&spec{Fam: "text", S: t, Tgt: tgt})
	}
	// the hash tables: every constant of both packages
	for _, pkg := range []string{"css", "html"} {
		names, vals := hashTable(pkg)
		for k := range names {
			run(&spec{Fam: "hash", Pkg: pkg, Calls: hashCalls(rng, names, vals, k)})
		}
	}
	// all 256 byte values through every single-argument helper (tables, classes, no panic)
	for b := 0; b < 256; b++ {
		for _, s := range [][]byte{{byte(b)}, {'1', byte(b)}, {'%', byte(b), '1'}, {byte(b), ' '}} {
			run(&spec{Fam: "num", S: s})
			run(&spec{Fam: "url", S: s})
			run(&spec{Fam: "text", S: s, Tgt: asciiLower(s)})
			run(&spec{Fam: "mediatype", S: append([]byte("a/b;k="), s...)})
			run(&spec{Fam: "datauri", Kind: "any", S: append([]byte("data:,"), s...)})
		}
	}
	w.Close()
	sum.Traces, sum.Events = w.Traces, w.Events
	json.NewEncoder(os.Stdout).Encode(sum)
}

// Rerun re-executes the calls of one recorded trace (a JSON array of events) on the current code and records a
// fresh trace: the reproduction step before a rejected trace is reported, and the --replay entry point.
func Rerun(args []string) {
	fs := flag.NewFlagSet("helpers rerun", flag.ExitOnError)
	in := fs.String("trace", "", "JSON array of events")
	out := fs.String("out", "", "trace file")
	fs.Parse(args)
	raw, err := os.ReadFile(*in)
	if err != nil {
		fmt.Fprintln(os.Stderr, err)
		os.Exit(2)
	}
	var evs []map[string]interface{}
	if err := json.Unmarshal(raw, &evs); err != nil || len(evs) == 0 {
		fmt.Fprintln(os.Stderr, "bad trace", err)
		os.Exit(2)
	}
	bs := func(e map[string]interface{}, k string) []byte {
		var b []byte
		if a, ok := e[k].([]interface{}); ok {
			for _, v := range a {
				b = append(b, byte(v.(float64)))
			}
		}
		return b
	}
	str := func(e map[string]interface{}, k string) string {
		s, _ := e[k].(string)
		return s
	}
	n0 := evs[0]
	sp := &spec{Fam: str(n0, "fam"), S: bs(n0, "s"), Tgt: bs(n0, "tgt"), Kind: str(n0, "kind"), Base: bs(n0, "base"), Params: bs(n0, "params"),
		Enc: str(n0, "enc"), Payload: bs(n0, "payload"), Pkg: str(n0, "pkg")}
	for _, e := range evs[1:] {
		switch str(e, "ev") {
		case "ToHash":
			sp.Calls = append(sp.Calls, hcall{Ev: "ToHash", S: bs(e, "s")})
		case "HashString":
			var h uint64
			fmt.Sscan(str(e, "h32"), &h)
			sp.Calls = append(sp.Calls, hcall{Ev: "HashString", H: uint32(h)})
		}
	}
	w := tr.NewWriter(*out)
	w.Begin(1)
	exec(w, sp)
	w.End(true)
	w.Close()
	json.NewEncoder(os.Stdout).Encode(summary{Suite: "helpers", Mode: "rerun", Executions: 1, Traces: 1, Events: w.Events})
}

// Tables dumps the data the specification is parameterised with: per-byte membership of the two encoding
// tables and the constants of the two hash packages.
func Tables(args []string) {
	fs := flag.NewFlagSet("helpers tables", flag.ExitOnError)
	out := fs.String("out", "", "JSON file")
	fs.Parse(args)
	all := make([]byte, 256)
	for i := range all {
		all[i] = byte(i)
	}
	obj := map[string]interface{}{"url": bits(&parse.URLEncodingTable, all), "datauri": bits(&parse.DataURIEncodingTable, all)}
	consts := 0
	for _, pkg := range []string{"css", "html"} {
		names, vals := hashTable(pkg)
		obj[pkg] = map[string]interface{}{"names": seqs(names), "vals": vals}
		consts += len(names)
	}
	b, _ := json.Marshal(obj)
	if err := os.WriteFile(*out, b, 0o644); err != nil {
		fmt.Fprintln(os.Stderr, err)
		os.Exit(2)
	}
	json.NewEncoder(os.Stdout).Encode(map[string]interface{}{"suite": "helpers", "mode": "tables", "hash_constants": consts})
}
