// Package helpers drives the text helpers of property C16 (Number, Dimension, EncodeURL, DecodeURL, DataURI,
// Mediatype, EqualFold, ToLower, TrimWhitespace, IsAllWhitespace, css.ToHash, html.ToHash).
//
// The helpers are functions, so a trace is: one constructor event New{fam, s, facts...} naming the argument and
// the facts the harness vouches for or observed from the standard library (table membership of the bytes of s,
// url.QueryUnescape's and mime.ParseMediaType's answers, how a data URI was built, the list of hash constants),
// followed by one event per call made on that argument. spec/text/HelpersTrace.tla judges every event.
//
//	replay  cases enumerated by TLC from spec/text/HelpersGen.tla, with the expectation Helpers.tla computed
//	record  seeded random byte strings around the syntax boundaries
//	rerun   re-execute one recorded trace
//	tables  dump the encoding tables and the hash constants (data) for the generator
package helpers

import (
	"bytes"
	"encoding/base64"
	"fmt"
	"go/ast"
	"go/parser"
	"go/token"
	"mime"
	"net/url"
	"os"
	"path/filepath"
	"sort"
	"strconv"
	"strings"
	"unsafe"

	"github.com/tdewolff/parse/v2"
	"github.com/tdewolff/parse/v2/css"
	"github.com/tdewolff/parse/v2/html"

	"verif/harness/internal/tr"
)

// spec describes one trace: the family, the argument and what the harness vouches for.
type spec struct {
	Fam string
	S   []byte
	// text
	Tgt []byte
	// datauri
	Kind    string // enc | bad | any
	Base    []byte
	Params  []byte
	Enc     string
	Payload []byte
	// hash
	Pkg   string
	Calls []hcall
}

type hcall struct {
	Ev string // ToHash | HashString
	S  []byte
	H  uint32
}

// tight returns a copy of b whose capacity equals its length and that ends at the end of its allocation
// class as far as Go allows: any reslice beyond len panics.
func tight(b []byte) []byte {
	c := make([]byte, len(b))
	copy(c, b)
	return c[:len(b):len(b)]
}

// spare returns a copy of b with unused capacity filled with junk (in-place growth does not reallocate).
func spare(b []byte) []byte {
	c := make([]byte, len(b)*3+8)
	for i := range c {
		c[i] = 0xAA
	}
	copy(c, b)
	return c[:len(b)]
}

func bits(t *[256]bool, s []byte) []int {
	r := make([]int, len(s))
	for i, c := range s {
		if t[c] {
			r[i] = 1
		}
	}
	return r
}

func seqs(bs [][]byte) [][]int {
	r := make([][]int, len(bs))
	for i, b := range bs {
		r[i] = tr.Ints(b)
	}
	return r
}

// call runs f with panic recovery and records the event.
func call(w *tr.Writer, name string, f func(ev tr.E)) (ev tr.E) {
	ev = tr.E{}
	defer func() {
		if r := recover(); r != nil {
			ev["out"] = "panic"
			ev["panic"] = fmt.Sprint(r)
		}
		w.Ev(name, ev)
	}()
	f(ev)
	return ev
}

func sortedParams(m map[string]string) (k, v [][]int) {
	keys := make([]string, 0, len(m))
	for x := range m {
		keys = append(keys, x)
	}
	sort.Strings(keys)
	k, v = [][]int{}, [][]int{}
	for _, x := range keys {
		k = append(k, tr.Ints([]byte(x)))
		v = append(v, tr.Ints([]byte(m[x])))
	}
	return
}

// buildDataURI concretises a generated shape: "data:" base params [;base64] "," encoded payload.
func buildDataURI(base, params []byte, enc string, payload []byte) []byte {
	var b bytes.Buffer
	b.WriteString("data:")
	b.Write(base)
	b.Write(params)
	const up, lo = "0123456789ABCDEF", "0123456789abcdef"
	switch enc {
	case "b64":
		b.WriteString(";base64,")
		b.WriteString(base64.StdEncoding.EncodeToString(payload))
	case "pctall", "pctlower", "pctmin":
		b.WriteByte(',')
		hex := up
		if enc == "pctlower" {
			hex = lo
		}
		for _, c := range payload {
			unres := c >= 'a' && c <= 'z' || c >= 'A' && c <= 'Z' || c >= '0' && c <= '9' || c == '-' || c == '.' || c == '_' || c == '~'
			if enc == "pctmin" && unres {
				b.WriteByte(c)
			} else {
				b.WriteByte('%')
				b.WriteByte(hex[c>>4])
				b.WriteByte(hex[c&15])
			}
		}
	case "tab": // the package's own table for data URIs (an independent loop, not EncodeURL)
		b.WriteByte(',')
		for _, c := range payload {
			if parse.DataURIEncodingTable[c] {
				b.WriteByte('%')
				b.WriteByte(up[c>>4])
				b.WriteByte(up[c&15])
			} else {
				b.WriteByte(c)
			}
		}
	case "query":
		b.WriteByte(',')
		b.WriteString(url.QueryEscape(string(payload)))
	default:
		panic("unknown encoding " + enc)
	}
	return b.Bytes()
}

func errClass(err error) string {
	switch {
	case err == nil:
		return "nil"
	case err == parse.ErrBadDataURI:
		return "bad"
	}
	return "decode"
}

func newEv(w *tr.Writer, res result, e tr.E) {
	w.Ev("New", e)
	res["New"] = e
}

func asciiLower(b []byte) []byte {
	c := make([]byte, len(b))
	for i, x := range b {
		if x >= 'A' && x <= 'Z' {
			x += 'a' - 'A'
		}
		c[i] = x
	}
	return c
}

// result of executing one trace: the events by name (last one wins; EncodeURL keyed by tab/cap)
type result map[string]tr.E

// exec writes the constructor event and performs every call of the family on the real code.
func exec(w *tr.Writer, sp *spec) result {
	res := result{}
	s := sp.S
	switch sp.Fam {
	case "num":
		newEv(w, res, tr.E{"fam": "num", "s": tr.Ints(s)})
		res["Number"] = call(w, "Number", func(ev tr.E) { ev["r"] = parse.Number(tight(s)) })
		res["Dimension"] = call(w, "Dimension", func(ev tr.E) { ev["n"], ev["u"] = parse.Dimension(tight(s)) })
	case "url":
		q, qerr := url.QueryUnescape(string(s))
		newEv(w, res, tr.E{"fam": "url", "s": tr.Ints(s), "mu": bits(&parse.URLEncodingTable, s), "md": bits(&parse.DataURIEncodingTable, s),
			"qok": qerr == nil, "q": tr.Ints([]byte(q))})
		for _, tab := range []string{"url", "datauri"} {
			for _, cp := range []string{"tight", "spare"} {
				tab, cp := tab, cp
				res["EncodeURL/"+tab+"/"+cp] = call(w, "EncodeURL", func(ev tr.E) {
					ev["tab"], ev["cap"] = tab, cp
					t := &parse.URLEncodingTable
					if tab == "datauri" {
						t = &parse.DataURIEncodingTable
					}
					in := tight(s)
					if cp == "spare" {
						in = spare(s)
					}
					ev["r"] = tr.Ints(parse.EncodeURL(in, *t))
				})
			}
		}
		res["DecodeURL"] = call(w, "DecodeURL", func(ev tr.E) { ev["r"] = tr.Ints(parse.DecodeURL(tight(s))) })
		res["RoundTrip"] = call(w, "RoundTrip", func(ev tr.E) {
			ev["r"] = tr.Ints(parse.DecodeURL(parse.EncodeURL(tight(s), parse.URLEncodingTable)))
		})
	case "datauri":
		e := tr.E{"fam": "datauri", "kind": sp.Kind}
		if sp.Kind == "enc" {
			s = buildDataURI(sp.Base, sp.Params, sp.Enc, sp.Payload)
			sp.S = s
			e["base"], e["params"], e["enc"], e["payload"] = tr.Ints(sp.Base), tr.Ints(sp.Params), sp.Enc, tr.Ints(sp.Payload)
		}
		e["s"] = tr.Ints(s)
		newEv(w, res, e)
		res["DataURI"] = call(w, "DataURI", func(ev tr.E) {
			mt, data, err := parse.DataURI(tight(s))
			ev["err"], ev["mt"], ev["data"] = errClass(err), tr.Ints(mt), tr.Ints(data)
			if err != nil {
				ev["errText"] = len(err.Error())
			}
		})
	case "mediatype":
		smt, sparams, serr := mime.ParseMediaType(string(s))
		sk, sv := sortedParams(sparams)
		newEv(w, res, tr.E{"fam": "mediatype", "s": tr.Ints(s), "stdok": serr == nil, "stdmt": tr.Ints([]byte(smt)), "stdk": sk, "stdv": sv})
		res["Mediatype"] = call(w, "Mediatype", func(ev tr.E) {
			mt, params := parse.Mediatype(tight(s))
			ev["mt"] = tr.Ints(mt)
			ev["k"], ev["v"] = sortedParams(params)
		})
	case "text":
		newEv(w, res, tr.E{"fam": "text", "s": tr.Ints(s), "tgt": tr.Ints(sp.Tgt)})
		res["ToLower"] = call(w, "ToLower", func(ev tr.E) { ev["r"] = tr.Ints(parse.ToLower(tight(s))) })
		res["IsAllWhitespace"] = call(w, "IsAllWhitespace", func(ev tr.E) { ev["r"] = parse.IsAllWhitespace(tight(s)) })
		res["TrimWhitespace"] = call(w, "TrimWhitespace", func(ev tr.E) {
			in := tight(s)
			out := parse.TrimWhitespace(in)
			lo := -1
			if len(out) > 0 && len(in) > 0 {
				lo = int(uintptr(unsafe.Pointer(&out[0])) - uintptr(unsafe.Pointer(&in[0])))
			}
			ev["r"], ev["lo"] = tr.Ints(out), lo
		})
		res["EqualFold"] = call(w, "EqualFold", func(ev tr.E) { ev["r"] = parse.EqualFold(tight(s), tight(sp.Tgt)) })
	case "hash":
		names, vals := hashTable(sp.Pkg)
		newEv(w, res, tr.E{"fam": "hash", "pkg": sp.Pkg, "s": []int{}, "names": seqs(names), "vals": vals})
		for _, c := range sp.Calls {
			c := c
			if c.Ev == "ToHash" {
				call(w, "ToHash", func(ev tr.E) {
					ev["s"] = tr.Ints(c.S)
					if sp.Pkg == "css" {
						ev["r"] = int64(css.ToHash(tight(c.S)))
					} else {
						ev["r"] = int64(html.ToHash(tight(c.S)))
					}
				})
			} else {
				call(w, "HashString", func(ev tr.E) {
					ev["h"] = clip(c.H)
					ev["h32"] = strconv.FormatUint(uint64(c.H), 10)
					if sp.Pkg == "css" {
						ev["r"] = tr.Ints([]byte(css.Hash(c.H).String()))
					} else {
						ev["r"] = tr.Ints([]byte(html.Hash(c.H).String()))
					}
				})
			}
		}
	default:
		panic("unknown family " + sp.Fam)
	}
	return res
}

// TLC integers are 32-bit signed: larger hash values (never constants) are logged as -1.
func clip(h uint32) int64 {
	if h >= 1<<31 {
		return -1
	}
	return int64(h)
}

// ---------------------------------------------------------------- data: hash constants

var repoDir = func() string {
	if d := os.Getenv("VERIF_REPO"); d != "" {
		return d
	}
	return "/repo"
}()

type htab struct {
	names [][]byte
	vals  []int64
}

var htabs = map[string]*htab{}

// hashTable extracts the list of constants of <pkg>/hash.go from the source: the value and the text in the
// trailing comment of every `Name Hash = 0x..` constant (falling back on the identifier, '_' for '-').
func hashTable(pkg string) ([][]byte, []int64) {
	if t, ok := htabs[pkg]; ok {
		return t.names, t.vals
	}
	path := filepath.Join(repoDir, pkg, "hash.go")
	f, err := parser.ParseFile(token.NewFileSet(), path, nil, parser.ParseComments)
	if err != nil {
		fmt.Fprintln(os.Stderr, "helpers: cannot read hash constants:", err)
		os.Exit(2)
	}
	t := &htab{}
	for _, d := range f.Decls {
		gd, ok := d.(*ast.GenDecl)
		if !ok || gd.Tok != token.CONST {
			continue
		}
		for _, sp := range gd.Specs {
			vs := sp.(*ast.ValueSpec)
			id, ok := vs.Type.(*ast.Ident)
			if !ok || id.Name != "Hash" || len(vs.Names) != 1 || len(vs.Values) != 1 {
				continue
			}
			lit, ok := vs.Values[0].(*ast.BasicLit)
			if !ok {
				continue
			}
			v, err := strconv.ParseUint(lit.Value, 0, 32)
			if err != nil {
				continue
			}
			name := strings.ToLower(strings.ReplaceAll(vs.Names[0].Name, "_", "-"))
			if vs.Comment != nil {
				if c := strings.TrimSpace(vs.Comment.Text()); c != "" {
					name = c
				}
			}
			t.names = append(t.names, []byte(name))
			t.vals = append(t.vals, int64(v))
		}
	}
	if len(t.names) == 0 {
		fmt.Fprintln(os.Stderr, "helpers: no hash constants found in", path)
		os.Exit(2)
	}
	htabs[pkg] = t
	return t.names, t.vals
}
