// Package lexers drives every entry point that consumes untrusted text (CSS lexer and parser, HTML lexer with and
// without template delimiters, XML lexer, JSON parser, JS lexer, js.Parse) and records one event per call for
// spec/proto/NextProtocol.tla (C01) and spec/proto/TokenStream.tla (C02) to judge. It is also the observation
// tool of the token/document grammar suites (C06, C07, C09, C11): `tokens` prints what a lexer returns for an input.
package lexers

import (
	"io"
	"unsafe"

	"github.com/tdewolff/parse/v2"
	"github.com/tdewolff/parse/v2/css"
	"github.com/tdewolff/parse/v2/html"
	"github.com/tdewolff/parse/v2/js"
	"github.com/tdewolff/parse/v2/json"
	"github.com/tdewolff/parse/v2/xml"
)

// report is what one Next() call handed to the caller.
type report struct {
	kind   int
	kname  string
	isErr  bool
	err    error
	data   []byte
	others [][]byte          // further slices handed out by this call (Values(), ...)
	subs   map[string][]byte // Text / AttrKey / AttrVal
	tmpl   bool
	state  string // json State() after the call
}

type stepper interface {
	next() report
}

// Lang describes an entry point.
type Lang struct {
	Name     string
	Family   string // css | html | xml | json | js
	TokenLvl bool   // a token-level lexer: property C02 applies
	Concat   bool   // css/js lexers: tokens concatenate to the input, each re-lexes to itself
	open     func(in *parse.Input) stepper
	relex    func(kind int, text []byte) bool
}

type cssLex struct{ l *css.Lexer }

func (s cssLex) next() report {
	tt, d := s.l.Next()
	return report{kind: int(tt), kname: tt.String(), isErr: tt == css.ErrorToken, err: s.l.Err(), data: d}
}

type cssParse struct{ p *css.Parser }

func (s cssParse) next() report {
	gt, tt, d := s.p.Next()
	r := report{kind: int(gt)*100 + int(tt), kname: gt.String(), isErr: gt == css.ErrorGrammar, err: s.p.Err(), data: d}
	for _, v := range s.p.Values() {
		r.others = append(r.others, v.Data)
	}
	return r
}

type htmlLex struct{ l *html.Lexer }

func (s htmlLex) next() report {
	tt, d := s.l.Next()
	r := report{kind: int(tt), kname: tt.String(), isErr: tt == html.ErrorToken, err: s.l.Err(), data: d, tmpl: s.l.HasTemplate()}
	r.subs = map[string][]byte{"text": s.l.Text()}
	if tt == html.AttributeToken {
		r.subs["val"] = s.l.AttrVal()
	}
	return r
}

type xmlLex struct{ l *xml.Lexer }

func (s xmlLex) next() report {
	tt, d := s.l.Next()
	r := report{kind: int(tt), kname: tt.String(), isErr: tt == xml.ErrorToken, err: s.l.Err(), data: d}
	r.subs = map[string][]byte{"text": s.l.Text()}
	if tt == xml.AttributeToken {
		r.subs["val"] = s.l.AttrVal()
	}
	return r
}

type jsonParse struct{ p *json.Parser }

func (s jsonParse) next() report {
	gt, d := s.p.Next()
	return report{kind: int(gt), kname: gt.String(), isErr: gt == json.ErrorGrammar, err: s.p.Err(), data: d, state: s.p.State().String()}
}

type jsLex struct {
	l      *js.Lexer
	regexp bool // call RegExp() after every '/' or '/=' token
	always bool // call RegExp() after EVERY token that is not an error report (a caller that does not keep to the documented order)
	redo   bool
}

func (s *jsLex) next() report {
	var tt js.TokenType
	var d []byte
	name := ""
	if s.redo {
		s.redo = false
		tt, d = s.l.RegExp()
		name = "RegExp:"
	} else {
		tt, d = s.l.Next()
		if s.regexp && (tt == js.DivToken || tt == js.DivEqToken) || s.always && tt != js.ErrorToken {
			s.redo = true
		}
	}
	return report{kind: int(tt), kname: name + tt.String(), isErr: tt == js.ErrorToken, err: s.l.Err(), data: d}
}

func relexCSS(kind int, text []byte) bool {
	l := css.NewLexer(parse.NewInputBytes(append([]byte{}, text...)))
	tt, d := l.Next()
	if int(tt) != kind || string(d) != string(text) {
		return false
	}
	tt, _ = l.Next()
	return tt == css.ErrorToken && l.Err() == io.EOF
}

func relexJS(kind int, text []byte) bool {
	k := js.TokenType(kind)
	if k == js.TemplateMiddleToken || k == js.TemplateEndToken {
		// these exist only in template-tail context: supply it with a minimal head
		l := js.NewLexer(parse.NewInputBytes(append([]byte("`${"), text...)))
		if tt, _ := l.Next(); tt != js.TemplateStartToken {
			return false
		}
		tt, d := l.Next()
		return tt == k && string(d) == string(text)
	}
	l := js.NewLexer(parse.NewInputBytes(append([]byte{}, text...)))
	tt, d := l.Next()
	if tt != k || string(d) != string(text) {
		return false
	}
	if k == js.TemplateStartToken {
		return true // the head leaves the lexer inside the template; nothing follows
	}
	tt, _ = l.Next()
	return tt == js.ErrorToken && l.Err() == io.EOF
}

var tmplDialects = []struct {
	name string
	pair [2]string
}{
	{"go", html.GoTemplate}, {"handlebars", html.HandlebarsTemplate}, {"mustache", html.MustacheTemplate},
	{"ejs", html.EJSTemplate}, {"asp", html.ASPTemplate}, {"php", html.PHPTemplate},
}

// Langs lists the Next-style entry points. js.Parse is handled separately (parseEntry).
var Langs = func() []Lang {
	ls := []Lang{
		{Name: "css.lex", Family: "css", TokenLvl: true, Concat: true, relex: relexCSS,
			open: func(in *parse.Input) stepper { return cssLex{css.NewLexer(in)} }},
		{Name: "css.parse", Family: "css", open: func(in *parse.Input) stepper { return cssParse{css.NewParser(in, false)} }},
		{Name: "css.inline", Family: "css", open: func(in *parse.Input) stepper { return cssParse{css.NewParser(in, true)} }},
		{Name: "html", Family: "html", TokenLvl: true, open: func(in *parse.Input) stepper { return htmlLex{html.NewLexer(in)} }},
		{Name: "xml", Family: "xml", TokenLvl: true, open: func(in *parse.Input) stepper { return xmlLex{xml.NewLexer(in)} }},
		{Name: "json", Family: "json", open: func(in *parse.Input) stepper { return jsonParse{json.NewParser(in)} }},
		{Name: "js.lex", Family: "js", TokenLvl: true, Concat: true, relex: relexJS,
			open: func(in *parse.Input) stepper { return &jsLex{l: js.NewLexer(in)} }},
		{Name: "js.lex.re", Family: "js", open: func(in *parse.Input) stepper { return &jsLex{l: js.NewLexer(in), regexp: true} }},
		{Name: "js.lex.re.any", Family: "js", open: func(in *parse.Input) stepper { return &jsLex{l: js.NewLexer(in), always: true} }},
	}
	for _, d := range tmplDialects {
		pair := d.pair
		ls = append(ls, Lang{Name: "html.tmpl." + d.name, Family: "html", TokenLvl: true,
			open: func(in *parse.Input) stepper { return htmlLex{html.NewTemplateLexer(in, pair)} }})
	}
	return ls
}()

func langByName(n string) *Lang {
	for i := range Langs {
		if Langs[i].Name == n {
			return &Langs[i]
		}
	}
	return nil
}

// where locates slice s relative to the input's backing array [base, base+span): (aliases, lo, hi).
func where(s []byte, base unsafe.Pointer, span int) (bool, int, int) {
	if len(s) == 0 || base == nil {
		return false, -1, -1
	}
	p := uintptr(unsafe.Pointer(&s[0]))
	b := uintptr(base)
	if p < b || p >= b+uintptr(span) {
		return false, -1, -1
	}
	lo := int(p - b)
	return true, lo, lo + len(s)
}
