package lexers

import (
	"encoding/json"
	"flag"
	"fmt"
	"go/ast"
	"go/parser"
	"go/token"
	"hash/fnv"
	"math/rand"
	"os"
	"path/filepath"
	"runtime/debug"
	"sort"
	"strconv"
	"strings"
	"time"

	"github.com/tdewolff/parse/v2/js"

	"verif/harness/internal/reg"
	"verif/harness/internal/tr"
	"verif/harness/internal/wd"
)

// class name -> concrete representatives (chosen by seed). The class alphabets per language are constants of
// spec/proto/AllStrings.tla; a name unknown here is a fatal error of the machinery.
var classBytes = map[string][]string{
	"sp": {" "}, "tab": {"\t"}, "nl": {"\n", "\r", "\f"}, "crlf": {"\r\n"}, "quote": {"\""}, "apos": {"'"}, "digit": {"0", "7", "9"},
	"hex": {"a", "f", "A", "c"}, "e": {"e", "E"}, "u": {"u", "U"}, "letter": {"z", "g", "Q", "_", "r", "l"}, "dash": {"-"}, "plus": {"+"},
	"dot": {"."}, "bslash": {"\\"}, "lparen": {"("}, "rparen": {")"}, "lbrack": {"["}, "rbrack": {"]"}, "lbrace": {"{"}, "rbrace": {"}"},
	"hash": {"#"}, "at": {"@"}, "star": {"*"}, "slash": {"/"}, "lt": {"<"}, "gt": {">"}, "bang": {"!"}, "pipe": {"|"}, "eq": {"="},
	"tilde": {"~"}, "caret": {"^"}, "dollar": {"$"}, "pct": {"%"}, "qmark": {"?"}, "colon": {":"}, "semi": {";"}, "comma": {","},
	"amp": {"&"}, "btick": {"`"}, "nonascii": {"é", "†", "\U0001F600", " ", " ", "à", "х", "\u0085", "\ufeff"}, "nul": {"\x00"}, "del": {"\x7f"}, "ctrl": {"\x01", "\x0b"},
	"bad": {"\xff", "\xc3", "\xe2\x80", "\xf0\x9f", "\x80"},
	// multi-byte atoms that open or close constructs
	"urlo": {"url(", "URL("}, "cdo": {"<!--"}, "cdc": {"-->"}, "cmto": {"/*"}, "cmtc": {"*/"}, "script": {"<script", "<SCRIPT>", "</script"},
	"style": {"<style>", "</style"}, "svg": {"<svg", "</svg>"}, "math": {"<math>", "</math"}, "cdata": {"<![CDATA[", "]]>"}, "doctype": {"<!DOCTYPE", "<!doctype "},
	"pi": {"<?xml", "<?", "?>"}, "tmplo": {"{{", "<%", "<?"}, "tmplc": {"}}", "%>", "?>"}, "textarea": {"<textarea>", "</textarea"}, "title": {"<title>", "</title>"},
	"true": {"true", "null", "false"}, "str": {"\"a\"", "\"\\\"\"", "\"\\\\\""}, "num": {"1", "-0.5e+3", "0"},
	"kw": {"let", "function", "class", "async", "await", "yield", "of", "in", "new", "return", "static", "get"}, "arrow": {"=>"}, "tpl": {"`", "${", "}"}, "ell": {"..."},
	"opt": {"?.", "??", "**", "++", "--"}, "regex": {"/a/", "/[/]/g"}, "id": {"a", "b", "x1"}, "var": {"var ", "let ", "const "}, "fn": {"function ", "async ", "class "},
	"uesc": {"\\u{", "\\u00", "\\u{4", "\\u", "\\u{1F6"}, // the start of a unicode escape (identifier, string, template, regexp)
}

func concretise(cls []string, rng *rand.Rand) []byte { return concretiseFor(cls, rng, nil) }

func caseRng(seed int64, fam string, cls []string) *rand.Rand {
	h := fnv.New64a()
	fmt.Fprint(h, seed, fam, cls)
	return rand.New(rand.NewSource(int64(h.Sum64())))
}

// concretiseFor spells the classes; for a template dialect its own delimiters stand for tmplo/tmplc.
func concretiseFor(cls []string, rng *rand.Rand, tmpl *[2]string) []byte {
	var b []byte
	for _, c := range cls {
		if tmpl != nil && c == "tmplo" {
			b = append(b, tmpl[0]...)
			continue
		} else if tmpl != nil && c == "tmplc" {
			b = append(b, tmpl[1]...)
			continue
		}
		reps, ok := classBytes[c]
		if !ok {
			fmt.Fprintln(os.Stderr, "unknown class", c)
			os.Exit(2)
		}
		b = append(b, reps[rng.Intn(len(reps))]...)
	}
	return b
}

type summary struct {
	Suite      string        `json:"suite"`
	Mode       string        `json:"mode"`
	Cases      int           `json:"cases"`
	Executions int           `json:"executions"`
	Traces     int           `json:"traces"`
	Events     int           `json:"events"`
	Nontrivial int           `json:"distinct_nontrivial"`
	Panics     int           `json:"panics"`
	NotEnded   int           `json:"not_ended"`
	Samples    []interface{} `json:"samples"`
}

var jsOpts = []js.Options{{}, {WhileToFor: true}, {Inline: true}, {WhileToFor: true, Inline: true}}

// runAll runs one input through the given entry points (Next-style and js.Parse) as separate traces.
func runAll(w *tr.Writer, sum *summary, tid *int, langs []string, input []byte, gen tr.E, seen map[string]bool) {
	for _, ln := range langs {
		*tid++
		wd.Case(map[string]interface{}{"lang": ln, "input": tr.Ints(input)})
		w.Begin(*tid)
		sum.Executions++
		if strings.HasPrefix(ln, "js.parse") {
			for _, o := range jsOpts {
				if ln == "js.parse" || ln == fmt.Sprintf("js.parse.%d.%d", b2i(o.WhileToFor), b2i(o.Inline)) {
					parseOne(w, input, o, true, gen)
					w.End(true)
					*tid++
					w.Begin(*tid)
				}
			}
			w.End(false)
			continue
		}
		L := langByName(ln)
		if L == nil {
			fmt.Fprintln(os.Stderr, "unknown lang", ln)
			os.Exit(2)
		}
		_, units, ended := runOne(w, L, input, true, gen)
		if L.TokenLvl {
			annotateGaps(w.Buf(), input)
		}
		if !ended {
			sum.NotEnded++
		}
		if units >= 2 {
			k := ln + "\x00" + string(input)
			if !seen[k] {
				seen[k] = true
				sum.Nontrivial++
			}
		}
		w.End(true)
	}
}

var familyLangs = map[string][]string{
	"css":  {"css.lex", "css.parse", "css.inline"},
	"html": {"html", "html.tmpl.go", "html.tmpl.handlebars", "html.tmpl.mustache", "html.tmpl.ejs", "html.tmpl.asp", "html.tmpl.php"},
	"xml":  {"xml"},
	"json": {"json"},
	"js":   {"js.lex", "js.lex.re", "js.lex.re.any", "js.parse"},
}

// Classes: every class string emitted by TLC (spec/proto/AllStrings.tla), concretised by seed, through every
// entry point of its family.
func Classes(args []string) {
	fs := flag.NewFlagSet("lexers classes", flag.ExitOnError)
	cases := fs.String("cases", "", "ndjson {fam, cls:[...]}")
	out := fs.String("out", "", "trace file")
	seed := fs.Int64("seed", 1, "seed")
	only := fs.String("langs", "", "comma separated entry points (default: all of the family)")
	fs.Parse(args)
	wd.Start(*out+".hang", 30*time.Second)
	w := tr.NewWriter(*out)
	sum := summary{Suite: "lexers", Mode: "classes"}
	seen := map[string]bool{}
	tid := 0
	err := tr.ReadCases(*cases, func(line int, raw []byte) {
		var c struct {
			Fam string   `json:"fam"`
			Cls []string `json:"cls"`
		}
		if err := json.Unmarshal(raw, &c); err != nil {
			fmt.Fprintln(os.Stderr, "bad case", err)
			os.Exit(2)
		}
		sum.Cases++
		crng := caseRng(*seed, c.Fam, c.Cls) // independent of the order in which TLC emitted the cases
		input := concretise(c.Cls, crng)
		langs := familyLangs[c.Fam]
		if *only != "" {
			langs = nil
			for _, l := range strings.Split(*only, ",") {
				if lg := langByName(l); (lg != nil && lg.Family == c.Fam) || (strings.HasPrefix(l, "js.parse") && c.Fam == "js") {
					langs = append(langs, l)
				}
			}
		}
		if len(sum.Samples) < 3 && len(c.Cls) >= 3 {
			sum.Samples = append(sum.Samples, map[string]interface{}{"fam": c.Fam, "cls": c.Cls, "input": string(input)})
		}
		hasTmpl := false
		for _, x := range c.Cls {
			hasTmpl = hasTmpl || x == "tmplo" || x == "tmplc"
		}
		if c.Fam == "html" && hasTmpl {
			// every dialect sees its own delimiters (and the plain lexer one of them)
			for _, ln := range langs {
				var pair *[2]string
				for _, d := range tmplDialects {
					if "html.tmpl."+d.name == ln {
						p := d.pair
						pair = &p
					}
				}
				st := crng.Int63()
				runAll(w, &sum, &tid, []string{ln}, concretiseFor(c.Cls, rand.New(rand.NewSource(st)), pair), tr.E{"cls": c.Cls}, seen)
			}
			return
		}
		runAll(w, &sum, &tid, langs, input, tr.E{"cls": c.Cls}, seen)
	})
	if err != nil {
		fmt.Fprintln(os.Stderr, err)
		os.Exit(2)
	}
	w.Close()
	sum.Traces, sum.Events = w.Traces, w.Events
	json.NewEncoder(os.Stdout).Encode(sum)
}

// harvest collects the string literals of the repository's own test files, per package.
func harvest(repo string) map[string][]string {
	out := map[string][]string{}
	for _, fam := range []string{"css", "html", "xml", "json", "js"} {
		files, _ := filepath.Glob(filepath.Join(repo, fam, "*_test.go"))
		set := map[string]bool{}
		for _, f := range files {
			fset := token.NewFileSet()
			af, err := parser.ParseFile(fset, f, nil, 0)
			if err != nil {
				continue
			}
			ast.Inspect(af, func(n ast.Node) bool {
				if bl, ok := n.(*ast.BasicLit); ok && bl.Kind == token.STRING {
					if s, err := strconv.Unquote(bl.Value); err == nil && len(s) > 0 && len(s) <= 160 {
						set[s] = true
					}
				}
				return true
			})
		}
		for s := range set {
			out[fam] = append(out[fam], s)
		}
		sort.Strings(out[fam])
	}
	return out
}

var substBytes = [][]byte{{0}, {0xFF}, {0xE2}, {0xF0, 0x9F}, {'\\'}, {'\n'}, {'"'}, {'/'}, {'<'}, {'{'}, {'`'}}

// Harvest: the repository's own test literals, each also truncated and with single substitutions.
func Harvest(args []string) {
	fs := flag.NewFlagSet("lexers harvest", flag.ExitOnError)
	out := fs.String("out", "", "trace file")
	repo := fs.String("repo", reg.Repo(), "repository")
	seed := fs.Int64("seed", 1, "seed")
	per := fs.Int("per", 200, "literals per family (sampled by seed)")
	muts := fs.Int("muts", 6, "mutations per literal")
	fs.Parse(args)
	wd.Start(*out+".hang", 30*time.Second)
	rng := rand.New(rand.NewSource(*seed))
	w := tr.NewWriter(*out)
	sum := summary{Suite: "lexers", Mode: "harvest"}
	seen := map[string]bool{}
	tid := 0
	lits := harvest(*repo)
	for _, fam := range []string{"css", "html", "xml", "json", "js"} {
		ls := lits[fam]
		rng.Shuffle(len(ls), func(i, j int) { ls[i], ls[j] = ls[j], ls[i] })
		if len(ls) > *per {
			ls = ls[:*per]
		}
		for _, s := range ls {
			sum.Cases++
			inputs := [][]byte{[]byte(s)}
			for m := 0; m < *muts; m++ {
				b := []byte(s)
				switch rng.Intn(3) {
				case 0:
					b = b[:rng.Intn(len(b))]
				case 1:
					i := rng.Intn(len(b))
					b = append(append(append([]byte{}, b[:i]...), substBytes[rng.Intn(len(substBytes))]...), b[i+1:]...)
				default:
					i := rng.Intn(len(b) + 1)
					b = append(append(append([]byte{}, b[:i]...), substBytes[rng.Intn(len(substBytes))]...), b[i:]...)
				}
				inputs = append(inputs, b)
			}
			for k, in := range inputs {
				runAll(w, &sum, &tid, familyLangs[fam], in, tr.E{"harvest": k}, seen)
			}
			if len(sum.Samples) < 3 {
				sum.Samples = append(sum.Samples, map[string]interface{}{"fam": fam, "literal": s})
			}
		}
	}
	w.Close()
	sum.Traces, sum.Events = w.Traces, w.Events
	json.NewEncoder(os.Stdout).Encode(sum)
}

// File: run the inputs of an ndjson file {lang, input:[bytes]} (used by rerun/--replay and by other suites).
func File(args []string) {
	fs := flag.NewFlagSet("lexers file", flag.ExitOnError)
	in := fs.String("in", "", "ndjson {lang, input}")
	out := fs.String("out", "", "trace file")
	family := fs.Bool("family", false, "run every entry point of the language's family, not only the named one")
	fs.Parse(args)
	wd.Start(*out+".hang", 30*time.Second)
	w := tr.NewWriter(*out)
	sum := summary{Suite: "lexers", Mode: "file"}
	seen := map[string]bool{}
	tid := 0
	err := tr.ReadCases(*in, func(line int, raw []byte) {
		var c struct {
			Lang  string `json:"lang"`
			Input []int  `json:"input"`
		}
		if err := json.Unmarshal(raw, &c); err != nil {
			fmt.Fprintln(os.Stderr, "bad case", err)
			os.Exit(2)
		}
		b := make([]byte, len(c.Input))
		for i, v := range c.Input {
			b[i] = byte(v)
		}
		sum.Cases++
		langs := []string{c.Lang}
		if *family {
			fam := ""
			if L := langByName(c.Lang); L != nil {
				fam = L.Family
			} else if strings.HasPrefix(c.Lang, "js.") {
				fam = "js"
			}
			if fam == "html" && c.Lang != "html" {
				langs = []string{c.Lang, "html"} // a template document: its own dialect and the plain lexer
			} else if fam == "html" {
				langs = []string{"html", familyLangs["html"][1+sum.Cases%6]} // the plain lexer and one dialect in turn
			} else if fl, ok := familyLangs[fam]; ok {
				langs = fl
			}
		}
		if len(sum.Samples) < 2 && len(b) > 8 {
			sum.Samples = append(sum.Samples, map[string]interface{}{"lang": c.Lang, "input": string(b)})
		}
		runAll(w, &sum, &tid, langs, b, nil, seen)
	})
	if err != nil {
		fmt.Fprintln(os.Stderr, err)
		os.Exit(2)
	}
	w.Close()
	sum.Traces, sum.Events = w.Traces, w.Events
	json.NewEncoder(os.Stdout).Encode(sum)
}

// Nest: one deep-nesting input (family of construct x depth x variant) through one entry point, in this process.
// A fatal stack overflow kills the process: the caller (checks/C01.py) turns that into an event with out:"fatal".
func Nest(args []string) {
	fs := flag.NewFlagSet("lexers nest", flag.ExitOnError)
	lang := fs.String("lang", "", "entry point")
	pre := fs.String("pre", "", "text before the openers")
	post := fs.String("post", "", "text after the closers")
	opener := fs.String("open", "", "text repeated depth times")
	mid := fs.String("mid", "", "text in the middle")
	closer := fs.String("close", "", "text repeated depth times after mid")
	depth := fs.Int("depth", 10, "nesting depth")
	variant := fs.String("variant", "closed", "closed | open (openers only) | half (half of the closers)")
	out := fs.String("out", "", "trace file")
	maxstack := fs.Int("maxstack", 0, "debug.SetMaxStack in MB (0: default 1 GB)")
	tidf := fs.Int("tid", 1, "trace id")
	fs.Parse(args)
	if *maxstack > 0 {
		debug.SetMaxStack(*maxstack << 20)
	}
	var b []byte
	b = append(b, *pre...)
	b = append(b, strings.Repeat(*opener, *depth)...)
	switch *variant {
	case "closed":
		b = append(b, *mid...)
		b = append(b, strings.Repeat(*closer, *depth)...)
	case "half":
		b = append(b, *mid...)
		b = append(b, strings.Repeat(*closer, *depth/2)...)
	}
	if *variant == "closed" {
		b = append(b, *post...)
	}
	w := tr.NewWriter(*out)
	sum := summary{Suite: "lexers", Mode: "nest"}
	gen := tr.E{"nest": map[string]interface{}{"pre": *pre, "post": *post, "open": *opener, "mid": *mid, "close": *closer, "depth": *depth, "variant": *variant}}
	tid := *tidf
	w.Begin(tid)
	if strings.HasPrefix(*lang, "js.parse") {
		for _, o := range jsOpts {
			if *lang == fmt.Sprintf("js.parse.%d.%d", b2i(o.WhileToFor), b2i(o.Inline)) {
				parseOne(w, b, o, false, gen)
			}
		}
	} else {
		L := langByName(*lang)
		if L == nil {
			fmt.Fprintln(os.Stderr, "unknown lang", *lang)
			os.Exit(2)
		}
		// only the protocol matters here: drop per-token details by recording every call but keeping the trace compact
		runOneOpt(w, L, b, false, gen, true)
		renumber(w)
	}
	sum.Executions = 1
	w.End(true)
	w.Close()
	sum.Traces, sum.Events = w.Traces, w.Events
	json.NewEncoder(os.Stdout).Encode(sum)
}

// fold keeps the Open event, the first 3 and the last 8 Next events of a long trace and merges everything in between
// into one Bulk event (count, all returned, all within bounds), so that 10^6-call traces stay small. It is called
// while the trace is being recorded.
func fold(w *tr.Writer) {
	buf := w.Buf()
	if len(buf) <= 48 {
		return
	}
	head, tail := buf[:4], buf[len(buf)-8:]
	midl := buf[4 : len(buf)-8]
	bulk := tr.E{"t": head[0]["t"], "i": 4, "ev": "Bulk", "out": "ret", "count": 0, "allret": true, "oob": false, "maxoff": 0, "errs": 0}
	for _, e := range midl {
		if e["ev"] == "Bulk" {
			bulk["count"] = bulk["count"].(int) + e["count"].(int)
			bulk["allret"] = bulk["allret"].(bool) && e["allret"].(bool)
			bulk["oob"] = bulk["oob"].(bool) || e["oob"].(bool)
			bulk["errs"] = bulk["errs"].(int) + e["errs"].(int)
			if o := e["maxoff"].(int); o > bulk["maxoff"].(int) {
				bulk["maxoff"] = o
			}
			continue
		}
		bulk["count"] = bulk["count"].(int) + 1
		if e["out"] != "ret" {
			bulk["allret"] = false
		}
		if e["oob"] == true {
			bulk["oob"] = true
		}
		if o, _ := e["off"].(int); o > bulk["maxoff"].(int) {
			bulk["maxoff"] = o
		}
		if e["err"] == true {
			bulk["errs"] = bulk["errs"].(int) + 1
		}
	}
	nb := append(append(append(make([]tr.E, 0, 64), head...), bulk), tail...)
	w.SetBuf(nb)
}

// renumber gives the events of the trace consecutive sequence numbers after folding.
func renumber(w *tr.Writer) {
	for i, e := range w.Buf() {
		e["i"] = i
	}
}

func init() {
	reg.Register("lexers", "classes", Classes)
	reg.Register("lexers", "harvest", Harvest)
	reg.Register("lexers", "file", File)
	reg.Register("lexers", "nest", Nest)
}

// HarvestLiterals exposes the string literals of the repository's test files per package (css, html, xml, json, js).
func HarvestLiterals(repo string) map[string][]string { return harvest(repo) }

// Concretise spells a sequence of character classes (exported for other suites).
func Concretise(cls []string, rng *rand.Rand) []byte { return concretise(cls, rng) }
