package lexers

import (
	"bytes"
	"fmt"
	"io"
	"strings"
	"unsafe"

	"github.com/tdewolff/parse/v2"
	"github.com/tdewolff/parse/v2/js"

	"verif/harness/internal/tr"
)

// Tok is one observed token (exported for the grammar suites).
type Tok struct {
	Kind  int
	KName string
	IsErr bool
	Err   string
	Text  []byte
	Subs  map[string][]byte
	Tmpl  bool
	State string
}

// RunTokens lexes input with the named entry point until the first error report and returns the tokens
// (the error report is the last element). Panics propagate to the caller.
func RunTokens(lang string, input []byte) []Tok {
	L := langByName(lang)
	if L == nil {
		panic("unknown lang " + lang)
	}
	in := parse.NewInputBytes(append(make([]byte, 0, len(input)+1), input...))
	st := L.open(in)
	var out []Tok
	for i := 0; i < 4*len(input)+32; i++ {
		r := st.next()
		t := Tok{Kind: r.kind, KName: r.kname, IsErr: r.isErr, Text: append([]byte{}, r.data...), Tmpl: r.tmpl, State: r.state}
		if r.err != nil {
			t.Err = r.err.Error()
		}
		if r.subs != nil {
			t.Subs = map[string][]byte{}
			for k, v := range r.subs {
				t.Subs[k] = append([]byte{}, v...)
			}
		}
		out = append(out, t)
		if r.isErr {
			break
		}
	}
	return out
}

func isWS(c byte) bool { return c == ' ' || c == '\t' || c == '\n' || c == '\r' || c == '\f' }

func setList(m map[string]bool) []string {
	out := []string{}
	for _, k := range []string{"ws", "lower", "ws2sp", "other"} {
		if m[k] {
			out = append(out, k)
		}
	}
	return out
}

// runOne drives one input through one entry point and records the trace. extra: further calls after the end was seen.
// Returns (number of calls, number of non-error reports, whether the end report was reached).
func runOne(w *tr.Writer, L *Lang, input []byte, logInput bool, gen tr.E) (calls, units int, ended bool) {
	return runOneOpt(w, L, input, logInput, gen, false)
}

// runOneOpt: with folding, long traces are compacted while they are recorded (see fold).
func runOneOpt(w *tr.Writer, L *Lang, input []byte, logInput bool, gen tr.E, folding bool) (calls, units int, ended bool) {
	n := len(input)
	back := make([]byte, n, n+9)
	copy(back, input)
	for i := n; i < cap(back); i++ {
		back[:cap(back)][i] = 0xAA
	}
	in := parse.NewInputBytes(back)
	var base unsafe.Pointer
	if n > 0 {
		base = unsafe.Pointer(&back[0])
	}
	open := tr.E{"lang": L.Name, "family": L.Family, "len": n, "tokenLvl": L.TokenLvl, "concat": L.Concat}
	if logInput {
		open["input"] = tr.Ints(input)
	}
	for k, v := range gen {
		open[k] = v
	}
	w.Ev("Open", open)
	st := L.open(in)
	budget := 4*n + 16
	var lastKey string
	lastErr := false
	after := -1 // calls still to make after the end report was seen twice
	seenErr := false
	for calls = 0; calls < budget+8; calls++ {
		ev := tr.E{}
		var r report
		panicked := func() (p bool) {
			defer func() {
				if x := recover(); x != nil {
					ev["out"] = "panic"
					ev["panic"] = fmt.Sprint(x)
					p = true
				}
			}()
			r = st.next()
			return false
		}()
		if panicked {
			w.Ev("Next", ev)
			return calls + 1, units, false
		}
		off := in.Offset()
		etext := ""
		if r.err != nil {
			etext = r.err.Error()
		}
		al, lo, hi := where(r.data, base, n+1)
		oob := al && hi > n
		for _, o := range r.others {
			if a, _, h := where(o, base, n+1); a && h > n {
				oob = true
			}
		}
		subsIn := true
		for _, s := range r.subs {
			if len(s) == 0 {
				continue
			}
			a, sl, sh := where(s, base, n+1)
			if a && sh > n {
				oob = true
			}
			if !(a && al && sl >= lo && sh <= hi) {
				subsIn = false
			}
		}
		ev["kind"], ev["kname"], ev["err"], ev["etext"], ev["eof"] = r.kind, r.kname, r.isErr, etext, r.err == io.EOF
		ev["n"], ev["al"], ev["lo"], ev["hi"], ev["oob"], ev["off"] = len(r.data), al, lo, hi, oob, off
		ev["capEq"] = cap(r.data) == len(r.data)
		ev["subsIn"] = subsIn
		if r.state != "" {
			ev["state"] = r.state
		}
		if L.TokenLvl && al && hi <= n {
			// edits: where the token differs from the pristine input
			ed := map[string]bool{}
			vlo, vhi := -1, -1
			if v, ok := r.subs["val"]; ok && len(v) > 0 {
				if a, l2, h2 := where(v, base, n+1); a {
					vlo, vhi = l2, h2
				}
			}
			inVal := func(i int) bool { return i >= vlo && i < vhi }
			for i := lo; i < hi; i++ {
				a, b := input[i], r.data[i-lo]
				switch {
				case a == b:
				case a >= 'A' && a <= 'Z' && b == a+('a'-'A'):
					if inVal(i) {
						ed["other"] = true // case changed inside an attribute value
					} else {
						ed["lower"] = true
					}
				case (a == '\t' || a == '\n' || a == '\r') && b == ' ':
					if inVal(i) {
						ed["ws2sp"] = true
					} else {
						ed["other"] = true // white space rewritten outside the attribute value (e.g. around '=')
					}
				default:
					ed["other"] = true
				}
			}
			ev["edits"] = setList(ed)
			if L.Concat && !seenErr && !r.isErr && L.relex != nil {
				ev["relex"] = L.relex(r.kind, r.data)
			}
		}
		if L.TokenLvl {
			ev["tmpl"] = r.tmpl
		}
		key := fmt.Sprint(r.kind, "|", etext, "|", off, "|", len(r.data))
		ev["same"] = r.isErr && lastErr && key == lastKey // identical to the previous report
		w.Ev("Next", ev)
		if folding {
			fold(w)
		}
		if !r.isErr {
			units++
		}
		seenErr = seenErr || r.isErr
		if after >= 0 {
			after--
			if after < 0 {
				return calls + 1, units, true
			}
		} else if r.isErr && lastErr && key == lastKey {
			ended = true
			after = 2
		}
		lastKey, lastErr = key, r.isErr
	}
	return calls, units, ended
}

// gapsFor computes, for token-level traces, the classes of the bytes between consecutive tokens. It is done on
// the recorded events afterwards (the driver above must not depend on token order being sane).
func annotateGaps(evs []tr.E, input []byte) {
	end := 0
	for _, e := range evs {
		if e["ev"] != "Next" || e["al"] != true {
			continue
		}
		lo, hi := e["lo"].(int), e["hi"].(int)
		g := map[string]bool{}
		for i := end; i < lo && i < len(input); i++ {
			if isWS(input[i]) {
				g["ws"] = true
			} else {
				g["other"] = true
			}
		}
		e["gap"] = setList(g)
		if hi > end {
			end = hi
		}
	}
}

// parseOne runs js.Parse and the AST methods; one event per stage.
func parseOne(w *tr.Writer, input []byte, o js.Options, logInput bool, gen tr.E) (ok bool) {
	open := tr.E{"lang": fmt.Sprintf("js.parse.%v.%v", b2i(o.WhileToFor), b2i(o.Inline)), "family": "js", "len": len(input), "tokenLvl": false, "concat": false}
	if logInput {
		open["input"] = tr.Ints(input)
	}
	for k, v := range gen {
		open[k] = v
	}
	w.Ev("Open", open)
	var ast *js.AST
	stage := func(name string, f func(ev tr.E)) bool {
		ev := tr.E{}
		defer func() {
			if x := recover(); x != nil {
				ev["out"] = "panic"
				ev["panic"] = strings.SplitN(fmt.Sprint(x), "\n", 2)[0]
			}
			w.Ev(name, ev)
		}()
		f(ev)
		return true
	}
	stage("Parse", func(ev tr.E) {
		a, err := js.Parse(parse.NewInputBytes(append(make([]byte, 0, len(input)+1), input...)), o)
		ev["ok"] = err == nil
		ev["tree"] = a != nil && err == nil
		if err != nil {
			ev["etext"] = firstLine(err.Error())
		}
		if err == nil {
			ast = a
		}
	})
	if ast == nil {
		return false
	}
	stage("String", func(ev tr.E) { ev["n"] = len(ast.String()) })
	stage("JS", func(ev tr.E) {
		var b bytes.Buffer
		ast.JS(&b)
		ev["n"] = b.Len()
	})
	stage("Walk", func(ev tr.E) {
		c := &counter{}
		js.Walk(c, ast)
		ev["n"] = c.n
	})
	stage("JSON", func(ev tr.E) {
		var b bytes.Buffer
		err := ast.JSON(&b)
		ev["n"] = b.Len()
		ev["jerr"] = err != nil
	})
	return true
}

type counter struct{ n int }

func (c *counter) Enter(n js.INode) js.IVisitor { c.n++; return c }
func (c *counter) Exit(n js.INode)              {}

func b2i(b bool) int {
	if b {
		return 1
	}
	return 0
}

func firstLine(s string) string {
	if i := strings.IndexByte(s, '\n'); i >= 0 {
		s = s[:i]
	}
	if len(s) > 120 {
		s = s[:120]
	}
	return s
}
