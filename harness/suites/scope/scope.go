// Package scope drives js.Parse for property C04. Programs come from spec/js/ScopeSem.tla together with the binding every
// identifier occurrence denotes under ECMAScript scoping. The harness spells a program, parses it, gives every declared
// Var a fresh name, prints the tree and reads the identifiers of the printed text in order: occurrences that share a Var
// now share a name. That observed partition, the same after re-parsing the renamed text, and Var.Uses against the number
// of printed occurrences are logged for spec/js/ScopeTrace.tla to judge.
package scope

import (
	"bytes"
	"encoding/json"
	"flag"
	"fmt"
	"os"
	"reflect"
	"regexp"
	"strings"

	"github.com/tdewolff/parse/v2"
	"github.com/tdewolff/parse/v2/js"

	"verif/harness/internal/reg"
	"verif/harness/internal/tr"
)

type param struct {
	N string `json:"n"`
	D string `json:"d"`
}
type item struct {
	K  string  `json:"k"`
	D  string  `json:"d"`
	N  string  `json:"n"`
	S  string  `json:"s"`
	A  string  `json:"a"`
	B  string  `json:"b"`
	Eq bool    `json:"eq"`
	Ps []param `json:"ps"`
	C  string  `json:"c"`
}
type occ struct {
	N string        `json:"n"`
	B []interface{} `json:"b"`
}
type tcase struct {
	Prog    []item `json:"prog"`
	Verdict string `json:"verdict"`
	Occ     []occ  `json:"occ"`
}

// blockSpellings: statements whose braces form a plain block scope (ECMA-262: Block, CaseBlock, the blocks of if / try /
// finally / do-while / while, a catch clause without a parameter). ScopeSem.tla's "blk" stands for all of them; which one is
// written is chosen per program and block (SpellV), so that every spelling occurs throughout the enumerated programs.
var blockSpellings = [][2]string{{"{", "}"}, {"switch(0){case 0:", "}"}, {"if(0){", "}"}, {"try{", "}finally{}"}, {"do{", "}while(0);"},
	{"switch(0){default:", "}"}, {"if(0);else{", "}"}, {"try{}finally{", "}"}, {"while(0){", "}"}, {"try{}catch{", "}"}, {"{", "}"}}

// shorthandUse: the use item at index ii of its program is spelled `({n});` (every fourth one, rotating with the program) or `[{n}];`
func shorthandUse(v, ii int) bool { return v >= 0 && ((v+ii)%4 == 3 || (v+ii)%8 == 1) }

// shorthandBare: that shorthand property stands in an object literal that is NOT directly inside parentheses: `[{n}];`
func shorthandBare(v, ii int) bool { return v >= 0 && (v+ii)%8 == 1 }

// expectedKeys: the property keys the renamed program must still show: one per shorthand-spelled use that denotes a declared
// binding (`({a})` becomes `({a: v1_})`; a name bound nowhere keeps its name and stays `({a})`).
func expectedKeys(c *tcase, v int) []string {
	keys := []string{}
	n := 0
	for ii, it := range c.Prog {
		switch it.K {
		case "decl":
			n++
		case "use":
			if shorthandUse(v, ii) && n < len(c.Occ) {
				if sc, _ := c.Occ[n].B[0].(float64); int(sc) != -99999 {
					keys = append(keys, it.N)
				}
			}
			n++
		case "grp":
			n += 2
		case "open":
			if it.N != "" {
				n++
			}
			if it.S == "fn" || it.S == "fx" || it.S == "ar" {
				for _, p := range it.Ps {
					n++
					if p.D != "" {
						n++
					}
				}
			}
			if it.C != "" {
				n++
			}
		}
	}
	return keys
}

// Spell writes the program as JavaScript (every block as a plain block).
func Spell(prog []item) string { return SpellV(prog, -1) }

// SpellV writes the program as JavaScript; v >= 0 selects the spelling of block k as blockSpellings[(v+k) % n].
func SpellV(prog []item, v int) string { return spellPad(prog, v, 0) }

// padNames: the pad further names q0 ... q(pad-1)
func padNames(pad int) []string {
	out := make([]string, pad)
	for i := range out {
		out[i] = fmt.Sprintf("q%d", i)
	}
	return out
}

// spellPad writes the program like SpellV; with pad > 0 the program is preceded by `let q0,...;` and the FIRST parameter
// default `n=d` is written `n=[d,q0,...]`: pad unrelated names more are used in that default (nothing else changes, so the
// binding of every other occurrence is what ScopeSem.tla computed: the bookkeeping of the parser counts uses and declarations
// per scope in narrow fields, and the interesting counts are those around their widths).
func spellPad(prog []item, v int, pad int) string {
	var b strings.Builder
	var closers []string
	nblk := 0
	padded := pad == 0
	if pad > 0 {
		b.WriteString("let " + strings.Join(padNames(pad), ",") + ";")
	}
	for ii, it := range prog {
		switch it.K {
		case "decl":
			if it.D == "const" {
				b.WriteString("const " + it.N + "=0;")
			} else {
				b.WriteString(it.D + " " + it.N + ";")
			}
		case "use":
			if shorthandBare(v, ii) {
				b.WriteString("[{" + it.N + "}];")
			} else if shorthandUse(v, ii) {
				b.WriteString("({" + it.N + "});") // the use as a shorthand property: key and value written once
			} else {
				b.WriteString(it.N + ";")
			}
		case "grp":
			if it.Eq {
				b.WriteString("(" + it.A + "=" + it.B + ");")
			} else {
				b.WriteString("(" + it.A + "," + it.B + ");")
			}
		case "open":
			var ps []string
			for q, p := range it.Ps {
				if p.D != "" {
					// the default as a plain name, or (same scoping) parameter and default wrapped in an array / object pattern
					// and literal: `[n]=[d]`, `{0:n}={0:d}`
					switch {
					case !padded:
						padded = true
						ps = append(ps, p.N+"=["+p.D+","+strings.Join(padNames(pad), ",")+"]")
					case v >= 0 && (v+q+nblk)%4 == 1:
						ps = append(ps, "["+p.N+"]=["+p.D+"]")
					case v >= 0 && (v+q+nblk)%4 == 3:
						ps = append(ps, "{0:"+p.N+"}={0:"+p.D+"}")
					default:
						ps = append(ps, p.N+"="+p.D)
					}
				} else if v >= 0 && q == len(it.Ps)-1 && (v+q)%3 == 0 {
					ps = append(ps, "..."+p.N) // the last parameter as a rest parameter: same scoping
				} else {
					ps = append(ps, p.N)
				}
			}
			pl := strings.Join(ps, ",")
			switch it.S {
			case "fn":
				b.WriteString("function " + it.N + "(" + pl + "){")
				closers = append(closers, "}")
			case "fx":
				if it.N == "" && v >= 0 && (v+nblk)%3 == 1 {
					// an unnamed function expression as the method of an object literal written directly in parentheses
					b.WriteString("({m(" + pl + "){")
					closers = append(closers, "}});")
				} else {
					b.WriteString("(function " + it.N + "(" + pl + "){")
					closers = append(closers, "});")
				}
			case "ar":
				// four spellings: the arrow function as a parenthesised or a bare expression statement, a single plain parameter
				// with or without its parentheses (then it is recognised as a parameter only at '=>')
				bare := v >= 0 && len(it.Ps) == 1 && it.Ps[0].D == "" && !strings.HasPrefix(pl, "...") && (v+nblk)%2 == 0
				stmt := v >= 0 && ((v+nblk)/2)%2 == 0
				head, tail := "((", "});"
				if stmt {
					head, tail = "(", "};"
				}
				if bare {
					b.WriteString(head[1:] + pl + "=>{")
				} else {
					b.WriteString(head + pl + ")=>{")
				}
				nblk++
				closers = append(closers, tail)
			case "blk":
				sp := blockSpellings[0]
				if v >= 0 {
					sp = blockSpellings[(v+nblk)%len(blockSpellings)]
				}
				nblk++
				b.WriteString(sp[0])
				closers = append(closers, sp[1])
			case "forlet", "forvar": // with an expression after the declaration also as for-in / for-of (same scoping of both names)
				kw := map[string]string{"forlet": "let ", "forvar": "var "}[it.S]
				switch {
				case it.C != "" && v >= 0 && (v+nblk)%3 == 1:
					b.WriteString("for(" + kw + it.N + " in " + it.C + "){")
				case it.C != "" && v >= 0 && (v+nblk)%3 == 2:
					b.WriteString("for(" + kw + it.N + " of " + it.C + "){")
				default:
					b.WriteString("for(" + kw + it.N + ";" + it.C + ";){")
				}
				nblk++
				closers = append(closers, "}")
			case "forx": // no declaration in the head: the target and the iterated expression are uses
				if v >= 0 && (v+nblk)%2 == 1 {
					b.WriteString("for(" + it.N + " of " + it.C + "){")
				} else {
					b.WriteString("for(" + it.N + " in " + it.C + "){")
				}
				nblk++
				closers = append(closers, "}")
			case "catch":
				b.WriteString("try{}catch(" + it.N + "){")
				closers = append(closers, "}")
			case "cls": // the class body's function boundary: a method, or (every other time) a static initialisation block
				if v >= 0 && (v+nblk)%2 == 1 {
					b.WriteString("class " + it.N + "{static{")
				} else {
					b.WriteString("class " + it.N + "{m(){")
				}
				closers = append(closers, "}}")
			case "cx":
				if v >= 0 && (v+nblk)%2 == 1 {
					b.WriteString("(class " + it.N + "{static{")
				} else {
					b.WriteString("(class " + it.N + "{m(){")
				}
				closers = append(closers, "}});")
			}
		case "close":
			b.WriteString(closers[len(closers)-1])
			closers = closers[:len(closers)-1]
		}
	}
	return b.String()
}

// occKinds names the role of every identifier occurrence, in the order ScopeSem.tla's Occ lists them.
func occKinds(prog []item) []string {
	out := []string{}
	for _, it := range prog {
		switch it.K {
		case "decl":
			out = append(out, "decl-"+it.D)
		case "use":
			out = append(out, "use")
		case "grp":
			out = append(out, "use", "use")
		case "open":
			if it.N != "" {
				out = append(out, map[string]string{"fn": "fnname", "fx": "fxname", "cls": "clsname", "cx": "cxname", "forlet": "forlet", "forvar": "forvar", "catch": "catch", "forx": "use"}[it.S])
			}
			if it.S == "fn" || it.S == "fx" || it.S == "ar" {
				for _, p := range it.Ps {
					out = append(out, "param")
					if p.D != "" {
						out = append(out, "default")
					}
				}
			}
			if it.C != "" {
				out = append(out, "use")
			}
		}
	}
	return out
}

// occContexts gives, per identifier occurrence, structural facts used to name a mismatch precisely:
// "forvar-same-name": the occurrence lies in the body of a for(var x;;) loop whose head declares its name;
// "default-same-name": an enclosing function has a parameter default that mentions its name;
// "loopcond-same-name": it lies in the body of a for loop whose condition mentions its name.
func occContexts(prog []item) [][]string {
	out := [][]string{}
	var stack []item
	add := func(name string, self *item) {
		c := []string{}
		for _, sc := range stack {
			if sc.S == "forvar" && sc.N == name {
				c = append(c, "forvar-same-name")
			}
			for _, p := range sc.Ps {
				if p.D == name {
					c = append(c, "default-same-name")
				}
			}
			if (sc.S == "forlet" || sc.S == "forvar" || sc.S == "forx") && (sc.C == name || sc.S == "forx" && sc.N == name) {
				c = append(c, "loopcond-same-name")
			}
		}
		out = append(out, c)
	}
	for i := range prog {
		it := prog[i]
		switch it.K {
		case "decl", "use":
			add(it.N, nil)
		case "grp":
			add(it.A, nil)
			add(it.B, nil)
		case "open":
			if it.N != "" {
				add(it.N, nil)
			}
			if it.S == "fn" || it.S == "fx" || it.S == "ar" {
				for _, p := range it.Ps {
					add(p.N, nil)
					if p.D != "" {
						add(p.D, nil)
					}
				}
			}
			if it.C != "" {
				add(it.C, nil)
			}
			stack = append(stack, it)
		case "close":
			stack = stack[:len(stack)-1]
		}
	}
	return out
}

var tVar = reflect.TypeOf(js.Var{})

// allVars collects every *js.Var reachable from the tree, including the scope tables.
func allVars(ast *js.AST) []*js.Var {
	seen := map[uintptr]bool{}
	var out []*js.Var
	var walk func(v reflect.Value, depth int)
	walk = func(v reflect.Value, depth int) {
		if depth > 2000 {
			return
		}
		switch v.Kind() {
		case reflect.Ptr:
			if v.IsNil() {
				return
			}
			if seen[v.Pointer()] {
				return
			}
			seen[v.Pointer()] = true
			if v.Type().Elem() == tVar {
				out = append(out, v.Interface().(*js.Var))
			}
			walk(v.Elem(), depth+1)
		case reflect.Interface:
			if !v.IsNil() {
				walk(v.Elem(), depth+1)
			}
		case reflect.Struct:
			for i := 0; i < v.NumField(); i++ {
				if v.Type().Field(i).PkgPath == "" {
					walk(v.Field(i), depth+1)
				}
			}
		case reflect.Slice:
			if v.Type().Elem().Kind() == reflect.Uint8 {
				return
			}
			for i := 0; i < v.Len(); i++ {
				walk(v.Index(i), depth+1)
			}
		}
	}
	walk(reflect.ValueOf(ast), 0)
	return out
}

func root(v *js.Var) *js.Var {
	for v.Link != nil {
		v = v.Link
	}
	return v
}

var fresh = regexp.MustCompile(`^v([0-9]+)_$`)

// observe renames every declared Var of ast, prints the tree and returns (printed text, labels of the identifier
// occurrences in order: k>0 for the k-th declared Var, -(name index) for names that stayed as they were, uses pairs).
func observe(ast *js.AST, names []string) (string, []int, [][2]int, []string) {
	roots := []*js.Var{}
	freeUses := map[string]int{} // name -> sum of Uses over the undeclared Vars of that name
	seen := map[*js.Var]bool{}
	for _, v := range allVars(ast) {
		r := root(v)
		if !seen[r] {
			seen[r] = true
			if r.Decl != js.NoDecl {
				roots = append(roots, r)
			} else {
				freeUses[string(r.Data)] += int(r.Uses)
			}
		}
	}
	for k, r := range roots {
		r.Data = []byte(fmt.Sprintf("v%d_", k+1))
	}
	var buf bytes.Buffer
	ast.JS(&buf)
	text := buf.String()
	labels := []int{}
	count := map[int]int{}
	l := js.NewLexer(parse.NewInputString(text))
	type tok struct {
		tt js.TokenType
		d  []byte
	}
	var toks []tok
	for {
		tt, d := l.Next()
		if tt == js.ErrorToken {
			break
		}
		if tt == js.WhitespaceToken || tt == js.LineTerminatorToken {
			continue
		}
		toks = append(toks, tok{tt, append([]byte{}, d...)})
	}
	keys := []string{}
	for ti, t := range toks {
		tt, d := t.tt, t.d
		if tt != js.IdentifierToken || string(d) == "m" {
			continue
		}
		if ti+1 < len(toks) && toks[ti+1].tt == js.ColonToken {
			keys = append(keys, string(d)) // a property key, not an identifier reference
			continue
		}
		if m := fresh.FindSubmatch(d); m != nil {
			k := 0
			fmt.Sscan(string(m[1]), &k)
			labels = append(labels, k)
			count[k]++
			continue
		}
		idx := 0
		for i, n := range names {
			if n == string(d) {
				idx = i + 1
			}
		}
		labels = append(labels, -idx)
		count[-idx]++
	}
	uses := [][2]int{}
	for k, r := range roots {
		uses = append(uses, [2]int{int(r.Uses), count[k+1]})
	}
	// "every Var's Uses": also the undeclared variables, per name (they are one Var of the outermost scope each)
	for i, n := range names {
		if u, ok := freeUses[n]; ok || count[-(i+1)] > 0 {
			uses = append(uses, [2]int{u, count[-(i + 1)]})
		}
	}
	return text, labels, uses, keys
}

type summary struct {
	Suite      string        `json:"suite"`
	Mode       string        `json:"mode"`
	Cases      int           `json:"cases"`
	Executions int           `json:"executions"`
	Traces     int           `json:"traces"`
	Events     int           `json:"events"`
	Nontrivial int           `json:"distinct_nontrivial"`
	Mismatches int           `json:"mismatches"`
	Rejected   int           `json:"expected_rejected"`
	Samples    []interface{} `json:"samples"`
}

var names = []string{"a", "b", "c", "d"}

// runCase executes one generated program; returns whether the observation differs from the expectation (cheap pre-check;
// the verdict is the trace specification's).
// firstDefaultOcc: index (among the identifier occurrences) of the first parameter default of the program, or -1
func firstDefaultOcc(c *tcase) int {
	n := 0
	for _, it := range c.Prog {
		switch it.K {
		case "decl", "use":
			n++
		case "grp":
			n += 2
		case "open":
			if it.N != "" {
				n++
			}
			if it.S == "fn" || it.S == "fx" || it.S == "ar" {
				for _, p := range it.Ps {
					n++
					if p.D != "" {
						return n
					}
				}
			}
			if it.C != "" {
				n++
			}
		}
	}
	return -1
}

func runCase(w *tr.Writer, c *tcase, src string, opts js.Options, v int, pad int) bool {
	xkeys := expectedKeys(c, v)
	// expectation: canonical labels of the bindings in source order
	exp := []int{}
	ids := map[string]int{}
	for _, o := range c.Occ {
		sc, _ := o.B[0].(float64)
		if int(sc) == -99999 {
			idx := 0
			for i, n := range names {
				if n == o.N {
					idx = i + 1
				}
			}
			exp = append(exp, -idx)
			continue
		}
		key := fmt.Sprint(o.B)
		if _, ok := ids[key]; !ok {
			ids[key] = len(ids) + 1
		}
		exp = append(exp, ids[key])
	}
	kinds := []string{}
	if c.Verdict == "accepted" {
		kinds = occKinds(c.Prog)
	}
	onames := []string{}
	for _, o := range c.Occ {
		onames = append(onames, o.N)
	}
	if pad > 0 {
		// the padded spelling: pad declarations in front, pad uses behind the first default
		d := firstDefaultOcc(c)
		top := 0
		for _, x := range exp {
			if x > top {
				top = x
			}
		}
		extra := make([]int, pad)
		for i := range extra {
			extra[i] = top + 1 + i
		}
		padded := append([]int{}, extra...)
		padded = append(padded, exp[:d+1]...)
		padded = append(padded, extra...)
		padded = append(padded, exp[d+1:]...)
		exp, kinds, onames = padded, []string{}, []string{}
	}
	w.Ev("Open", tr.E{"src": tr.Ints([]byte(src)), "verdict": c.Verdict, "exp": exp, "kinds": kinds, "names": onames, "ctx": occContexts(c.Prog)})
	differs := false
	ev := tr.E{}
	var ast *js.AST
	func() {
		defer func() {
			if x := recover(); x != nil {
				ev["out"], ev["panic"] = "panic", fmt.Sprint(x)
			}
		}()
		a, err := js.Parse(parse.NewInputString(src), opts)
		ev["ok"] = err == nil
		ev["w2f"] = opts.WhileToFor
		if err == nil {
			ast = a
		} else {
			ev["etext"] = strings.SplitN(err.Error(), "\n", 2)[0]
		}
	}()
	w.Ev("Parse", ev)
	if (c.Verdict == "accepted") != (ev["ok"] == true) {
		differs = true
	}
	if ast == nil {
		return differs
	}
	ev2 := tr.E{}
	var text string
	func() {
		defer func() {
			if x := recover(); x != nil {
				ev2["out"], ev2["panic"] = "panic", fmt.Sprint(x)
			}
		}()
		t, labels, uses, keys := observe(ast, names)
		text = t
		ev2["obs"], ev2["uses"], ev2["keys"], ev2["xkeys"] = labels, uses, keys, xkeys
		if !iso(exp, labels) || fmt.Sprint(keys) != fmt.Sprint(xkeys) {
			differs = true
		}
		for _, u := range uses {
			if u[0] != u[1] {
				differs = true
			}
		}
	}()
	w.Ev("Vars", ev2)
	if ev2["out"] == "panic" {
		return true
	}
	// alpha-equivalence: the renamed text parses, and resolves the same way
	ev3 := tr.E{"text": tr.Ints([]byte(text))}
	func() {
		defer func() {
			if x := recover(); x != nil {
				ev3["out"], ev3["panic"] = "panic", fmt.Sprint(x)
			}
		}()
		a2, err := js.Parse(parse.NewInputString(text), opts)
		ev3["ok"] = err == nil
		if err != nil {
			differs = true
			ev3["obs"] = []int{}
			return
		}
		_, labels2, _, _ := observe(a2, append([]string{}, names...))
		// names that stayed free keep their index; fresh names of the first round are now ordinary declared names
		ev3["obs"] = labels2
		if !iso(exp, labels2) {
			differs = true
		}
	}()
	w.Ev("Reparse", ev3)
	return differs
}

// iso: same length, same equalities, and negative (free) labels equal as numbers
func iso(a, b []int) bool {
	if len(a) != len(b) {
		return false
	}
	for i := range a {
		if (a[i] < 0) != (b[i] < 0) || (a[i] < 0 && a[i] != b[i]) {
			return false
		}
		for j := 0; j < i; j++ {
			if (a[i] == a[j]) != (b[i] == b[j]) {
				return false
			}
		}
	}
	return true
}

func Replay(args []string) {
	fs := flag.NewFlagSet("scope replay", flag.ExitOnError)
	cases := fs.String("cases", "", "ndjson from ScopeSem.tla")
	out := fs.String("out", "", "trace file")
	sample := fs.Int("sample", 50, "keep the trace of every n-th agreeing case (all differing ones are kept)")
	inputs := fs.String("inputs", "", "also write the accepted programs as ndjson {input:[bytes]} (for the Walk and printer suites)")
	c03 := fs.String("c03", "", "also write every program as ndjson {src, kind: parses|reject, why} for `jsgram file` (C03: accepted / rejected under every Options value)")
	fs.Parse(args)
	w := tr.NewWriter(*out)
	sum := summary{Suite: "scope", Mode: "replay"}
	seen := map[string]bool{}
	var inw *os.File
	if *inputs != "" {
		inw, _ = os.Create(*inputs)
		defer inw.Close()
	}
	var c03w *os.File
	if *c03 != "" {
		c03w, _ = os.Create(*c03)
		defer c03w.Close()
	}
	tid := 0
	err := tr.ReadCases(*cases, func(line int, raw []byte) {
		var c tcase
		if err := json.Unmarshal(raw, &c); err != nil {
			fmt.Fprintln(os.Stderr, "bad case", err)
			os.Exit(2)
		}
		src := SpellV(c.Prog, line)
		if seen[src] {
			return
		}
		seen[src] = true
		if c03w != nil {
			kind, why := "parses", "scope-program"
			if c.Verdict == "rejected" {
				kind, why = "reject", "lexical-name-declared-twice-in-a-scope"
			}
			b, _ := json.Marshal(map[string]interface{}{"src": tr.Ints([]byte(src)), "kind": kind, "why": why})
			c03w.Write(append(b, '\n'))
		}
		sum.Cases++
		sum.Executions++
		tid++
		w.Begin(tid)
		// the scoping of the tree does not depend on Options: every other program is parsed with WhileToFor
		d := runCase(w, &c, src, js.Options{WhileToFor: (line/len(blockSpellings))%2 == 1}, line, 0)
		if d {
			sum.Mismatches++
		}
		if c.Verdict == "rejected" {
			sum.Rejected++
		} else {
			if inw != nil && tid%7 == 0 {
				b, _ := json.Marshal(map[string]interface{}{"input": tr.Ints([]byte(src))})
				inw.Write(append(b, '\n'))
			}
			k := map[int]bool{}
			for _, o := range c.Occ {
				k[int(o.B[0].(float64))] = true
			}
			if len(k) >= 2 {
				sum.Nontrivial++
			}
		}
		if len(sum.Samples) < 3 && len(c.Prog) >= 4 {
			sum.Samples = append(sum.Samples, map[string]interface{}{"src": src, "verdict": c.Verdict, "occ": c.Occ})
		}
		w.End(d || tid%*sample == 0)
		// counts around the width of the parser's per-scope marks: every 61st accepted program with a parameter default is run
		// once more with 254 ... 257 further names used in that default
		if c.Verdict == "accepted" && !d && line%61 == 0 && firstDefaultOcc(&c) >= 0 { // (only programs that agree unpadded)
			pad := []int{254, 255, 256, 257}[(line/61)%4]
			tid++
			sum.Executions++
			w.Begin(tid)
			dp := runCase(w, &c, spellPad(c.Prog, line, pad), js.Options{}, line, pad)
			if dp {
				sum.Mismatches++
			}
			w.End(dp || tid%*sample == 0)
		}
	})
	if err != nil {
		fmt.Fprintln(os.Stderr, err)
		os.Exit(2)
	}
	w.Close()
	sum.Traces, sum.Events = w.Traces, w.Events
	json.NewEncoder(os.Stdout).Encode(sum)
}

func init() {
	reg.Register("scope", "replay", Replay)
}

// Src: print what the tree says about the programs given as arguments (debugging aid).
func Src(args []string) {
	for _, s := range args {
		ast, err := js.Parse(parse.NewInputString(s), js.Options{})
		if err != nil {
			fmt.Printf("%s\n  ERR %v\n", s, strings.SplitN(err.Error(), "\n", 2)[0])
			continue
		}
		text, labels, uses, keys := observe(ast, names)
		fmt.Printf("%s\n  %s\n  labels=%v uses=%v keys=%v\n", s, text, labels, uses, keys)
	}
}

func init() { reg.Register("scope", "src", Src) }
