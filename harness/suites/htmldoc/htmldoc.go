package htmldoc

import (
	"bytes"
	"encoding/json"
	"flag"
	"fmt"
	"hash/fnv"
	"math/rand"
	"os"
	"sort"
	"strings"

	"verif/harness/internal/reg"
	"verif/harness/internal/tr"
	"verif/harness/suites/lexers"
)

// expTok is one expected token as emitted by spec/html/HtmlDoc.tla (atom indices are 1-based, inclusive).
type expTok struct {
	K    string `json:"k"`
	Lbl  string `json:"lbl"`
	Lo   int    `json:"lo"`
	Hi   int    `json:"hi"`
	Fold int    `json:"fold"`
	Dm   string `json:"dm"`
	Tlo  int    `json:"tlo"`
	Thi  int    `json:"thi"`
	Tm   string `json:"tm"`
	Vlo  int    `json:"vlo"`
	Vhi  int    `json:"vhi"`
	Vm   string `json:"vm"`
	Tp   bool   `json:"tp"`
}

type genCase struct {
	Required *struct {
		Atoms  []string `json:"atoms"`
		Labels []string `json:"labels"`
	} `json:"required,omitempty"`
	Mode  string   `json:"mode"`
	Cs    []string `json:"cs"`
	Atoms []string `json:"atoms"`
	Exp   []expTok `json:"exp"`
}

// doc is a spelled-out case.
type doc struct {
	c      *genCase
	lang   string
	parts  []string // bytes of every atom
	starts []int    // byte offset of every atom (len = atoms+1)
	input  []byte
}

func build(c *genCase, lang string, parts []string) *doc {
	d := &doc{c: c, lang: lang, parts: parts, starts: make([]int, len(parts)+1)}
	for i, p := range parts {
		d.starts[i] = len(d.input)
		d.input = append(d.input, p...)
	}
	d.starts[len(parts)] = len(d.input)
	return d
}

func (d *doc) span(lo, hi int) []byte { // atoms lo..hi (1-based inclusive); empty if hi < lo
	if hi < lo {
		return nil
	}
	return d.input[d.starts[lo-1]:d.starts[hi]]
}

func (d *doc) atomAt(off int) int { // index (0-based) of the atom that contains byte offset off, or -1
	for i := range d.parts {
		if off >= d.starts[i] && off < d.starts[i+1] {
			return i
		}
	}
	return -1
}

func (d *doc) regions() [][]int {
	r := [][]int{}
	for i, a := range d.c.Atoms {
		if strings.HasPrefix(a, "T:") {
			r = append(r, []int{d.starts[i], d.starts[i+1]})
		}
	}
	return r
}

func isWS(c byte) bool { return c == ' ' || c == '\t' || c == '\n' || c == '\r' || c == '\f' }

func lower(b []byte) []byte {
	o := make([]byte, len(b))
	for i, c := range b {
		if c >= 'A' && c <= 'Z' {
			c += 32
		}
		o[i] = c
	}
	return o
}

func ltrim(b []byte) []byte {
	for len(b) > 0 && isWS(b[0]) {
		b = b[1:]
	}
	return b
}

func isNameChar(c byte) bool {
	return c >= 'a' && c <= 'z' || c >= 'A' && c <= 'Z' || c >= '0' && c <= '9' || c == '-' || c == '_' || c >= 0x80
}

// obsTok is an observed token located in the input.
type obsTok struct {
	lexers.Tok
	lo, hi int // [lo, hi) in the input, lo = -1 if it could not be located
}

// locate finds every token in the input: tokens are ordered pieces of the input in which only ASCII case may have
// changed (property C02 judges that separately); bytes between them are skipped.
func locate(input []byte, toks []lexers.Tok) []obsTok {
	low := lower(input)
	out := make([]obsTok, len(toks))
	end := 0
	for i, t := range toks {
		out[i] = obsTok{Tok: t, lo: -1, hi: -1}
		if t.IsErr || len(t.Text) == 0 {
			continue
		}
		if j := bytes.Index(low[end:], lower(t.Text)); j >= 0 {
			out[i].lo = end + j
			out[i].hi = end + j + len(t.Text)
			end = out[i].hi
		}
	}
	return out
}

// tagName: the tag name as the tokenizer's tag name state delimits it (up to whitespace or '/'), if it is a short plain name.
func tagName(text []byte) string {
	n := 0
	for n < len(text) && !isWS(text[n]) && text[n] != '/' {
		n++
	}
	if n == 0 || n > 12 {
		return "?"
	}
	for _, c := range text[:n] {
		if !(c >= 'a' && c <= 'z' || c >= '0' && c <= '9' || c == '-') {
			return "?"
		}
	}
	return string(text[:n])
}

// compare judges observed token t against expected token e; returns (dOK, tOK, vOK, why).
func (d *doc) compare(e *expTok, t *obsTok) (dOK, tOK, vOK bool, why string) {
	E := d.span(e.Lo, e.Hi)
	D := t.Text
	foldLen := 0
	if e.Fold > 0 {
		fh := e.Lo + e.Fold - 1
		if fh > e.Hi {
			fh = e.Hi
		}
		foldLen = len(d.span(e.Lo, fh))
	}
	if e.Dm == "ltrim" {
		k := len(E) - len(ltrim(E))
		E, D = E[k:], ltrim(D)
		foldLen -= k
	}
	dOK = len(E) == len(D)
	if dOK {
		for i := range E {
			a, b := E[i], D[i]
			if i < foldLen {
				a, b = lower(E[i : i+1])[0], lower(D[i : i+1])[0]
			}
			if a != b {
				dOK = false
				break
			}
		}
	}
	T := t.Subs["text"]
	ET := d.span(e.Tlo, e.Thi)
	switch e.Tm {
	case "any":
		tOK = true
	case "exact":
		tOK = bytes.Equal(T, ET)
	case "lower":
		tOK = bytes.Equal(T, lower(ET))
	case "fold":
		tOK = bytes.Equal(lower(T), lower(ET))
	case "ltrim":
		tOK = bytes.Equal(ltrim(T), ltrim(ET))
	case "lowerprefix":
		tOK = bytes.HasPrefix(T, lower(ET)) && (len(T) == len(ET) || !isNameChar(T[len(ET)]))
	default:
		fatalf("htmldoc: unknown text mode %q", e.Tm)
	}
	V := t.Subs["val"]
	switch e.Vm {
	case "none":
		vOK = true
	case "empty":
		vOK = len(V) == 0
	case "exact":
		vOK = bytes.Equal(V, d.span(e.Vlo, e.Vhi))
	default:
		fatalf("htmldoc: unknown value mode %q", e.Vm)
	}
	switch {
	case t.KName != e.K && strings.HasSuffix(e.Lbl, ".text") && t.KName == "EndTag":
		why = "data:ends-early" // the content ended at once: the token that follows it came instead
	case t.KName != e.K:
		why = "kind:" + e.K + "->" + t.KName
	case !dOK:
		elo, ehi := d.starts[e.Lo-1], d.starts[e.Hi]
		switch {
		case t.lo < 0:
			why = "data:not-in-input"
		case t.hi < ehi:
			why = "data:ends-early"
		case t.hi > ehi:
			why = "data:runs-past"
		case t.lo < elo || t.lo > elo+len(d.span(e.Lo, e.Hi))-len(E):
			why = "data:start"
		default:
			why = "data:bytes-changed"
		}
	case !tOK:
		why = "text"
	case !vOK:
		why = "val"
	case t.Tmpl != e.Tp:
		why = fmt.Sprintf("tmpl:%v->%v", e.Tp, t.Tmpl)
	}
	return
}

// judge lexes the document and returns the located tokens and the index of the first expected/observed pair that
// disagrees (len(exp) if a token is missing or the end is not clean, -1 if everything agrees) with its description.
func (d *doc) judge() (toks []obsTok, first int, why string, panicked string) {
	func() {
		defer func() {
			if x := recover(); x != nil {
				panicked = strings.SplitN(fmt.Sprint(x), "\n", 2)[0]
			}
		}()
		toks = locate(d.input, lexers.RunTokens(d.lang, d.input))
	}()
	if panicked != "" {
		return nil, 0, "panic", panicked
	}
	for i := range toks {
		t := &toks[i]
		if t.IsErr {
			if i < len(d.c.Exp) {
				return toks, i, "missing:" + d.c.Exp[i].K, ""
			}
			if t.Err != "EOF" {
				return toks, i, "error-report", ""
			}
			return toks, -1, "", ""
		}
		if i >= len(d.c.Exp) {
			return toks, i, "extra:" + t.KName, ""
		}
		if _, _, _, w := d.compare(&d.c.Exp[i], t); w != "" {
			return toks, i, w, ""
		}
	}
	return toks, len(toks), "no-end-report", ""
}

// culprit names the content atoms a mismatch depends on: the atom classes whose replacement by harmless text makes
// the first mismatch disappear or move to a later token.
func (d *doc) culprit(first int, toks []obsTok, why string) string {
	if why == "text" || why == "val" {
		return "-"
	}
	names := map[string]bool{}
	classes := map[string][]int{}
	lo, hi := 1, len(d.c.Atoms) // only the atoms of the expected token that was not delivered
	if first < len(d.c.Exp) {
		lo, hi = d.c.Exp[first].Lo, d.c.Exp[first].Hi
	}
	for i, a := range d.c.Atoms {
		if i+1 < lo || i+1 > hi {
			continue
		}
		if _, ok := neutral(a); ok {
			classes[atomClass(a)] = append(classes[atomClass(a)], i)
		}
	}
	for cl, idx := range classes {
		parts := append([]string{}, d.parts...)
		for _, i := range idx {
			parts[i], _ = neutral(d.c.Atoms[i])
		}
		_, f2, _, p := build(d.c, d.lang, parts).judge()
		if p == "" && (f2 < 0 || f2 > first) {
			names[cl] = true
		}
	}
	if len(names) == 0 {
		// several independent causes in one token: name the content atom at which the first deviating token ends
		if first < len(toks) && toks[first].hi > 0 && strings.HasPrefix(why, "data:") {
			for _, off := range []int{toks[first].hi - 1, toks[first].hi} {
				if i := d.atomAt(off); i >= 0 {
					if _, ok := neutral(d.c.Atoms[i]); ok {
						return atomClass(d.c.Atoms[i])
					}
				}
			}
		}
		return "-"
	}
	var l []string
	for n := range names {
		l = append(l, n)
	}
	sort.Strings(l)
	return strings.Join(l, "+")
}

// record writes the trace of one checked document; returns whether it agreed with the expectation.
func (d *doc) record(w *tr.Writer, extra tr.E) bool {
	toks, first, why, panicked := d.judge()
	exp := make([]tr.E, len(d.c.Exp))
	for i, e := range d.c.Exp {
		exp[i] = tr.E{"k": e.K, "tp": e.Tp}
	}
	_, cls, isT := dialectOf(d.lang)
	open := tr.E{"lang": d.lang, "checked": true, "known": isT, "regs": d.regions(), "exp": exp, "n": len(d.input),
		"input": tr.Ints(d.input), "cs": d.c.Cs, "atoms": d.c.Atoms, "tcls": cls}
	for k, v := range extra {
		open[k] = v
	}
	if first >= 0 {
		open["case"], open["parts"] = d.c, d.parts
	}
	w.Ev("Open", open)
	if panicked != "" {
		w.Ev("Tok", tr.E{"out": "panic", "panic": panicked})
		return false
	}
	if first == len(toks) { // the lexer never reported the end
		defer w.Ev("End", tr.E{"eof": false, "etext": "no end report", "why": why, "lbl": "end", "culprit": "-"})
	}
	for i := range toks {
		t := &toks[i]
		if t.IsErr {
			ev := tr.E{"eof": t.Err == "EOF", "etext": t.Err}
			if i == first {
				ev["why"] = why
				if i < len(d.c.Exp) {
					ev["lbl"] = d.c.Exp[i].Lbl
				} else {
					ev["lbl"] = "end"
				}
				ev["culprit"] = d.culprit(first, toks, why)
			}
			w.Ev("End", ev)
			return first < 0
		}
		ev := tr.E{"kname": t.KName, "tname": "", "lo": t.lo, "hi": t.hi, "tmpl": t.Tmpl, "dOK": true, "tOK": true, "vOK": true}
		if t.KName == "StartTag" || t.KName == "EndTag" {
			ev["tname"] = tagName(t.Subs["text"])
		}
		if i < len(d.c.Exp) {
			ev["dOK"], ev["tOK"], ev["vOK"], _ = d.compare(&d.c.Exp[i], t)
		}
		if i == first {
			ev["why"] = why
			if i < len(d.c.Exp) {
				ev["lbl"] = d.c.Exp[i].Lbl
			} else {
				ev["lbl"] = "end"
			}
			ev["culprit"] = d.culprit(first, toks, why)
			ev["text"] = tr.Ints(t.Text)
		}
		w.Ev("Tok", ev)
		if i == first {
			return false // the trace is rejected here; what follows is not judged
		}
	}
	return first < 0
}

// recordRaw writes the trace of an arbitrary input (mutated documents, rerun): only the all-input clauses apply.
func recordRaw(w *tr.Writer, lang string, input []byte, extra tr.E) {
	open := tr.E{"lang": lang, "checked": false, "known": false, "regs": [][]int{}, "exp": []tr.E{}, "n": len(input), "input": tr.Ints(input)}
	for k, v := range extra {
		open[k] = v
	}
	w.Ev("Open", open)
	var toks []obsTok
	panicked := ""
	func() {
		defer func() {
			if x := recover(); x != nil {
				panicked = strings.SplitN(fmt.Sprint(x), "\n", 2)[0]
			}
		}()
		toks = locate(input, lexers.RunTokens(lang, input))
	}()
	if panicked != "" {
		w.Ev("Tok", tr.E{"out": "panic", "panic": panicked})
		return
	}
	for i := range toks {
		t := &toks[i]
		if t.IsErr {
			w.Ev("End", tr.E{"eof": t.Err == "EOF", "etext": t.Err})
			return
		}
		ev := tr.E{"kname": t.KName, "tname": "", "lo": t.lo, "hi": t.hi, "tmpl": t.Tmpl, "dOK": true, "tOK": true, "vOK": true}
		if t.KName == "StartTag" || t.KName == "EndTag" {
			ev["tname"] = tagName(t.Subs["text"])
		}
		w.Ev("Tok", ev)
	}
}

func mutate(input []byte, rng *rand.Rand) ([]byte, string) {
	if len(input) == 0 {
		return nil, "none"
	}
	b := append([]byte{}, input...)
	i := rng.Intn(len(b))
	if rng.Intn(6) == 0 { // a control character the language does or does not count as white space
		b[i] = []byte{'\f', '\v', '\r', '\t', 0x7f}[rng.Intn(5)]
		return b, "ctrl"
	}
	switch rng.Intn(4) {
	case 0:
		return b[:i], "truncate"
	case 1:
		b[i] = 0
		return b, "nul"
	case 2:
		b[i] = 0xFF
		return b, "ff"
	}
	b[i] = []byte{0xC3, 0xE2, 0xF0}[rng.Intn(3)]
	return b, "lead"
}

type summary struct {
	Suite      string         `json:"suite"`
	Mode       string         `json:"mode"`
	Cases      int            `json:"cases"`
	Executions int            `json:"executions"`
	Traces     int            `json:"traces"`
	Events     int            `json:"events"`
	Nontrivial int            `json:"distinct_nontrivial"`
	Mismatches int            `json:"mismatches"`
	Mutated    int            `json:"mutated"`
	Labels     map[string]int `json:"labels"`
	AtomCls    map[string]int `json:"atom_classes"`
	Samples    []interface{}  `json:"samples"`
	Unused     []string       `json:"required_but_unused"`
}

// langsFor: the entry points a case is run under.
func langsFor(c *genCase, rng *rand.Rand, alsoTmpl int, n int) []string {
	if c.Mode == "tmpl" {
		var l []string
		for _, d := range dialects {
			l = append(l, "html.tmpl."+d.name)
		}
		return l
	}
	l := []string{"html"}
	if alsoTmpl > 0 && n%alsoTmpl == 0 {
		l = append(l, "html.tmpl."+dialects[rng.Intn(len(dialects))].name)
	}
	return l
}

var required *genCase

// readCases calls fn for every case with a random source derived from the seed and the case itself: TLC's workers
// write the lines in no particular order, and the spelling of a case must not depend on that order.
func readCases(path string, seed int64, fn func(n int, c *genCase, rng *rand.Rand)) {
	n := 0
	seenLine := map[uint64]bool{}
	err := tr.ReadCases(path, func(line int, raw []byte) {
		h := fnv.New64a()
		h.Write(raw)
		if seenLine[h.Sum64()] { // -simulate may reach the same document twice
			return
		}
		seenLine[h.Sum64()] = true
		rng := rand.New(rand.NewSource(seed ^ int64(h.Sum64()>>1)))
		c := &genCase{}
		if err := json.Unmarshal(raw, c); err != nil {
			fatalf("htmldoc: bad case line %d: %v", line, err)
		}
		if c.Required != nil { // the vacuity line of the generator
			required = c
			return
		}
		n++
		fn(int(h.Sum64()%1000003), c, rng)
	})
	if err != nil {
		fatalf("htmldoc: %v", err)
	}
}

func spellAll(c *genCase, rng *rand.Rand, pair [2]string) []string {
	parts := make([]string, len(c.Atoms))
	for i, a := range c.Atoms {
		parts[i] = spell(a, rng, pair)
	}
	return parts
}

// Replay: every TLC case, spelled `variants` times per entry point, compared with its expectation and recorded;
// plus `muts` mutations of each document recorded for the all-input clauses.
func Replay(args []string) {
	fs := flag.NewFlagSet("htmldoc replay", flag.ExitOnError)
	cases := fs.String("cases", "", "ndjson from HtmlDoc.tla")
	out := fs.String("out", "", "trace file")
	seed := fs.Int64("seed", 1, "seed")
	variants := fs.Int("variants", 1, "spellings per case and entry point")
	muts := fs.Int("muts", 1, "mutated documents per case")
	alsoTmpl := fs.Int("alsotmpl", 0, "run every n-th plain document under a template dialect as well (0: never)")
	fs.Parse(args)
	w := tr.NewWriter(*out)
	sum := summary{Suite: "htmldoc", Mode: "replay", Labels: map[string]int{}, AtomCls: map[string]int{}}
	seen := map[string]bool{}
	tid := 0
	readCases(*cases, *seed, func(n int, c *genCase, rng *rand.Rand) {
		sum.Cases++
		for _, e := range c.Exp {
			sum.Labels[e.Lbl]++
		}
		for _, a := range c.Atoms {
			sum.AtomCls[atomClass(a)]++
		}
		for _, lang := range langsFor(c, rng, *alsoTmpl, n) {
			pair, _, _ := dialectOf(lang)
			for v := 0; v < *variants; v++ {
				d := build(c, lang, spellAll(c, rng, pair))
				key := lang + "\x00" + string(d.input)
				if seen[key] && v > 0 {
					continue
				}
				tid++
				w.Begin(tid)
				sum.Executions++
				if !d.record(w, nil) {
					sum.Mismatches++
				}
				w.End(true)
				if !seen[key] && len(c.Exp) >= 3 {
					sum.Nontrivial++
				}
				seen[key] = true
				if len(sum.Samples) < 4 && len(c.Cs) == 3 && n%97 == 0 {
					sum.Samples = append(sum.Samples, map[string]interface{}{"lang": lang, "constructs": c.Cs, "input": string(d.input), "tokens": len(c.Exp)})
				}
				if v == 0 {
					for m := 0; m < *muts; m++ {
						mi, how := mutate(d.input, rng)
						tid++
						w.Begin(tid)
						recordRaw(w, lang, mi, tr.E{"mutation": how})
						w.End(true)
						sum.Executions++
						sum.Mutated++
					}
				}
			}
		}
	})
	w.Close()
	sum.Traces, sum.Events = w.Traces, w.Events
	sum.Unused = []string{}
	if required == nil {
		sum.Unused = append(sum.Unused, "<no vacuity line in the case file>")
	} else {
		for _, a := range required.Required.Atoms {
			if sum.AtomCls[a] == 0 {
				sum.Unused = append(sum.Unused, "atom "+a)
			}
		}
		for _, l := range required.Required.Labels {
			if sum.Labels[l] == 0 {
				sum.Unused = append(sum.Unused, "label "+l)
			}
		}
	}
	json.NewEncoder(os.Stdout).Encode(sum)
}

// Inputs: every spelled document and a few seeded mutations of each as {"lang", "input"} lines (for the C01/C02 checks).
func Inputs(args []string) {
	fs := flag.NewFlagSet("htmldoc inputs", flag.ExitOnError)
	cases := fs.String("cases", "", "ndjson from HtmlDoc.tla")
	out := fs.String("out", "", "ndjson {lang, input}")
	seed := fs.Int64("seed", 1, "seed")
	muts := fs.Int("muts", 2, "mutations per document")
	fs.Parse(args)
	f, err := os.Create(*out)
	if err != nil {
		fatalf("htmldoc: %v", err)
	}
	defer f.Close()
	enc := json.NewEncoder(f)
	sum := summary{Suite: "htmldoc", Mode: "inputs"}
	readCases(*cases, *seed, func(n int, c *genCase, rng *rand.Rand) {
		sum.Cases++
		for _, lang := range langsFor(c, rng, 0, n) {
			pair, _, _ := dialectOf(lang)
			d := build(c, lang, spellAll(c, rng, pair))
			enc.Encode(map[string]interface{}{"lang": lang, "input": tr.Ints(d.input)})
			sum.Executions++
			for m := 0; m < *muts; m++ {
				mi, _ := mutate(d.input, rng)
				enc.Encode(map[string]interface{}{"lang": lang, "input": tr.Ints(mi)})
				sum.Executions++
				sum.Mutated++
			}
		}
	})
	json.NewEncoder(os.Stdout).Encode(sum)
}

// File: re-run recorded inputs (reproduction and --replay). A line is either {lang, input} (all-input clauses only) or
// {lang, case, parts}: a generated case with the exact spelling of every atom, judged against its expectation again.
func File(args []string) {
	fs := flag.NewFlagSet("htmldoc file", flag.ExitOnError)
	in := fs.String("in", "", "ndjson")
	out := fs.String("out", "", "trace file")
	fs.Parse(args)
	w := tr.NewWriter(*out)
	sum := summary{Suite: "htmldoc", Mode: "file"}
	tid := 0
	err := tr.ReadCases(*in, func(line int, raw []byte) {
		var c struct {
			Lang  string   `json:"lang"`
			Input []int    `json:"input"`
			Case  *genCase `json:"case"`
			Parts []string `json:"parts"`
		}
		if err := json.Unmarshal(raw, &c); err != nil {
			fatalf("htmldoc: bad line %d: %v", line, err)
		}
		tid++
		w.Begin(tid)
		sum.Executions++
		if c.Case != nil {
			if len(c.Parts) != len(c.Case.Atoms) {
				fatalf("htmldoc: line %d: parts do not match atoms", line)
			}
			if !build(c.Case, c.Lang, c.Parts).record(w, nil) {
				sum.Mismatches++
			}
		} else {
			b := make([]byte, len(c.Input))
			for i, v := range c.Input {
				b[i] = byte(v)
			}
			recordRaw(w, c.Lang, b, nil)
		}
		w.End(true)
	})
	if err != nil {
		fatalf("htmldoc: %v", err)
	}
	w.Close()
	sum.Traces, sum.Events = w.Traces, w.Events
	json.NewEncoder(os.Stdout).Encode(sum)
}

func init() {
	reg.Register("htmldoc", "replay", Replay)
	reg.Register("htmldoc", "inputs", Inputs)
	reg.Register("htmldoc", "file", File)
}
