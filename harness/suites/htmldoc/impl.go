package htmldoc

import (
	"bytes"
	"encoding/json"
	"flag"
	"fmt"
	"hash/fnv"
	"math/rand"
	"os"
	"strings"

	"verif/harness/internal/reg"
	"verif/harness/internal/tr"
	"verif/harness/suites/lexers"
)

// Differential replay of spec/html/HtmlImpl.tla (the implementation-shaped model of html.Lexer.Next over a class
// alphabet): TLC writes every class string within its bound together with the token list the MODEL predicts; this mode
// spells the classes (by seed), lexes the bytes and compares token by token. A difference is model drift unless the
// property rejects what the code did: the differing inputs (and every n-th agreeing one) are recorded as ordinary
// htmldoc traces (all-input clauses only) for spec/html/HtmlTrace.tla to judge. This mode never decides anything.

// implBytes: concrete spellings of the single-character classes. The lexer tests bytes only against
// < > / ! ? - = " ' space tab LF CR FF, letters, NUL and the bytes of "[CDATA[" / "]]>"; "other" is everything else.
// The letters are chosen so that no run of symbols spells one of the names html.ToHash knows (see HtmlImpl.tla).
var implBytes = map[string][]string{
	"lt": {"<"}, "gt": {">"}, "slash": {"/"}, "bang": {"!"}, "qmark": {"?"}, "dash": {"-"}, "eq": {"="}, "dquote": {"\""}, "squote": {"'"},
	"ws": {" ", "\t", "\n", "\r", "\f"}, "letter": {"z", "q", "k", "Z", "Q", "K"}, "nul": {"\x00"}, "rbrack": {"]"}, "cdata": {"[CDATA["},
	"other": {"0", "7", "_", ".", ":", "&", "#", "+", "%", "{", "\x0b", "\x7f", "\xc3\xa9", "\xe2\x80\xa8", "\xff", "\xc3", "\x80"},
}

// implWords: whole-word atoms, spelled in random ASCII case.
var implWords = map[string]bool{"a": true, "doctype": true, "script": true, "style": true, "title": true, "textarea": true, "xmp": true,
	"iframe": true, "plaintext": true, "svg": true, "math": true, "xml": true}

func implSpell(cls []string, rng *rand.Rand) (input []byte, starts []int) {
	starts = make([]int, len(cls)+1)
	for i, c := range cls {
		starts[i] = len(input)
		if implWords[c] {
			mode := rng.Intn(4) // lower, UPPER, mixed, mixed
			for _, ch := range []byte(c) {
				if mode == 1 || mode >= 2 && rng.Intn(2) == 0 {
					ch -= 32
				}
				input = append(input, ch)
			}
			continue
		}
		reps, ok := implBytes[c]
		if !ok {
			fatalf("htmldoc impl: unknown class %q", c)
		}
		input = append(input, reps[rng.Intn(len(reps))]...)
	}
	starts[len(cls)] = len(input)
	return
}

type implTok struct {
	K   string `json:"k"`
	Via string `json:"via"`
	Lo  int    `json:"lo"`
	Hi  int    `json:"hi"`
	Tlo int    `json:"tlo"`
	Thi int    `json:"thi"`
	Vlo int    `json:"vlo"`
	Vhi int    `json:"vhi"`
}

type implCase struct {
	Fam  string    `json:"fam"`
	Cls  []string  `json:"cls"`
	Toks []implTok `json:"toks"`
	EOF  bool      `json:"eof"`
	Via  string    `json:"via"`
	Dev  []string  `json:"dev"`
}

func foldEq(a, b []byte) bool { return bytes.Equal(lower(a), lower(b)) }

// implDiff compares what the code returned with the prediction; "" if they agree, else the first difference.
func implDiff(c *implCase, input []byte, starts []int, toks []lexers.Tok) string {
	n := len(c.Cls)
	rng := func(lo, hi int) []byte {
		if lo < 0 || hi > n || hi <= lo {
			return nil
		}
		return input[starts[lo]:starts[hi]]
	}
	for i, p := range c.Toks {
		if i >= len(toks) {
			return "count:missing-" + p.K
		}
		t := &toks[i]
		if t.IsErr {
			return "count:end-instead-of-" + p.K
		}
		if t.KName != p.K {
			return "kind:" + p.K + "->" + t.KName
		}
		want := rng(p.Lo, p.Hi)
		if len(t.Text) != len(want) {
			if len(t.Text) < len(want) {
				return "len:" + p.K + "/" + p.Via + ":shorter"
			}
			return "len:" + p.K + "/" + p.Via + ":longer"
		}
		if !foldEq(t.Text, want) {
			return "bytes:" + p.K + "/" + p.Via
		}
		if !foldEq(t.Subs["text"], rng(p.Tlo, p.Thi)) {
			return "text:" + p.K + "/" + p.Via
		}
		if p.K == "Attribute" && !bytes.Equal(t.Subs["val"], rng(p.Vlo, p.Vhi)) {
			return "val:" + p.Via
		}
	}
	if len(toks) <= len(c.Toks) {
		return "count:no-end-report"
	}
	e := &toks[len(c.Toks)]
	if !e.IsErr {
		return "count:extra-" + e.KName
	}
	if (e.Err == "EOF") != c.EOF {
		return "end:" + map[bool]string{true: "eof", false: "error"}[c.EOF] + "->" + strings.SplitN(e.Err, " ", 2)[0]
	}
	return ""
}

type implSummary struct {
	Suite      string         `json:"suite"`
	Mode       string         `json:"mode"`
	Cases      int            `json:"cases"`
	Executions int            `json:"executions"`
	Traces     int            `json:"traces"`
	Events     int            `json:"events"`
	Nontrivial int            `json:"distinct_nontrivial"`
	Mismatches int            `json:"mismatches"`
	Panics     int            `json:"panics"`
	DiffKinds  map[string]int `json:"diff_kinds"`
	KindCount  map[string]int `json:"kind_count"`
	ViaCount   map[string]int `json:"via_count"`
	EndCount   map[string]int `json:"end_count"`
	DevCount   map[string]int `json:"dev_count"`
	FamCount   map[string]int `json:"fam_count"`
	Samples    []interface{}  `json:"samples"`
}

func kindsOf(toks []lexers.Tok) string {
	var l []string
	for _, t := range toks {
		if t.IsErr {
			l = append(l, "Error("+strings.SplitN(t.Err, " on line", 2)[0]+")")
		} else {
			l = append(l, fmt.Sprintf("%s(%d)", t.KName, len(t.Text)))
		}
	}
	return strings.Join(l, " ")
}

// Impl: `vdrive htmldoc impl -cases <ndjson from HtmlImpl.tla> -out <trace> -seed N [-variants n] [-every n] [-tid0 n]`.
func Impl(args []string) {
	fs := flag.NewFlagSet("htmldoc impl", flag.ExitOnError)
	cases := fs.String("cases", "", "ndjson from HtmlImpl.tla")
	out := fs.String("out", "", "trace file: the differing inputs and every n-th agreeing one")
	seed := fs.Int64("seed", 1, "seed")
	variants := fs.Int("variants", 1, "spellings per case")
	every := fs.Int("every", 100, "record every n-th agreeing input as well (0: none)")
	tid0 := fs.Int("tid0", 0, "trace ids start after this number (several trace files are validated as one)")
	fs.Parse(args)
	w := tr.NewWriter(*out)
	sum := implSummary{Suite: "htmldoc", Mode: "impl", DiffKinds: map[string]int{}, KindCount: map[string]int{}, ViaCount: map[string]int{},
		EndCount: map[string]int{}, DevCount: map[string]int{}, FamCount: map[string]int{}}
	seen := map[string]bool{}
	tid := *tid0
	err := tr.ReadCases(*cases, func(line int, raw []byte) {
		c := &implCase{}
		if err := json.Unmarshal(raw, c); err != nil {
			fatalf("htmldoc impl: bad case line %d: %v", line, err)
		}
		sum.Cases++
		sum.FamCount[c.Fam]++
		for _, t := range c.Toks {
			sum.KindCount[t.K]++
			sum.ViaCount[t.Via]++
		}
		sum.EndCount[c.Via]++
		for _, d := range c.Dev {
			sum.DevCount[d]++
		}
		h := fnv.New64a()
		h.Write(raw)
		rng := rand.New(rand.NewSource(*seed ^ int64(h.Sum64()>>1)))
		for v := 0; v < *variants; v++ {
			input, starts := implSpell(c.Cls, rng)
			if seen[string(input)] {
				continue
			}
			seen[string(input)] = true
			sum.Executions++
			var toks []lexers.Tok
			diff := ""
			func() {
				defer func() {
					if x := recover(); x != nil {
						diff = "panic"
						sum.Panics++
					}
				}()
				toks = lexers.RunTokens("html", input)
			}()
			if diff == "" {
				diff = implDiff(c, input, starts, toks)
			}
			if len(c.Toks) >= 3 {
				sum.Nontrivial++
			}
			if diff == "" && (*every == 0 || int(h.Sum64()%uint64(*every)) != 0) {
				continue
			}
			extra := tr.E{"impl": true, "fam": c.Fam, "cls": c.Cls, "dev": c.Dev, "agree": diff == ""}
			if diff != "" {
				sum.Mismatches++
				sum.DiffKinds[diff]++
				var pk []string
				for _, t := range c.Toks {
					pk = append(pk, fmt.Sprintf("%s(%d)", t.K, starts[t.Hi]-starts[t.Lo]))
				}
				extra["diff"] = diff
				extra["pred"] = strings.Join(pk, " ") + map[bool]string{true: " Error(EOF)", false: " Error(unexpected NULL character)"}[c.EOF]
				extra["obs"] = kindsOf(toks)
			} else if len(sum.Samples) < 3 && len(c.Toks) >= 3 {
				sum.Samples = append(sum.Samples, map[string]interface{}{"fam": c.Fam, "cls": c.Cls, "input": string(input), "tokens": kindsOf(toks)})
			}
			tid++
			w.Begin(tid)
			recordRaw(w, "html", input, extra)
			w.End(true)
		}
	})
	if err != nil {
		fatalf("htmldoc impl: %v", err)
	}
	w.Close()
	sum.Traces, sum.Events = w.Traces, w.Events
	json.NewEncoder(os.Stdout).Encode(sum)
}

func init() {
	reg.Register("htmldoc", "impl", Impl)
}
