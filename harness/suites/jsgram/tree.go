// Code -> spec direction of C03 ("JsTreeTrace"): for ANY program js.Parse accepts, the returned tree is encoded node by node
// (kind / operator in the vocabulary of spec/js/JsGrammar.tla, the kinds of the children, and the terminals the node owns itself,
// laid out between its children) next to the token list js.Lexer gives for the same input; spec/js/JsTreeTrace.tla judges
//   - YIELD:  the terminals of the tree in order are exactly the significant tokens of the input,
//   - LADDER: every operand fits the level the stratified grammar demands of it (JsGrammar's own Level/ChildReq/ChildNoIn/Fits),
//   - a few context facts ([Return], [Yield], [Await], declarations as bodies, optional chains as targets).
//
// The encoder decides nothing: it transcribes the tree. Every node type of js/ast.go is handled; an unknown one is fatal (exit 2).
package jsgram

import (
	"bufio"
	"encoding/json"
	"flag"
	"fmt"
	"go/ast"
	goparser "go/parser"
	"go/token"
	"hash/fnv"
	"io"
	"math/rand"
	"os"
	"path/filepath"
	"sort"
	"strings"

	"github.com/tdewolff/parse/v2"
	"github.com/tdewolff/parse/v2/js"

	"verif/harness/internal/reg"
	"verif/harness/internal/tr"
	"verif/harness/suites/lexers"
)

// modes of a terminal (spec/js/JsTreeTrace.tla, Item)
const (
	mReq    = 0  // the token
	mOpt    = 1  // the token or nothing
	mGOpen  = 2  // a group opens (present or absent as a whole)
	mGClose = 3  // the group closes
	mGTok   = 4  // token of the group when present
	mNTok   = 5  // token that stands for the group when absent
	mGOpt   = 6  // optional token of the group when present
	mWild   = 7  // any one token
	mEof    = 8  // the token or the end of the input
	mStar   = 9  // the token any number of times
	mKey    = 10 // a property name: bare, or as a string literal with that content
	mGKey   = 11 // a property name as token of the group when present
	mNoNL   = 12 // no token: the next token of the input is not preceded by a line terminator ("[no LineTerminator here]")
)

type part struct {
	child *node
	mode  int
	text  string
}

type node struct {
	k, op  string
	fx     string // context given to the children from child number ff on
	ff     int
	parts  []part
	nchild int
}

func fatalTree(format string, a ...interface{}) {
	fmt.Fprintf(os.Stderr, "jsgram tree: "+format+"\n", a...)
	os.Exit(2)
}

func nd(k, op string) *node { return &node{k: k, op: op} }
func (n *node) tok(mode int, text string) *node {
	n.parts = append(n.parts, part{mode: mode, text: text})
	return n
}
func (n *node) T(texts ...string) *node {
	for _, t := range texts {
		n.tok(mReq, t)
	}
	return n
}
func (n *node) Tb(b []byte) *node { return n.tok(mReq, string(b)) }
func (n *node) O(t string) *node  { return n.tok(mOpt, t) }
func (n *node) NoNL() *node       { return n.tok(mNoNL, "") }
func (n *node) C(c *node) *node {
	if c == nil {
		fatalTree("nil child under %s:%s", n.k, n.op)
	}
	n.parts = append(n.parts, part{child: c})
	n.nchild++
	return n
}
func (n *node) ctx(fx string, from int) *node { n.fx, n.ff = fx, from; return n }

// ---------------------------------------------------------------- the tree, transcribed

func fnCtx(async, gen bool) string {
	switch {
	case async && gen:
		return "agen"
	case async:
		return "async"
	case gen:
		return "gen"
	}
	return "fn"
}

func fnOp(async, gen bool) string {
	s := ""
	if async {
		s = "async"
	}
	if gen {
		s += "*"
	}
	return s
}

var binOps = map[string]bool{"??": true, "||": true, "&&": true, "|": true, "^": true, "&": true, "==": true, "!=": true, "===": true, "!==": true, "<": true, ">": true,
	"<=": true, ">=": true, "instanceof": true, "in": true, "<<": true, ">>": true, ">>>": true, "+": true, "-": true, "*": true, "/": true, "%": true, "**": true}
var asgOps = map[string]bool{"=": true, "+=": true, "-=": true, "*=": true, "/=": true, "%=": true, "**=": true, "<<=": true, ">>=": true, ">>>=": true, "&=": true, "|=": true,
	"^=": true, "&&=": true, "||=": true, "??=": true}

// stmtPos: a statement where parseStmt put it: one ';' directly after it is swallowed whatever the statement is.
func stmtPos(s js.IStmt) *node {
	n := stmt(s)
	if n.k != "comment" {
		n.O(";")
	}
	return n
}

func stmtList(n *node, list []js.IStmt) *node {
	for _, s := range list {
		n.C(stmtPos(s))
	}
	return n
}

func block(b *js.BlockStmt) *node {
	return stmtList(nd("blk", "").T("{"), b.List).T("}")
}

// loopBody: js.Parse keeps `for(;;) s`, `for(;;) {s}` and `for(;;);`, `for(;;){}` as the same tree
func loopBody(b *js.BlockStmt) *node {
	n := nd("blk", "")
	switch len(b.List) {
	case 0:
		n.tok(mGOpen, "").tok(mGTok, "{").tok(mGTok, "}").tok(mNTok, ";").tok(mGClose, "")
	case 1:
		n.tok(mGOpen, "").tok(mGTok, "{").C(stmtPos(b.List[0])).tok(mGTok, "}").tok(mGClose, "")
	default:
		n.T("{")
		stmtList(n, b.List)
		n.T("}")
	}
	return n
}

func varDecl(v *js.VarDecl) *node {
	n := nd("var", v.TokenType.String()).T(v.TokenType.String())
	for i, be := range v.List {
		if i > 0 {
			n.T(",")
		}
		if be.Default != nil {
			n.C(nd("dci", "").C(binding(be.Binding)).T("=").C(expr(be.Default)))
		} else {
			n.C(nd("dc", "").C(binding(be.Binding)))
		}
	}
	return n
}

func forHead(n *node, init js.IExpr) string {
	if v, ok := init.(*js.VarDecl); ok {
		if len(v.List) != 1 {
			fatalTree("for-in/of declaration with %d bindings", len(v.List))
		}
		n.T(v.TokenType.String()).C(bindingElement(v.List[0]))
		return v.TokenType.String()
	}
	n.C(expr(init))
	return "e"
}

func stmt(s js.IStmt) *node {
	switch x := s.(type) {
	case *js.BlockStmt:
		return block(x)
	case *js.EmptyStmt:
		return nd("empty", "").tok(mEof, ";") // at the very end of the input js.Parse makes an empty statement out of nothing
	case *js.ExprStmt:
		return nd("expr", "").C(expr(x.Value))
	case *js.IfStmt:
		if x.Else == nil {
			return nd("if", "").T("if", "(").C(expr(x.Cond)).T(")").C(stmtPos(x.Body))
		}
		return nd("ife", "").T("if", "(").C(expr(x.Cond)).T(")").C(stmtPos(x.Body)).T("else").C(stmtPos(x.Else))
	case *js.DoWhileStmt:
		return nd("dow", "").T("do").C(stmtPos(x.Body)).T("while", "(").C(expr(x.Cond)).T(")")
	case *js.WhileStmt:
		return nd("while", "").T("while", "(").C(expr(x.Cond)).T(")").C(stmtPos(x.Body))
	case *js.WithStmt:
		return nd("with", "").T("with", "(").C(expr(x.Cond)).T(")").C(stmtPos(x.Body))
	case *js.ForStmt:
		n := nd("for", "").T("for", "(")
		op := ""
		if v, ok := x.Init.(*js.VarDecl); ok && len(v.List) == 0 || x.Init == nil { // js.Parse puts an empty declaration where there is no initialiser
			op += "-"
		} else if ok {
			n.C(varDecl(v))
			op += "v"
		} else {
			n.C(expr(x.Init))
			op += "e"
		}
		n.T(";")
		if x.Cond != nil {
			n.C(expr(x.Cond))
			op += "e"
		} else {
			op += "-"
		}
		n.T(";")
		if x.Post != nil {
			n.C(expr(x.Post))
			op += "e"
		} else {
			op += "-"
		}
		n.op = op
		return n.T(")").C(loopBody(x.Body))
	case *js.ForInStmt:
		n := nd("forin", "").T("for", "(")
		n.op = forHead(n, x.Init)
		return n.T("in").C(expr(x.Value)).T(")").C(loopBody(x.Body))
	case *js.ForOfStmt:
		n := nd("forof", "").T("for")
		if x.Await {
			n.k = "forawait"
			n.T("await")
		}
		n.T("(")
		n.op = forHead(n, x.Init)
		return n.T("of").C(expr(x.Value)).T(")").C(loopBody(x.Body))
	case *js.SwitchStmt:
		n := nd("sw", "").T("switch", "(").C(expr(x.Init)).T(")", "{")
		for i := range x.List {
			c := &x.List[i]
			var cn *node
			if c.Cond != nil {
				cn = nd("case", "").T("case").C(expr(c.Cond)).T(":")
			} else {
				cn = nd("def", "").T(c.TokenType.String(), ":")
			}
			n.C(stmtList(cn, c.List))
		}
		return n.T("}")
	case *js.BranchStmt:
		k := "brk"
		if x.Type == js.ContinueToken {
			k = "cont"
		}
		n := nd(k, "").T(x.Type.String())
		if x.Label != nil {
			n.NoNL().Tb(x.Label)
			n.op = "L"
		}
		return n
	case *js.ReturnStmt:
		if x.Value == nil {
			return nd("ret0", "").T("return")
		}
		return nd("ret", "").T("return").NoNL().C(expr(x.Value))
	case *js.LabelledStmt:
		return nd("label", "L").Tb(x.Label).T(":").C(stmtPos(x.Value))
	case *js.ThrowStmt:
		return nd("throw", "").T("throw").NoNL().C(expr(x.Value))
	case *js.TryStmt:
		n := nd("try", "").T("try").C(block(x.Body))
		op := ""
		if x.Catch != nil {
			n.T("catch")
			op = "c"
			if x.Binding != nil {
				n.T("(").C(binding(x.Binding)).T(")")
				op = "cp"
			}
			n.C(block(x.Catch))
		}
		if x.Finally != nil {
			n.T("finally").C(block(x.Finally))
			op += "f"
		}
		n.op = op
		return n
	case *js.DebuggerStmt:
		return nd("dbg", "").T("debugger")
	case *js.ImportStmt:
		return importStmt(x)
	case *js.ExportStmt:
		return exportStmt(x)
	case *js.DirectivePrologueStmt:
		return nd("directive", "").Tb(x.Value)
	case *js.Comment:
		return nd("comment", "")
	case *js.VarDecl:
		return varDecl(x)
	case *js.FuncDecl:
		return funcDecl(x, "fdecl")
	case *js.ClassDecl:
		return classDecl(x, "cdecl")
	}
	fatalTree("unknown statement node type %T", s)
	return nil
}

func aliasList(n *node, list []js.Alias) {
	n.T("{")
	for j, a := range list {
		if j > 0 {
			n.T(",")
		}
		if a.Binding != nil { // an empty alias stands for the trailing comma
			if a.Name != nil {
				n.Tb(a.Name).T("as")
			}
			n.Tb(a.Binding)
		}
	}
	n.T("}")
}

func importStmt(x *js.ImportStmt) *node {
	n := nd("import", "").T("import")
	if x.Default != nil {
		n.Tb(x.Default)
		if x.List != nil {
			n.T(",")
		}
	}
	if len(x.List) == 1 && string(x.List[0].Name) == "*" {
		n.T("*", "as").Tb(x.List[0].Binding)
	} else if x.List != nil {
		aliasList(n, x.List)
	}
	if x.Default != nil || x.List != nil {
		n.T("from")
	}
	return n.Tb(x.Module)
}

func exportStmt(x *js.ExportStmt) *node {
	n := nd("export", "").T("export")
	if x.Decl != nil {
		if x.Default {
			n.op = "default"
			n.T("default")
		}
		switch d := x.Decl.(type) {
		case *js.VarDecl:
			return n.C(varDecl(d))
		case *js.FuncDecl:
			return n.C(funcDecl(d, "fdecl"))
		case *js.ClassDecl:
			return n.C(classDecl(d, "cdecl"))
		}
		return n.C(expr(x.Decl))
	}
	if len(x.List) == 1 && string(x.List[0].Name) == "*" {
		n.T("*", "as").Tb(x.List[0].Binding)
	} else if len(x.List) == 1 && x.List[0].Name == nil && string(x.List[0].Binding) == "*" {
		n.T("*")
	} else {
		aliasList(n, x.List)
	}
	if x.Module != nil {
		n.T("from").Tb(x.Module)
	}
	return n
}

func params(p *js.Params, arrow bool) *node {
	n := nd("ps", "")
	if arrow && p.Rest == nil && len(p.List) == 1 && p.List[0].Default == nil {
		if _, ok := p.List[0].Binding.(*js.Var); ok { // `a => b` and `(a) => b` are the same tree
			return n.tok(mGOpen, "").tok(mGTok, "(").C(binding(p.List[0].Binding)).tok(mGOpt, ",").tok(mGTok, ")").tok(mGClose, "")
		}
	}
	n.T("(")
	for i, be := range p.List {
		if i > 0 {
			n.T(",")
		}
		n.C(bindingElement(be))
	}
	if p.Rest != nil {
		if len(p.List) > 0 {
			n.T(",")
		}
		n.op = "r"
		n.T("...").C(binding(p.Rest))
	} else if len(p.List) > 0 {
		n.O(",")
	}
	return n.T(")")
}

func bindingElement(be js.BindingElement) *node {
	if be.Default != nil {
		return nd("bdef", "").C(binding(be.Binding)).T("=").C(expr(be.Default))
	}
	return binding(be.Binding)
}

func propName(n *node, p *js.PropertyName) {
	if p.Computed != nil {
		n.T("[").C(expr(p.Computed)).T("]")
		return
	}
	// parsePropertyName keeps 'a' / "a" as the identifier a and '1' as the number 1
	n.tok(mKey, string(p.Literal.Data))
}

func binding(b js.IBinding) *node {
	switch x := b.(type) {
	case *js.Var:
		return nd("bid", "").Tb(x.Data)
	case *js.BindingArray:
		n := nd("barr", "").T("[")
		for i, be := range x.List {
			if be.Binding != nil {
				n.C(bindingElement(be))
			}
			if i+1 < len(x.List) || x.Rest != nil {
				n.T(",")
			}
		}
		if x.Rest != nil {
			n.op = "r"
			n.T("...").C(binding(x.Rest))
		} else {
			n.tok(mStar, ",")
		}
		return n.T("]")
	case *js.BindingObject:
		n := nd("bobj", "").T("{")
		for i, it := range x.List {
			if i > 0 {
				n.T(",")
			}
			var c *node
			if it.Key == nil {
				c = nd("bpkv", "").C(bindingElement(it.Value))
			} else if it.Key.Computed != nil {
				c = nd("bpcomp", "")
				propName(c, it.Key)
				c.T(":").C(bindingElement(it.Value))
			} else if v, ok := it.Value.Binding.(*js.Var); ok && it.Key.IsIdent(v.Data) { // {a} and {a: a} are the same tree
				c = nd("bpkv", "").tok(mGOpen, "").tok(mGKey, string(it.Key.Literal.Data)).tok(mGTok, ":").tok(mGClose, "").C(bindingElement(it.Value))
			} else {
				c = nd("bpkv", "")
				propName(c, it.Key)
				c.T(":").C(bindingElement(it.Value))
			}
			n.C(c)
		}
		if x.Rest != nil {
			if len(x.List) > 0 {
				n.T(",")
			}
			n.op = "r"
			n.T("...").Tb(x.Rest.Data)
		} else if len(x.List) > 0 {
			n.O(",")
		}
		return n.T("}")
	}
	fatalTree("unknown binding node type %T", b)
	return nil
}

func funcDecl(f *js.FuncDecl, kind string) *node {
	n := nd(kind, fnOp(f.Async, f.Generator))
	if f.Async {
		n.T("async").NoNL()
	}
	n.T("function")
	if f.Generator {
		n.T("*")
	}
	if f.Name != nil {
		n.Tb(f.Name.Data)
		if kind == "fn" {
			n.k = "fnn"
		}
	}
	return n.C(params(&f.Params, false)).C(block(&f.Body)).ctx(fnCtx(f.Async, f.Generator), 1)
}

func methodDecl(m *js.MethodDecl, kind string) *node {
	n := nd(kind, fnOp(m.Async, m.Generator))
	if m.Static {
		n.T("static")
		if kind == "meth" {
			n.k = "smeth"
		}
	}
	if m.Async {
		n.T("async").NoNL()
	}
	if m.Generator {
		n.T("*")
	}
	if m.Get {
		n.T("get")
		n.op = "get"
	}
	if m.Set {
		n.T("set")
		n.op = "set"
	}
	from := 1
	if m.Name.Private != nil {
		n.Tb(m.Name.Private.Data)
	} else {
		if m.Name.Computed != nil {
			n.k = "cmeth"
			from = 2
		}
		propName(n, &m.Name.PropertyName)
	}
	return n.C(params(&m.Params, false)).C(block(&m.Body)).ctx(fnCtx(m.Async, m.Generator), from)
}

func classDecl(c *js.ClassDecl, kind string) *node {
	n := nd(kind, "").T("class")
	if c.Name != nil {
		n.Tb(c.Name.Data)
		if kind == "cls" {
			n.k = "clsn"
		}
	}
	if c.Extends != nil {
		n.op = "x"
		n.T("extends").C(expr(c.Extends))
	}
	n.T("{").tok(mStar, ";")
	for i := range c.List {
		el := &c.List[i]
		switch {
		case el.StaticBlock != nil:
			n.C(nd("sblock", "").T("static").C(block(el.StaticBlock)).ctx("sblock", 1))
		case el.Method != nil:
			n.C(methodDecl(el.Method, "meth"))
		default:
			f := nd("field", "")
			if el.Static {
				f.k = "sfield"
				f.T("static")
			}
			if el.Name.Private != nil {
				f.k = "pfield"
				f.Tb(el.Name.Private.Data)
			} else {
				if el.Name.Computed != nil {
					f.k = "cfield"
				}
				propName(f, &el.Name.PropertyName)
			}
			if el.Init != nil {
				f.T("=").C(expr(el.Init))
			}
			n.C(f)
		}
		n.tok(mStar, ";")
	}
	return n.T("}")
}

func unaryText(t js.TokenType) (kind, text string) {
	switch t {
	case js.PosToken:
		return "un", "+"
	case js.NegToken:
		return "un", "-"
	case js.PreIncrToken:
		return "pre", "++"
	case js.PreDecrToken:
		return "pre", "--"
	case js.PostIncrToken:
		return "post", "++"
	case js.PostDecrToken:
		return "post", "--"
	case js.NotToken, js.BitNotToken, js.TypeofToken, js.VoidToken, js.DeleteToken, js.AwaitToken:
		return "un", t.String()
	}
	fatalTree("unknown unary operator %v", t)
	return "", ""
}

func args(n *node, a *js.Args) {
	n.T("(")
	for i, x := range a.List {
		if i > 0 {
			n.T(",")
		}
		if x.Rest {
			n.C(nd("spread", "").T("...").C(expr(x.Value)))
		} else {
			n.C(expr(x.Value))
		}
	}
	if len(a.List) > 0 {
		n.O(",")
	}
	n.T(")")
}

func literal(l *js.LiteralExpr) *node { return nd("lit", "").Tb(l.Data) }

func expr(e js.IExpr) *node {
	switch x := e.(type) {
	case *js.Var:
		return nd("id", "").Tb(x.Data)
	case *js.LiteralExpr:
		return literal(x)
	case js.LiteralExpr:
		return literal(&x)
	case *js.ArrayExpr:
		n := nd("arr", "").T("[")
		for i, el := range x.List {
			last := i+1 == len(x.List)
			if el.Value == nil { // a hole: only its comma
				n.T(",")
				continue
			}
			if el.Spread {
				n.C(nd("spread", "").T("...").C(expr(el.Value)))
			} else {
				n.C(expr(el.Value))
			}
			if last {
				n.O(",")
			} else {
				n.T(",")
			}
		}
		return n.T("]")
	case *js.ObjectExpr:
		n := nd("obj", "").T("{")
		for i := range x.List {
			if i > 0 {
				n.T(",")
			}
			n.C(property(&x.List[i]))
		}
		if len(x.List) > 0 {
			n.O(",")
		}
		return n.T("}")
	case *js.TemplateExpr:
		n := nd("tpl", "")
		if x.Tag != nil {
			n.k = "tag"
			n.C(expr(x.Tag))
			if x.Optional {
				n.k = "otag"
				n.T("?.")
			}
		}
		for _, p := range x.List {
			n.Tb(p.Value).C(expr(p.Expr))
		}
		return n.Tb(x.Tail)
	case *js.GroupExpr:
		return nd("grp", "").T("(").C(expr(x.X)).T(")")
	case *js.IndexExpr:
		if x.Optional {
			return nd("oidx", "").C(expr(x.X)).T("?.", "[").C(expr(x.Y)).T("]")
		}
		return nd("idx", "").C(expr(x.X)).T("[").C(expr(x.Y)).T("]")
	case *js.DotExpr:
		n := nd("dot", "").C(expr(x.X))
		if x.Optional {
			n.k = "odot"
			n.T("?.")
		} else {
			n.T(".")
		}
		switch y := x.Y.(type) {
		case *js.Var: // a private name
			n.k = map[string]string{"dot": "pdot", "odot": "opdot"}[n.k]
			n.Tb(y.Data)
		case js.LiteralExpr:
			n.Tb(y.Data)
		case *js.LiteralExpr:
			n.Tb(y.Data)
		default:
			fatalTree("unknown member name node type %T", x.Y)
		}
		return n
	case *js.NewTargetExpr:
		return nd("nt", "").T("new", ".", "target")
	case *js.ImportMetaExpr:
		return nd("im", "").T("import", ".", "meta")
	case *js.NewExpr:
		if x.Args == nil { // `new a` and `new a()` are the same tree
			return nd("newx", "").T("new").C(expr(x.X)).tok(mGOpen, "").tok(mGTok, "(").tok(mGTok, ")").tok(mGClose, "")
		}
		n := nd("newa", "").T("new").C(expr(x.X))
		args(n, x.Args)
		return n
	case *js.CallExpr:
		n := nd("call", "").C(expr(x.X))
		if x.Optional {
			n.k = "ocall"
			n.T("?.")
		}
		args(n, &x.Args)
		return n
	case *js.UnaryExpr:
		k, t := unaryText(x.Op)
		if k == "post" {
			return nd(k, t).C(expr(x.X)).NoNL().T(t)
		}
		return nd(k, t).T(t).C(expr(x.X))
	case *js.BinaryExpr:
		t := x.Op.String()
		switch {
		case binOps[t]:
			return nd("bin", t).C(expr(x.X)).T(t).C(expr(x.Y))
		case asgOps[t]:
			return nd("asg", t).C(expr(x.X)).T(t).C(expr(x.Y))
		}
		fatalTree("unknown binary operator %q", t)
	case *js.CondExpr:
		return nd("cond", "").C(expr(x.Cond)).T("?").C(expr(x.X)).T(":").C(expr(x.Y))
	case *js.YieldExpr:
		if x.X == nil {
			n := nd("yield0", "").T("yield")
			if x.Generator {
				fatalTree("yield* without an operand")
			}
			return n
		}
		if x.Generator {
			return nd("yields", "").T("yield").NoNL().T("*").C(expr(x.X))
		}
		return nd("yield", "").T("yield").NoNL().C(expr(x.X))
	case *js.ArrowFunc:
		n := nd("arrowb", "")
		cx := "arrow"
		if x.Async {
			n.op = "async"
			n.T("async").NoNL()
			cx = "aarrow"
		}
		n.C(params(&x.Params, true)).NoNL().T("=>")
		if len(x.Body.List) == 1 {
			if r, ok := x.Body.List[0].(*js.ReturnStmt); ok && r.Value != nil { // `a => b` and `a => {return b}` are the same tree
				ret := nd("ret", "").tok(mGTok, "return").C(expr(r.Value)).tok(mGOpt, ";")
				return n.C(nd("blk", "").tok(mGOpen, "").tok(mGTok, "{").C(ret).tok(mGTok, "}").tok(mGClose, "")).ctx(cx, 2)
			}
		}
		return n.C(block(&x.Body)).ctx(cx, 2) // ArrowParameters[?Yield, ?Await]: the parameters are read in the context of the surroundings
	case *js.CommaExpr:
		n := nd("comma", "")
		for i, y := range x.List {
			if i > 0 {
				n.T(",")
			}
			n.C(expr(y))
		}
		return n
	case *js.FuncDecl:
		return funcDecl(x, "fn")
	case *js.ClassDecl:
		return classDecl(x, "cls")
	case *js.MethodDecl:
		return methodDecl(x, "pmeth")
	case *js.VarDecl:
		return varDecl(x)
	}
	fatalTree("unknown expression node type %T", e)
	return nil
}

func property(p *js.Property) *node {
	if p.Spread {
		return nd("pspread", "").T("...").C(expr(p.Value))
	}
	if m, ok := p.Value.(*js.MethodDecl); ok && p.Name == nil {
		return methodDecl(m, "pmeth")
	}
	if p.Name == nil {
		fatalTree("property without a name that is neither a spread nor a method")
	}
	if p.Init != nil { // {a = 1}: CoverInitializedName
		return nd("pshi", "").C(expr(p.Value)).T("=").C(expr(p.Init))
	}
	if p.Name.Computed != nil {
		n := nd("pcomp", "")
		propName(n, p.Name)
		return n.T(":").C(expr(p.Value))
	}
	if v, ok := p.Value.(*js.Var); ok && p.Name.IsIdent(v.Data) { // {a} and {a: a} and {'a': a} are the same tree
		return nd("pkv", "").tok(mGOpen, "").tok(mGKey, string(p.Name.Literal.Data)).tok(mGTok, ":").tok(mGClose, "").C(expr(p.Value))
	}
	n := nd("pkv", "")
	propName(n, p.Name)
	return n.T(":").C(expr(p.Value))
}

func program(a *js.AST) *node {
	return stmtList(nd("prog", ""), a.BlockStmt.List)
}

// ---------------------------------------------------------------- the token list of the input, by js.Lexer alone

type lexTok struct {
	tt   js.TokenType
	text string
	sig  bool // significant: not white space / comment / line terminator
}

// after which token a '/' can only be a division (d), can only start a regular expression (r), or either (a): the lexical grammar leaves it
// to the syntactic one (ECMA-262 12.1, InputElementDiv / InputElementRegExp)
func slashAfter(prev *lexTok, newline bool) byte {
	if prev == nil {
		return 'r'
	}
	if c := slashAfterSameLine(prev); c != 'd' || !newline {
		return c
	}
	// on a new line after something that ends an expression: a division unless a division is impossible there (`let a` / `break L` / a class
	// field, then a regular expression after automatic semicolon insertion) - the syntactic grammar decides
	return 'a'
}

func slashAfterSameLine(prev *lexTok) byte {
	switch prev.tt {
	case js.CloseParenToken, js.CloseBraceToken, js.IncrToken, js.DecrToken, js.YieldToken, js.AwaitToken, js.OfToken:
		return 'a'
	case js.CloseBracketToken, js.StringToken, js.RegExpToken, js.TemplateToken, js.TemplateEndToken, js.PrivateIdentifierToken,
		js.ThisToken, js.SuperToken, js.NullToken, js.TrueToken, js.FalseToken:
		return 'd'
	}
	if js.IsNumeric(prev.tt) || js.IsIdentifier(prev.tt) {
		return 'd'
	}
	return 'r'
}

// lexAll runs js.Lexer over the whole input; ambiguous slashes are read as division (regexp=false) or as regular expressions.
func lexAll(src []byte, regexp bool) (toks []lexTok, ambiguous int, ok bool) {
	if len(src) > 1 && src[0] == '#' && src[1] == '!' { // Hashbang comment
		i := 2
		for i < len(src) && src[i] != '\n' && src[i] != '\r' && !(i+2 < len(src) && src[i] == 0xE2 && src[i+1] == 0x80 && (src[i+2] == 0xA8 || src[i+2] == 0xA9)) {
			i++
		}
		toks = append(toks, lexTok{js.CommentToken, string(src[:i]), false})
		src = src[i:]
	}
	l := js.NewLexer(parse.NewInputBytes(src))
	var prev *lexTok
	newline := false
	for {
		tt, data := l.Next()
		if tt == js.ErrorToken {
			return toks, ambiguous, l.Err() == io.EOF
		}
		if tt == js.LineTerminatorToken || tt == js.CommentLineTerminatorToken {
			newline = true
		}
		if tt == js.DivToken || tt == js.DivEqToken {
			c := slashAfter(prev, newline)
			if c == 'a' {
				ambiguous++
			}
			if c == 'r' || c == 'a' && regexp {
				tt, data = l.RegExp()
				if tt == js.ErrorToken {
					return toks, ambiguous, false
				}
			}
		}
		sig := tt != js.WhitespaceToken && tt != js.LineTerminatorToken && tt != js.CommentToken && tt != js.CommentLineTerminatorToken
		toks = append(toks, lexTok{tt, string(data), sig})
		if sig {
			prev = &toks[len(toks)-1]
			newline = false
		}
	}
}

// ---------------------------------------------------------------- events

type interner struct {
	ids   map[string]int
	names []string
}

func (in *interner) id(s string) int {
	if v, ok := in.ids[s]; ok {
		return v
	}
	in.names = append(in.names, s)
	in.ids[s] = len(in.names)
	return len(in.names)
}

func tokIDs(in *interner, toks []lexTok) (ids, alt, nl []int) {
	ids, alt, nl = []int{}, []int{}, []int{}
	newline := 0
	for _, t := range toks {
		if !t.sig {
			if t.tt == js.LineTerminatorToken || t.tt == js.CommentLineTerminatorToken {
				newline = 1
			}
			continue
		}
		nl = append(nl, newline)
		newline = 0
		ids = append(ids, in.id(t.text))
		a := 0
		if t.tt == js.StringToken && len(t.text) >= 2 {
			a = in.id(t.text[1 : len(t.text)-1])
		}
		alt = append(alt, a)
	}
	return append(ids, 0), append(alt, 0), append(nl, 0)
}

// emit writes the nodes in pre-order
func emit(w *tr.Writer, in *interner, n *node, depth int, kinds map[string]int) int {
	groups := make([][]int, 1, n.nchild+1)
	groups[0] = []int{}
	ck := make([]string, 0, n.nchild)
	for _, p := range n.parts {
		if p.child != nil {
			ck = append(ck, p.child.k)
			groups = append(groups, []int{})
			continue
		}
		mode, id := p.mode&15, 0
		if mode != mGOpen && mode != mGClose && mode != mWild && mode != mNoNL {
			id = in.id(p.text)
		}
		groups[len(groups)-1] = append(groups[len(groups)-1], id*16+mode)
	}
	kinds[n.k]++
	w.Ev("Node", tr.E{"d": depth, "k": n.k, "op": n.op, "n": n.nchild, "ck": ck, "g": groups, "fx": n.fx, "ff": n.ff})
	count := 1
	for _, p := range n.parts {
		if p.child != nil {
			count += emit(w, in, p.child, depth+1, kinds)
		}
	}
	return count
}

func countNodes(n *node) int {
	c := 1
	for _, p := range n.parts {
		if p.child != nil {
			c += countNodes(p.child)
		}
	}
	return c
}

type treeStats struct {
	Tried, Accepted, Rejected, Panics, Skipped, SkippedAmbiguous, SkippedBig, LexDisagree int
	Nodes, Derivable                                                                      int
	Kinds                                                                                 map[string]int
	ByOrigin                                                                              map[string]int
}

// one input: parse; if accepted, write its trace. Returns false if nothing was written.
// der: the input is an un-mutated program that a generator specification derives (JsGrammar accept case, ScopeSem program with verdict accepted,
// PrinterGen program): only for those does property C03 say what the tree must be; everything else (test literals, mutations) is "other".
func treeTrace(w *tr.Writer, dict *bufio.Writer, tid int, src []byte, origin string, der bool, st *treeStats, maxNodes int) bool {
	st.Tried++
	var a *js.AST
	var err error
	panicked := ""
	func() {
		defer func() {
			if x := recover(); x != nil {
				panicked = fmt.Sprint(x)
			}
		}()
		a, err = js.Parse(parse.NewInputBytes(src), js.Options{})
	}()
	if panicked != "" { // crashes are C01's subject
		st.Panics++
		return false
	}
	if err != nil || a == nil {
		st.Rejected++
		return false
	}
	t1, amb, ok1 := lexAll(src, false)
	if amb > 1 {
		st.SkippedAmbiguous++
		return false
	}
	var t2 []lexTok
	ok2 := false
	if amb == 1 {
		t2, _, ok2 = lexAll(src, true)
	}
	if !ok1 && !ok2 {
		st.LexDisagree++ // js.Parse accepted what js.Lexer, driven without the parser, cannot finish: a '/' whose reading the heuristic got wrong
		return false
	}
	if !ok1 {
		t1, t2, ok2 = t2, nil, false
	}
	root := program(a)
	if n := countNodes(root); n > maxNodes {
		st.SkippedBig++
		return false
	}
	in := &interner{ids: map[string]int{}}
	ids, alt, nl := tokIDs(in, t1)
	ids2, alt2, nl2 := []int{}, []int{}, []int{}
	if ok2 {
		ids2, alt2, nl2 = tokIDs(in, t2)
	}
	w.Begin(tid)
	w.Ev("Open", tr.E{"src": tr.Ints(src), "toks": ids, "alt": alt, "nl": nl, "toks2": ids2, "alt2": alt2, "nl2": nl2, "origin": origin, "der": der})
	st.Nodes += emit(w, in, root, 0, st.Kinds)
	w.Ev("Close", tr.E{})
	w.End(true)
	if dict != nil { // the texts behind the numbers, for the reader of a rejected trace (not part of the trace)
		b, _ := json.Marshal(map[string]interface{}{"t": tid, "names": in.names})
		dict.Write(append(b, '\n'))
	}
	st.Accepted++
	st.ByOrigin[origin]++
	if der {
		st.Derivable++
	}
	return true
}

// ---------------------------------------------------------------- mutations of an input (token level)

// a line break is accepted far more often than the other mutations: weigh the kinds so that the accepted mutants are mixed
var mutKindsWeighted = []string{"del", "del", "dup", "dup", "swap", "swap", "swap", "nl", "unparen", "unparen", "unparen", "paren", "paren", "paren"}

func sigIdx(toks []lexTok) []int {
	var out []int
	for i, t := range toks {
		if t.sig {
			out = append(out, i)
		}
	}
	return out
}

func joinToks(toks []lexTok) []byte {
	var b strings.Builder
	for _, t := range toks {
		b.WriteString(t.text)
	}
	return []byte(b.String())
}

// mutate returns up to n seeded single mutations of src: a token deleted, duplicated, swapped with its neighbour, a line break put in,
// a pair of parentheses taken out or put in.
func mutate(src []byte, n int, rnd *rand.Rand) (out [][]byte, kinds []string) {
	toks, _, _ := lexAll(src, false)
	sig := sigIdx(toks)
	if len(sig) == 0 {
		return nil, nil
	}
	cp := func() []lexTok { return append([]lexTok{}, toks...) }
	sp := lexTok{js.WhitespaceToken, " ", false}
	for k := 0; k < n; k++ {
		t := cp()
		i := sig[rnd.Intn(len(sig))]
		kind := mutKindsWeighted[rnd.Intn(len(mutKindsWeighted))]
		switch kind {
		case "del":
			t[i] = sp
		case "dup":
			t = append(t[:i+1], append([]lexTok{sp, toks[i]}, t[i+1:]...)...)
		case "swap":
			j := -1
			for _, x := range sig {
				if x > i {
					j = x
					break
				}
			}
			if j < 0 {
				continue
			}
			t[i], t[j] = t[j], t[i]
		case "nl":
			t = append(t[:i], append([]lexTok{{js.LineTerminatorToken, "\n", false}}, t[i:]...)...)
		case "unparen":
			var opens []int
			for _, x := range sig {
				if toks[x].text == "(" {
					opens = append(opens, x)
				}
			}
			if len(opens) == 0 {
				continue
			}
			o := opens[rnd.Intn(len(opens))]
			depth, c := 0, -1
			for _, x := range sig {
				if x < o {
					continue
				}
				if toks[x].text == "(" {
					depth++
				} else if toks[x].text == ")" {
					depth--
					if depth == 0 {
						c = x
						break
					}
				}
			}
			if c < 0 {
				continue
			}
			t[o], t[c] = sp, sp
		case "paren":
			// around a run of 1..4 tokens that is balanced in itself
			a := rnd.Intn(len(sig))
			b := a + rnd.Intn(4)
			if b >= len(sig) {
				b = len(sig) - 1
			}
			depth, okb := 0, true
			for x := a; x <= b; x++ {
				switch toks[sig[x]].text {
				case "(", "[", "{":
					depth++
				case ")", "]", "}":
					depth--
				}
				if depth < 0 {
					okb = false
				}
			}
			if !okb || depth != 0 {
				continue
			}
			ia, ib := sig[a], sig[b]
			nt := append([]lexTok{}, toks[:ia]...)
			nt = append(nt, lexTok{js.OpenParenToken, "(", true})
			nt = append(nt, toks[ia:ib+1]...)
			nt = append(nt, lexTok{js.CloseParenToken, ")", true})
			nt = append(nt, toks[ib+1:]...)
			t = nt
		}
		out = append(out, joinToks(t))
		kinds = append(kinds, kind)
	}
	return out, kinds
}

// ---------------------------------------------------------------- completeness of the type switches

// nodeTypes lists the struct types of js/ast.go that have a JS(io.Writer) method: the node types.
func nodeTypes(repo string) []string {
	fset := token.NewFileSet()
	f, err := goparser.ParseFile(fset, filepath.Join(repo, "js", "ast.go"), nil, 0)
	if err != nil {
		fatalTree("cannot read js/ast.go: %v", err)
	}
	structs := map[string]bool{}
	hasJS := map[string]bool{}
	for _, d := range f.Decls {
		switch x := d.(type) {
		case *ast.GenDecl:
			for _, s := range x.Specs {
				if ts, ok := s.(*ast.TypeSpec); ok {
					if _, ok := ts.Type.(*ast.StructType); ok {
						structs[ts.Name.Name] = true
					}
				}
			}
		case *ast.FuncDecl:
			if x.Name.Name == "JS" && x.Recv != nil && len(x.Recv.List) == 1 {
				t := x.Recv.List[0].Type
				if s, ok := t.(*ast.StarExpr); ok {
					t = s.X
				}
				if id, ok := t.(*ast.Ident); ok {
					hasJS[id.Name] = true
				}
			}
		}
	}
	var out []string
	for n := range structs {
		if hasJS[n] {
			out = append(out, n)
		}
	}
	sort.Strings(out)
	return out
}

// the node types this encoder transcribes (directly or as part of their parent)
var handledTypes = []string{"AST", "Alias", "Arg", "Args", "ArrayExpr", "ArrowFunc", "BinaryExpr", "BindingArray", "BindingElement", "BindingObject", "BindingObjectItem",
	"BlockStmt", "BranchStmt", "CallExpr", "CaseClause", "ClassDecl", "ClassElement", "ClassElementName", "Comment", "CommaExpr", "CondExpr", "DebuggerStmt",
	"DirectivePrologueStmt", "DoWhileStmt", "DotExpr", "Element", "EmptyStmt", "ExportStmt", "ExprStmt", "Field", "ForInStmt", "ForOfStmt", "ForStmt", "FuncDecl", "GroupExpr",
	"IfStmt", "ImportMetaExpr", "ImportStmt", "IndexExpr", "LabelledStmt", "LiteralExpr", "MethodDecl", "NewExpr", "NewTargetExpr", "ObjectExpr", "Params", "Property",
	"PropertyName", "ReturnStmt", "SwitchStmt", "TemplateExpr", "TemplatePart", "ThrowStmt", "TryStmt", "UnaryExpr", "Var", "VarDecl", "WhileStmt", "WithStmt", "YieldExpr"}

func checkNodeTypes() {
	known := map[string]bool{}
	for _, h := range handledTypes {
		known[h] = true
	}
	var missing []string
	for _, t := range nodeTypes(reg.Repo()) {
		if !known[t] {
			missing = append(missing, t)
		}
	}
	if len(missing) > 0 {
		fatalTree("js/ast.go has node types the tree encoder does not know: %s", strings.Join(missing, ", "))
	}
}

// ---------------------------------------------------------------- modes

func openDict(path string) (*bufio.Writer, func()) {
	if path == "" {
		return nil, func() {}
	}
	f, err := os.Create(path)
	if err != nil {
		fatalTree("%v", err)
	}
	bw := bufio.NewWriterSize(f, 1<<20)
	return bw, func() { bw.Flush(); f.Close() }
}

type inputT struct {
	src    []byte
	origin string
	der    bool
}

func readInputsFile(path string, fn func([]byte)) {
	f, err := os.Open(path)
	if err != nil {
		fatalTree("%v", err)
	}
	defer f.Close()
	sc := bufio.NewScanner(f)
	sc.Buffer(make([]byte, 1<<20), 1<<26)
	for sc.Scan() {
		var o struct {
			Input []int `json:"input"`
			Src   []int `json:"src"`
		}
		if err := json.Unmarshal(sc.Bytes(), &o); err != nil {
			fatalTree("bad line in %s: %v", path, err)
		}
		if o.Input == nil {
			o.Input = o.Src
		}
		fn(toBytes(o.Input))
	}
}

func hash64(b []byte) int64 {
	h := fnv.New64a()
	h.Write(b)
	return int64(h.Sum64() >> 1)
}

// Tree: record the trees of harvested literals, generator programs (-cases: JsGrammar cases; -extra: {input:[bytes]} files of other
// suites' generators) and seeded mutations of all of them.
func Tree(args []string) {
	fs := flag.NewFlagSet("jsgram tree", flag.ExitOnError)
	cases := fs.String("cases", "", "comma-separated ndjson case files of JsGrammar.tla")
	extra := fs.String("extra", "", "comma-separated ndjson files {input:[bytes]} (programs of the scope / printer generators)")
	out := fs.String("out", "", "trace file")
	seed := fs.Int64("seed", 1, "seed")
	perCases := fs.Int("percases", 400, "programs to take from each case file (seeded choice)")
	perExtra := fs.Int("perextra", 600, "programs to take from each extra file (seeded choice)")
	nmut := fs.Int("muts", 4, "mutations per base program")
	maxNodes := fs.Int("maxnodes", 1500, "skip trees with more nodes")
	maxEvents := fs.Int("maxevents", 250000, "stop recording after this many events")
	dictPath := fs.String("dict", "", "side file: per trace the token texts behind the numbers")
	boost := fs.String("boost", "", "case files whose name contains this get four times the share (operator pairs)")
	fs.Parse(args)
	checkNodeTypes()
	rnd := rand.New(rand.NewSource(*seed*7919 + 13))
	var base []inputT
	seen := map[string]bool{}
	at := map[string]int{}
	add := func(src []byte, origin string) {
		der := origin == "jsgram" || origin == "scope" || origin == "printer"
		if len(src) == 0 {
			return
		}
		if seen[string(src)] {
			if i, ok := at[string(src)]; ok && der && !base[i].der { // a test literal that a generator also derives
				base[i].origin, base[i].der = origin, true
			}
			return
		}
		seen[string(src)] = true
		at[string(src)] = len(base)
		base = append(base, inputT{src, origin, der})
	}
	for _, lit := range lexers.HarvestLiterals(reg.Repo())["js"] {
		add([]byte(lit), "harvest")
	}
	nh := len(base)
	pick := func(all [][]byte, n int, origin string) {
		if len(all) > n {
			rnd.Shuffle(len(all), func(i, j int) { all[i], all[j] = all[j], all[i] })
			all = all[:n]
		}
		for _, s := range all {
			add(s, origin)
		}
	}
	for _, f := range strings.Split(*extra, ",") {
		if f == "" {
			continue
		}
		var all [][]byte
		readInputsFile(f, func(b []byte) { all = append(all, b) })
		origin := "extra"
		if strings.Contains(filepath.Base(f), "scope") {
			origin = "scope"
		} else if strings.Contains(filepath.Base(f), "printer") {
			origin = "printer"
		}
		pick(all, *perExtra, origin)
	}
	nBeforeGrammar := len(base)
	for _, f := range strings.Split(*cases, ",") {
		if f == "" {
			continue
		}
		// choose first (seeded), decode only what was chosen
		type rawCase struct {
			line int
			raw  []byte
		}
		var lines []rawCase
		if err := tr.ReadCases(f, func(line int, raw []byte) {
			if strings.Contains(string(raw), `"kind":"accept"`) {
				lines = append(lines, rawCase{line, append([]byte{}, raw...)})
			}
		}); err != nil {
			fatalTree("%v", err)
		}
		share := *perCases
		if *boost != "" && strings.Contains(filepath.Base(f), *boost) {
			share *= 4
		}
		if len(lines) > share {
			rnd.Shuffle(len(lines), func(i, j int) { lines[i], lines[j] = lines[j], lines[i] })
			lines = lines[:share]
			sort.Slice(lines, func(i, j int) bool { return lines[i].line < lines[j].line })
		}
		var all [][]byte
		for _, rc := range lines {
			var c tcase
			if err := json.Unmarshal(rc.raw, &c); err != nil {
				fatalTree("bad case line %d of %s: %v", rc.line, f, err)
			}
			all = append(all, []byte(expand(&c, *seed, rc.line, 0)[0].src))
		}
		pick(all, share, "jsgram")
	}
	rnd.Shuffle(len(base)-nBeforeGrammar, func(i, j int) {
		base[nBeforeGrammar+i], base[nBeforeGrammar+j] = base[nBeforeGrammar+j], base[nBeforeGrammar+i]
	})
	st := &treeStats{Kinds: map[string]int{}, ByOrigin: map[string]int{}}
	w := tr.NewWriter(*out)
	dict, closeDict := openDict(*dictPath)
	defer closeDict()
	tid := 0
	mutKinds := map[string]int{}
	for _, b := range base {
		if w.Events >= *maxEvents {
			st.Skipped++
			continue
		}
		tid++
		treeTrace(w, dict, tid, b.src, b.origin, b.der, st, *maxNodes)
		mr := rand.New(rand.NewSource(hash64(b.src) ^ *seed))
		ms, ks := mutate(b.src, *nmut, mr)
		for i, m := range ms {
			if seen[string(m)] {
				continue
			}
			seen[string(m)] = true
			tid++
			if treeTrace(w, dict, tid, m, b.origin+"+"+ks[i], false, st, *maxNodes) {
				mutKinds[ks[i]]++
			}
		}
	}
	w.Close()
	json.NewEncoder(os.Stdout).Encode(map[string]interface{}{"suite": "jsgram", "mode": "tree", "harvested": nh, "base": len(base), "tried": st.Tried, "accepted": st.Accepted, "accepted_derivable": st.Derivable,
		"rejected_by_parse": st.Rejected, "panics": st.Panics, "not_recorded_budget": st.Skipped, "skipped_two_ambiguous_slashes": st.SkippedAmbiguous, "skipped_big": st.SkippedBig,
		"lexer_alone_fails": st.LexDisagree, "nodes": st.Nodes, "traces": w.Traces, "events": w.Events, "kinds": st.Kinds, "by_origin": st.ByOrigin, "accepted_mutations": mutKinds,
		"node_types": len(handledTypes)})
}

// explain prints the tokens of the input and the nodes of the tree with the terminals they own (reproduction aid).
func explain(src []byte) {
	a, err := js.Parse(parse.NewInputBytes(src), js.Options{})
	if err != nil {
		fmt.Printf("js.Parse(%q): error %v\n", src, strings.SplitN(err.Error(), "\n", 2)[0])
		return
	}
	fmt.Printf("js.Parse(%q)\n  String(): %s\n", src, a.String())
	t1, amb, ok := lexAll(src, false)
	var texts []string
	for _, t := range t1 {
		if t.sig {
			texts = append(texts, t.text)
		}
	}
	fmt.Printf("  tokens (js.Lexer, %d ambiguous '/', complete=%v): %q\n", amb, ok, texts)
	var walk func(n *node, d int)
	modeName := []string{"", "?", "<(", ")>", "g:", "n:", "g?:", "any", "eof|", "*", "name:", "g:name:", "[no LineTerminator here]"}
	walk = func(n *node, d int) {
		var own []string
		for _, p := range n.parts {
			if p.child != nil {
				own = append(own, "_")
			} else {
				own = append(own, modeName[p.mode&15]+p.text)
			}
		}
		fmt.Printf("  %s%s:%s  %s\n", strings.Repeat("  ", d), n.k, n.op, strings.Join(own, " "))
		for _, p := range n.parts {
			if p.child != nil {
				walk(p.child, d+1)
			}
		}
	}
	walk(program(a), 0)
}

// TreeFile: re-run the inputs of an ndjson file {src:[bytes]} (reproduction, --replay)
func TreeFile(args []string) {
	fs := flag.NewFlagSet("jsgram treefile", flag.ExitOnError)
	in := fs.String("in", "", "ndjson {src:[bytes]}")
	out := fs.String("out", "", "trace file")
	exp := fs.Bool("explain", false, "print tokens and tree")
	dictPath := fs.String("dict", "", "side file: per trace the token texts behind the numbers")
	fs.Parse(args)
	checkNodeTypes()
	st := &treeStats{Kinds: map[string]int{}, ByOrigin: map[string]int{}}
	w := tr.NewWriter(*out)
	dict, closeDict := openDict(*dictPath)
	tid := 0
	readInputsFile(*in, func(b []byte) {
		tid++
		treeTrace(w, dict, tid, b, "file", false, st, 1<<30)
		if *exp {
			explain(b)
		}
	})
	w.Close()
	closeDict()
	json.NewEncoder(os.Stdout).Encode(map[string]interface{}{"suite": "jsgram", "mode": "treefile", "tried": st.Tried, "accepted": st.Accepted, "traces": w.Traces, "events": w.Events})
}

// TreeSrc: explain the texts given as arguments (debugging aid)
func TreeSrc(args []string) {
	for _, s := range args {
		explain([]byte(s))
	}
}

func init() {
	reg.Register("jsgram", "tree", Tree)
	reg.Register("jsgram", "treefile", TreeFile)
	reg.Register("jsgram", "treesrc", TreeSrc)
}
