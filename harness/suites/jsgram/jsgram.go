// Package jsgram drives js.Parse for property C03. Programs come from spec/js/JsGrammar.tla: a token sequence derived from
// the ECMAScript grammar, the rendering of the tree the grammar prescribes in the format of AST.String(), and the places
// where a single bracket mutation / the removal of a mandatory pair of parentheses makes the program ill-formed. The harness
// spells the tokens (separators and identifier names by seed), parses under every Options value and logs one trace per
// program (Open{src, kind, canon, canonw}, Parse{ok, opts, str}) for spec/js/JsGrammarTrace.tla to judge.
package jsgram

import (
	"encoding/json"
	"flag"
	"fmt"
	"math/rand"
	"os"
	"regexp"
	"runtime"
	"strings"
	"sync"

	"github.com/tdewolff/parse/v2"
	"github.com/tdewolff/parse/v2/js"

	"verif/harness/internal/reg"
	"verif/harness/internal/tr"
)

type insT struct {
	At  int    `json:"at"`
	Tok string `json:"tok"`
}
type tcase struct {
	Toks   []string `json:"toks"`
	Kind   string   `json:"kind"`
	Why    string   `json:"why"`
	Canon  []string `json:"canon"`
	CanonW []string `json:"canonw"`
	Del    []int    `json:"del"`
	Ins    []insT   `json:"ins"`
	Ops    []string `json:"ops"`
	Pairs  []string `json:"pairs"`
	Ar     []int    `json:"ar"`
	Nodes  int      `json:"nodes"`
}

// one program to run: source text, expectation
type prog struct {
	src    string
	kind   string // accept | reject
	why    string
	canon  string
	canonw string
	ops    []string
	pairs  []string
	ar     []int
	nl     []string // for every line break of the spelling: "token before|token after"
	nodes  int
	rep    int // > 0: the text parsed is rep copies of "{\n" + src + "\n}\n" (kind "parses")
}

// text is what is handed to js.Parse
func (p *prog) text() string {
	if p.rep > 0 {
		return strings.Repeat("{\n"+p.src+"\n}\n", p.rep)
	}
	return p.src
}

var poolName = regexp.MustCompile(`^[a-z][1]?$`)

func isPoolName(s string) bool {
	if !poolName.MatchString(s) {
		return false
	}
	return true
}

// rename gives the seed's spelling of a generated identifier.
func rename(s string, seed int64) string {
	if !isPoolName(s) {
		return s
	}
	switch seed % 4 {
	case 2:
		return "$" + s
	case 3:
		return s + "_9"
	case 0:
		return "é" + s
	}
	return s
}

func tokText(t string) string {
	switch t {
	case "(:exp", "(:mix":
		return "("
	case "):exp", "):mix":
		return ")"
	case "<nl>", "<lt>", "<lts>":
		// "<nl>": a line break that ends a statement (automatic semicolon insertion); "<lt>": a line break inside a statement;
		// "<lts>": a line break before the semicolon that ends the statement
		return "\n"
	}
	return t
}

func squeezable(t string) bool {
	switch t {
	case "(", ")", "[", "]", "{", "}", ",", ";":
		return true
	}
	return false
}

// join spells a token sequence: single spaces for seed 1, otherwise seeded separators (never a line break).
func join(toks []string, seed int64, rnd *rand.Rand) string {
	var b strings.Builder
	for i, t := range toks {
		tt := tokText(t)
		if i > 0 {
			prev := tokText(toks[i-1])
			if tt == "\n" || prev == "\n" {
				// the line break is the separator
			} else if seed == 1 {
				b.WriteByte(' ')
			} else {
				switch r := rnd.Intn(10); {
				case r < 4 && (squeezable(tt) || squeezable(prev)):
					// nothing
				case r < 6:
					b.WriteString(" ")
				case r == 6:
					b.WriteString("\t ")
				case r == 7:
					b.WriteString(" /* c */ ")
				case r == 8:
					b.WriteString("  ")
				default:
					b.WriteString(" ")
				}
			}
		}
		if tt == "\n" {
			// a line break between two tokens, in every spelling ECMA-262 12.3 / 12.4 counts as one: LF, CR, CR LF, LS, PS, a
			// single-line comment, and a multi-line comment that contains a line terminator (of either kind)
			b.WriteString(nlSpellings[rnd.Intn(len(nlSpellings))])
			continue
		}
		b.WriteString(rename(tt, seed))
	}
	return b.String()
}

var nlSpellings = []string{"\n", "\n", "\r\n", "\r", "\u2028", "\u2029", " // c\n", "/*\n*/", "/* a\u2028b */", "/*\u2029*/", "\n\n", " \n\t"}

func joinCanon(ps []string, seed int64) string {
	var b strings.Builder
	for _, p := range ps {
		b.WriteString(rename(p, seed))
	}
	return b.String()
}

func without(toks []string, idx ...int) []string {
	out := make([]string, 0, len(toks))
	for i, t := range toks {
		skip := false
		for _, j := range idx {
			if i == j {
				skip = true
			}
		}
		if !skip {
			out = append(out, t)
		}
	}
	return out
}

func nlPairs(toks []string) []string {
	out := []string{}
	for i, t := range toks {
		if t == "<nl>" || t == "<lt>" || t == "<lts>" {
			a, b := "", ""
			if i > 0 {
				a = tokText(toks[i-1])
			}
			if i+1 < len(toks) {
				b = tokText(toks[i+1])
			}
			out = append(out, a+"|"+b)
		}
	}
	return out
}

func isOpen(t string) bool  { return t == "(" || t == "[" || t == "{" || t == "(:exp" || t == "(:mix" }
func isClose(t string) bool { return t == ")" || t == "]" || t == "}" || t == "):exp" || t == "):mix" }

// expand turns one generated case into the programs to run: itself, and (for a well-formed one) its ill-formed mutations.
func expand(c *tcase, seed int64, line int, muts int) []prog {
	rnd := rand.New(rand.NewSource(seed*1000003 + int64(line)))
	out := []prog{}
	base := prog{src: join(c.Toks, seed, rnd), kind: c.Kind, why: c.Why, ops: c.Ops, pairs: c.Pairs, ar: c.Ar, nl: nlPairs(c.Toks), nodes: c.Nodes}
	if c.Kind == "accept" {
		base.canon = joinCanon(c.Canon, seed)
		base.canonw = base.canon
		if len(c.CanonW) > 0 {
			base.canonw = joinCanon(c.CanonW, seed)
		}
	}
	out = append(out, base)
	if c.Kind != "accept" {
		return out
	}
	// forbidden operator sequences: remove a tagged pair of parentheses
	for i, t := range c.Toks {
		if t == "(:exp" || t == "(:mix" {
			depth := 0
			for j := i; j < len(c.Toks); j++ {
				if isOpen(c.Toks[j]) {
					depth++
				} else if isClose(c.Toks[j]) {
					depth--
					if depth == 0 {
						why := "unary-minus-before-**"
						if t == "(:mix" {
							why = "??-mixed-with-||-or-&&"
						}
						out = append(out, prog{src: join(without(c.Toks, i, j), seed, rnd), kind: "reject", why: why, ops: c.Ops, pairs: c.Pairs, ar: c.Ar, nodes: c.Nodes})
						break
					}
				}
			}
		}
	}
	if muts == 0 {
		return out
	}
	// one bracket deleted (1-based indices from the specification)
	for _, d := range c.Del {
		if muts < 2 && rnd.Intn(3) != 0 {
			continue
		}
		out = append(out, prog{src: join(without(c.Toks, d-1), seed, rnd), kind: "reject", why: "bracket-deleted:" + tokText(c.Toks[d-1]), ops: c.Ops, pairs: c.Pairs, ar: c.Ar, nodes: c.Nodes})
	}
	// one bracket inserted
	for _, in := range c.Ins {
		if muts < 2 && rnd.Intn(6) != 0 {
			continue
		}
		t2 := append(append(append([]string{}, c.Toks[:in.At]...), in.Tok), c.Toks[in.At:]...)
		out = append(out, prog{src: join(t2, seed, rnd), kind: "reject", why: "bracket-inserted:" + in.Tok, ops: c.Ops, pairs: c.Pairs, ar: c.Ar, nodes: c.Nodes})
	}
	return out
}

// RepCount is how often a program is repeated (as a block) in the repetition cases: above every per-statement limit of the
// parser (1000 nested expressions)
const RepCount = 1100

var allOpts = []js.Options{{}, {WhileToFor: true}, {Inline: true}, {WhileToFor: true, Inline: true}}

type result struct {
	evs      []tr.E
	mismatch bool
}

// runProg parses under every Options value; returns the events of its trace and whether anything differs (pre-check only:
// the verdict is the trace specification's).
func runProg(p *prog) result {
	res := result{}
	if p.ops == nil {
		p.ops = []string{}
	}
	if p.pairs == nil {
		p.pairs = []string{}
	}
	if p.ar == nil {
		p.ar = []int{}
	}
	if p.nl == nil {
		p.nl = []string{}
	}
	open := tr.E{"src": tr.Ints([]byte(p.src)), "kind": p.kind, "why": p.why, "canon": tr.Ints([]byte(p.canon)), "canonw": tr.Ints([]byte(p.canonw)), "ops": p.ops, "pairs": p.pairs, "ar": p.ar, "nl": p.nl, "nodes": p.nodes, "rep": p.rep}
	res.evs = append(res.evs, open)
	for oi, o := range allOpts {
		ev := tr.E{"opts": oi, "w2f": o.WhileToFor}
		func() {
			defer func() {
				if x := recover(); x != nil {
					ev["out"], ev["panic"] = "panic", fmt.Sprint(x)
					ev["ok"] = false
					ev["str"] = []int{}
					res.mismatch = true
				}
			}()
			ast, err := js.Parse(parse.NewInputString(p.text()), o)
			ok := err == nil && ast != nil
			ev["ok"] = ok
			if ok {
				s := ""
				if p.rep == 0 {
					s = ast.String()
				}
				ev["str"] = tr.Ints([]byte(s))
				want := p.canon
				if o.WhileToFor {
					want = p.canonw
				}
				if p.kind == "parses" {
					// a program known to be derivable whose tree is not prescribed here: only acceptance is judged
				} else if p.kind != "accept" || s != want {
					res.mismatch = true
				}
			} else {
				ev["str"] = []int{}
				if err != nil {
					ev["etext"] = strings.SplitN(err.Error(), "\n", 2)[0]
				}
				if p.kind == "accept" || p.kind == "parses" {
					res.mismatch = true
				}
			}
		}()
		res.evs = append(res.evs, ev)
	}
	return res
}

type summary struct {
	Suite      string        `json:"suite"`
	Mode       string        `json:"mode"`
	Cases      int           `json:"cases"`
	Programs   int           `json:"programs"`
	Executions int           `json:"executions"`
	Accept     int           `json:"expected_accept"`
	Reject     int           `json:"expected_reject"`
	Nontrivial int           `json:"distinct_nontrivial"`
	Mismatches int           `json:"mismatches"`
	Traces     int           `json:"traces"`
	Events     int           `json:"events"`
	OpsSeen    []string      `json:"ops_seen"`
	Samples    []interface{} `json:"samples"`
}

func readCases(path string) []tcase {
	var cs []tcase
	err := tr.ReadCases(path, func(line int, raw []byte) {
		var c tcase
		if err := json.Unmarshal(raw, &c); err != nil {
			fmt.Fprintln(os.Stderr, "bad case line", line, err)
			os.Exit(2)
		}
		cs = append(cs, c)
	})
	if err != nil {
		fmt.Fprintln(os.Stderr, err)
		os.Exit(2)
	}
	return cs
}

func Replay(args []string) {
	fs := flag.NewFlagSet("jsgram replay", flag.ExitOnError)
	cases := fs.String("cases", "", "ndjson from JsGrammar.tla")
	out := fs.String("out", "", "trace file")
	seed := fs.Int64("seed", 1, "spelling seed")
	sample := fs.Int("sample", 200, "keep the trace of every n-th agreeing program (all differing ones are kept)")
	muts := fs.Int("muts", 2, "0: no bracket mutations, 1: a seeded third of them, 2: all")
	inputs := fs.String("inputs", "", "also write accepted programs as ndjson {input:[bytes]}")
	probes := fs.String("probes", "", "case file of JsGrammar.tla holding the statement `a in b ;` (appended to programs as a probe for leaked parser state)")
	fs.Parse(args)
	cs := readCases(*cases)
	var inProbe *tcase
	if *probes != "" {
		ps := readCases(*probes)
		for i := range ps {
			if t := ps[i].Toks; ps[i].Kind == "accept" && len(t) == 4 && t[1] == "in" && t[3] == ";" && isPoolName(t[0]) && isPoolName(t[2]) {
				inProbe = &ps[i]
				break
			}
		}
	}
	sum := summary{Suite: "jsgram", Mode: "replay", Cases: len(cs)}
	w := tr.NewWriter(*out)
	var inw *os.File
	if *inputs != "" {
		inw, _ = os.Create(*inputs)
		defer inw.Close()
	}
	seenSrc := map[string]bool{}
	ops := map[string]bool{}
	repOps := map[string]bool{}
	// expand sequentially (deterministic), run in parallel, write in order
	const chunk = 4096
	tid := 0
	for lo := 0; lo < len(cs); lo += chunk {
		hi := lo + chunk
		if hi > len(cs) {
			hi = len(cs)
		}
		var progs []prog
		for i := lo; i < hi; i++ {
			for _, o := range cs[i].Ops {
				ops[o] = true
			}
			for _, p := range expand(&cs[i], *seed, i, *muts) {
				key := p.kind + "\x00" + p.src
				if seenSrc[key] {
					continue
				}
				seenSrc[key] = true
				progs = append(progs, p)
			}
		}
		// statement sequences: a derivable program that ends with an explicit ';' followed by another derivable program (spelled
		// with other identifiers) is derivable, and its tree is the two trees one after the other -- parser state (the [In],
		// [Return], [Yield], [Await] parameters, pending line breaks) must not leak from one statement into the next
		for i := lo; i < hi; i += 3 {
			a := &cs[i]
			j := (i*7919 + 13) % len(cs)
			b := &cs[j]
			if a.Kind != "accept" || b.Kind != "accept" || len(a.Toks) == 0 || len(b.Toks) == 0 || a.Toks[len(a.Toks)-1] != ";" {
				continue
			}
			if f := b.Toks[0]; strings.HasPrefix(f, "'") || strings.HasPrefix(f, "\"") || strings.HasPrefix(f, "<") {
				continue // a string first would be a directive when alone and an expression statement here; markers
			}
			pa := expand(a, *seed, i, 0)[0]
			pb := expand(b, *seed+1, j, 0)[0]
			pp := prog{src: pa.src + "\n" + pb.src, kind: "accept", why: "sequence", canon: pa.canon + " " + pb.canon, canonw: pa.canonw + " " + pb.canonw,
				ops: append(append([]string{}, pa.ops...), pb.ops...), ar: append(append([]int{}, pa.ar...), pb.ar...), nodes: pa.nodes + pb.nodes}
			key := pp.kind + "\x00" + pp.src
			if !seenSrc[key] {
				seenSrc[key] = true
				progs = append(progs, pp)
			}
		}
		// repetition: a derivable program that is a statement list stays derivable as the body of a block, and a sequence of
		// blocks is a statement list -- so RepCount blocks in a row parse; whatever the parser counts while parsing one
		// statement (nesting depth of expressions and binding patterns, pending parentheses) must be given back at its end.
		// One program for every operator / construct kind not yet repeated.
		for i := lo; i < hi; i++ {
			a := &cs[i]
			if a.Kind != "accept" || len(a.Toks) == 0 || strings.HasPrefix(a.Toks[0], "<") {
				continue
			}
			fresh, module := false, false
			for _, o := range a.Ops {
				if !repOps[o] {
					fresh = true
				}
			}
			for _, t := range a.Toks {
				if t == "import" || t == "export" {
					module = true
				}
			}
			if !fresh || module {
				continue
			}
			for _, o := range a.Ops {
				repOps[o] = true
			}
			pa := expand(a, *seed, i, 0)[0]
			progs = append(progs, prog{src: pa.src, kind: "parses", why: "repetition", ops: pa.ops, ar: pa.ar, nodes: pa.nodes, rep: RepCount})
		}
		// probes after every derivable program that ends with ';': the statement `a in b;` stays derivable (the [In] parameter
		// of a new statement does not depend on the statements before it)
		for i := lo; i < hi && inProbe != nil; i++ {
			a := &cs[i]
			if a.Kind != "accept" || len(a.Toks) == 0 || a.Toks[len(a.Toks)-1] != ";" || len(a.Ops) < 3 {
				continue
			}
			pa := expand(a, *seed, i, 0)[0]
			pb := expand(inProbe, *seed+1, 0, 0)[0]
			for _, pp := range []prog{
				{src: pa.src + "\n" + pb.src, kind: "accept", why: "sequence:in-probe", canon: pa.canon + " " + pb.canon, canonw: pa.canonw + " " + pb.canonw, ops: pa.ops, ar: pa.ar, nodes: pa.nodes + 1},
			} {
				key := pp.kind + "\x00" + pp.src
				if !seenSrc[key] {
					seenSrc[key] = true
					progs = append(progs, pp)
				}
			}
		}
		results := make([]result, len(progs))
		var wg sync.WaitGroup
		nw := runtime.NumCPU()
		for k := 0; k < nw; k++ {
			wg.Add(1)
			go func(k int) {
				defer wg.Done()
				for i := k; i < len(progs); i += nw {
					results[i] = runProg(&progs[i])
				}
			}(k)
		}
		wg.Wait()
		for i := range progs {
			p := &progs[i]
			tid++
			sum.Programs++
			sum.Executions += len(allOpts)
			if p.kind == "accept" {
				sum.Accept++
				if p.nodes >= 2 { // at least two operator / statement nodes
					sum.Nontrivial++
				}
				if inw != nil {
					b, _ := json.Marshal(map[string]interface{}{"input": tr.Ints([]byte(p.src))})
					inw.Write(append(b, '\n'))
				}
			} else {
				sum.Reject++
			}
			if results[i].mismatch {
				sum.Mismatches++
			}
			if results[i].mismatch || tid%*sample == 0 {
				w.Begin(tid)
				for j, e := range results[i].evs {
					name := "Parse"
					if j == 0 {
						name = "Open"
					}
					w.Ev(name, e)
				}
				w.End(true)
			}
			if len(sum.Samples) < 4 && tid%997 == 5 {
				sum.Samples = append(sum.Samples, map[string]interface{}{"src": p.src, "kind": p.kind, "why": p.why, "canon": p.canon})
			}
		}
	}
	w.Close()
	for o := range ops {
		sum.OpsSeen = append(sum.OpsSeen, o)
	}
	sum.Traces, sum.Events = w.Traces, w.Events
	json.NewEncoder(os.Stdout).Encode(sum)
}

// Inputs writes every accepted program (spelled for the seed) as ndjson {"input":[bytes]}.
func Inputs(args []string) {
	fs := flag.NewFlagSet("jsgram inputs", flag.ExitOnError)
	cases := fs.String("cases", "", "ndjson from JsGrammar.tla")
	out := fs.String("out", "", "ndjson file")
	seed := fs.Int64("seed", 1, "spelling seed")
	fs.Parse(args)
	cs := readCases(*cases)
	f, err := os.Create(*out)
	if err != nil {
		fmt.Fprintln(os.Stderr, err)
		os.Exit(2)
	}
	defer f.Close()
	n := 0
	for i := range cs {
		if cs[i].Kind != "accept" {
			continue
		}
		p := expand(&cs[i], *seed, i, 0)[0]
		b, _ := json.Marshal(map[string]interface{}{"input": tr.Ints([]byte(p.src))})
		f.Write(append(b, '\n'))
		n++
	}
	json.NewEncoder(os.Stdout).Encode(map[string]interface{}{"suite": "jsgram", "mode": "inputs", "programs": n})
}

func toBytes(v []int) []byte {
	b := make([]byte, len(v))
	for i, x := range v {
		b[i] = byte(x)
	}
	return b
}

// File re-runs programs given as ndjson {"src":[bytes], "kind":..., "canon":[bytes], "canonw":[bytes]} (reproduction, --replay).
func File(args []string) {
	fs := flag.NewFlagSet("jsgram file", flag.ExitOnError)
	in := fs.String("in", "", "ndjson")
	out := fs.String("out", "", "trace file")
	fs.Parse(args)
	w := tr.NewWriter(*out)
	sum := summary{Suite: "jsgram", Mode: "file"}
	tid := 0
	err := tr.ReadCases(*in, func(line int, raw []byte) {
		var c struct {
			Src    []int    `json:"src"`
			Kind   string   `json:"kind"`
			Why    string   `json:"why"`
			Canon  []int    `json:"canon"`
			CanonW []int    `json:"canonw"`
			Ops    []string `json:"ops"`
			Pairs  []string `json:"pairs"`
			Ar     []int    `json:"ar"`
			Nl     []string `json:"nl"`
			Nodes  int      `json:"nodes"`
			Rep    int      `json:"rep"`
		}
		if err := json.Unmarshal(raw, &c); err != nil {
			fmt.Fprintln(os.Stderr, "bad line", err)
			os.Exit(2)
		}
		p := prog{src: string(toBytes(c.Src)), kind: c.Kind, why: c.Why, canon: string(toBytes(c.Canon)), canonw: string(toBytes(c.CanonW)), ops: c.Ops, pairs: c.Pairs, ar: c.Ar, nl: c.Nl, nodes: c.Nodes, rep: c.Rep}
		r := runProg(&p)
		tid++
		w.Begin(tid)
		for j, e := range r.evs {
			name := "Parse"
			if j == 0 {
				name = "Open"
			}
			w.Ev(name, e)
		}
		w.End(true)
		sum.Programs++
		sum.Executions += len(allOpts)
		if r.mismatch {
			sum.Mismatches++
		}
	})
	if err != nil {
		fmt.Fprintln(os.Stderr, err)
		os.Exit(2)
	}
	w.Close()
	sum.Traces, sum.Events = w.Traces, w.Events
	json.NewEncoder(os.Stdout).Encode(sum)
}

// Src prints what js.Parse says about the texts given as arguments (debugging aid).
func Src(args []string) {
	for _, s := range args {
		ast, err := js.Parse(parse.NewInputString(s), js.Options{})
		if err != nil {
			fmt.Printf("%q\n  ERR %v\n", s, strings.SplitN(err.Error(), "\n", 2)[0])
			continue
		}
		fmt.Printf("%q\n  %s\n", s, ast.String())
	}
}

func init() {
	reg.Register("jsgram", "replay", Replay)
	reg.Register("jsgram", "inputs", Inputs)
	reg.Register("jsgram", "file", File)
	reg.Register("jsgram", "src", Src)
}
