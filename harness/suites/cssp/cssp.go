// Package cssp drives css.Parser (property C08). For every input it also runs css.Lexer on a pristine copy and
// locates each token the parser reports (the unit's data and every element of Values()) in that token list; the
// trace is judged by spec/css/CssStreamTrace.tla (nesting, conservation, final io.EOF). Well-formed stylesheets
// generated from the CSS grammar are compared unit by unit in replay mode (see gen.go).
package cssp

import (
	"bytes"
	"encoding/json"
	"flag"
	"fmt"
	"hash/fnv"
	"io"
	"math/rand"
	"os"
	"unsafe"

	"github.com/tdewolff/parse/v2"
	"github.com/tdewolff/parse/v2/css"

	"verif/harness/internal/reg"
	"verif/harness/internal/tr"
	"verif/harness/suites/lexers"
)

type ltok struct {
	tt   css.TokenType
	off  int
	text []byte
}

func lexAll(input []byte) []ltok {
	in := parse.NewInputBytes(append(make([]byte, 0, len(input)+1), input...))
	l := css.NewLexer(in)
	var out []ltok
	for i := 0; i < 4*len(input)+16; i++ {
		start := in.Offset()
		tt, d := l.Next()
		if tt == css.ErrorToken {
			break
		}
		out = append(out, ltok{tt, start, append([]byte{}, d...)})
	}
	return out
}

// Unit is one observed grammar unit (exported for the generator-based replay).
type Unit struct {
	GT     string
	TT     string
	Data   []byte
	Values []css.Token
	PErr   bool
	EOF    bool
	Err    string
}

// located token kinds for the trace
func locate(tt css.TokenType, data []byte, base uintptr, n int, ltoks []ltok, byOff map[int]int, last *int) tr.E {
	if len(data) == 0 {
		return nil
	}
	if tt == css.WhitespaceToken && len(data) == 1 && data[0] == ' ' {
		p := uintptr(unsafe.Pointer(&data[0]))
		if p < base || p >= base+uintptr(n) {
			return tr.E{"k": "ws"}
		}
	}
	p := uintptr(unsafe.Pointer(&data[0]))
	if n > 0 && p >= base && p < base+uintptr(n) {
		off := int(p - base)
		if i, ok := byOff[off]; ok && ltoks[i].tt == tt && bytes.Equal(ltoks[i].text, data) {
			*last = i + 1
			return tr.E{"k": "tok", "i": i + 1}
		}
		// a token that starts inside an input token, or differs from it
		return tr.E{"k": "none", "why": "aliases input at an offset that is no such token"}
	}
	if tt == css.CustomPropertyValueToken {
		// exact source text of a contiguous run of tokens after the last one
		for i := *last; i <= len(ltoks); i++ {
			var acc []byte
			for j := i; j <= len(ltoks); j++ {
				if bytes.Equal(acc, data) {
					*last = j
					if j == i {
						return tr.E{"k": "custom", "i": i + 1, "j": i}
					}
					return tr.E{"k": "custom", "i": i + 1, "j": j}
				}
				if j < len(ltoks) {
					acc = append(acc, ltoks[j].text...)
					if len(acc) > len(data) {
						break
					}
				}
			}
			if i-*last > 2 {
				break // the value starts right after the colon (and optional whitespace)
			}
		}
		return tr.E{"k": "none", "why": "custom property value is not the source text"}
	}
	// a copy: find the next input token of this type with this text (ASCII case folded)
	for i := *last; i < len(ltoks); i++ {
		if ltoks[i].tt == tt && bytes.EqualFold(ltoks[i].text, data) {
			*last = i + 1
			k := "tok"
			if tt == css.RightBraceToken {
				k = "brace"
			}
			return tr.E{"k": k, "i": i + 1}
		}
		if len(data) > 1 && data[0] == '*' && bytes.Equal(ltoks[i].text, []byte("*")) {
			// IE hack: '*' joined with the next token that is not whitespace or a comment
			j := i + 1
			for j < len(ltoks) && (ltoks[j].tt == css.WhitespaceToken || ltoks[j].tt == css.CommentToken) {
				j++
			}
			if j < len(ltoks) && bytes.EqualFold(append([]byte("*"), ltoks[j].text...), data) {
				*last = j + 1
				return tr.E{"k": "join", "i": j + 1}
			}
		}
	}
	return tr.E{"k": "none", "why": "no such token at or after the last reported one"}
}

// Run parses input in the given mode, records the trace (if w != nil) and returns the units.
func Run(w *tr.Writer, input []byte, inline bool, gen tr.E) []Unit {
	n := len(input)
	back := make([]byte, n, n+1)
	copy(back, input)
	in := parse.NewInputBytes(back)
	var base uintptr
	if n > 0 {
		base = uintptr(unsafe.Pointer(&back[0]))
	}
	ltoks := lexAll(input)
	byOff := map[int]int{}
	for i, t := range ltoks {
		byOff[t.off] = i
	}
	if w != nil {
		open := tr.E{"len": n, "input": tr.Ints(input), "inline": inline, "ntok": len(ltoks)}
		for k, v := range gen {
			open[k] = v
		}
		w.Ev("Open", open)
	}
	p := css.NewParser(in, inline)
	var units []Unit
	last := 0
	ended := false
	for calls := 0; calls < 4*n+16; calls++ {
		ev := tr.E{}
		var gt css.GrammarType
		var tt css.TokenType
		var data []byte
		panicked := func() (pn bool) {
			defer func() {
				if x := recover(); x != nil {
					ev["out"], ev["panic"] = "panic", fmt.Sprint(x)
					pn = true
				}
			}()
			gt, tt, data = p.Next()
			return false
		}()
		if panicked {
			if w != nil {
				w.Ev("Next", ev)
			}
			return units
		}
		err := p.Err()
		u := Unit{GT: gt.String(), TT: tt.String(), Data: append([]byte{}, data...), PErr: p.HasParseError(), EOF: err == io.EOF}
		if err != nil {
			u.Err = err.Error()
		}
		toks := []tr.E{}
		hasValues := gt == css.AtRuleGrammar || gt == css.BeginAtRuleGrammar || gt == css.BeginRulesetGrammar || gt == css.DeclarationGrammar ||
			gt == css.CustomPropertyGrammar || gt == css.QualifiedRuleGrammar
		if gt != css.ErrorGrammar {
			if t := locate(tt, data, base, n, ltoks, byOff, &last); t != nil {
				toks = append(toks, t)
			}
		}
		if hasValues {
			for _, v := range p.Values() {
				u.Values = append(u.Values, css.Token{TokenType: v.TokenType, Data: append([]byte{}, v.Data...)})
				if t := locate(v.TokenType, v.Data, base, n, ltoks, byOff, &last); t != nil {
					toks = append(toks, t)
				}
			}
		}
		units = append(units, u)
		ev["gt"], ev["pe"], ev["eof"], ev["toks"] = gt.String(), u.PErr, u.EOF, toks
		if w != nil {
			w.Ev("Next", ev)
		}
		if gt == css.ErrorGrammar && err == io.EOF && !u.PErr {
			ended = true
			break
		}
	}
	_ = ended
	if w != nil {
		w.Ev("Finish", tr.E{})
	}
	return units
}

// caseRng derives the spelling choices of one case from the seed and the case itself, so that the order in which TLC's
// workers happen to emit the cases does not matter.
func caseRng(seed int64, cls []string) *rand.Rand {
	h := fnv.New64a()
	fmt.Fprint(h, seed, cls)
	return rand.New(rand.NewSource(int64(h.Sum64())))
}

type summary struct {
	Suite      string        `json:"suite"`
	Mode       string        `json:"mode"`
	Cases      int           `json:"cases"`
	Executions int           `json:"executions"`
	Traces     int           `json:"traces"`
	Events     int           `json:"events"`
	Nontrivial int           `json:"distinct_nontrivial"`
	Mismatches int           `json:"mismatches"`
	Samples    []interface{} `json:"samples"`
}

// Classes: all class strings of the css family (spec/proto/AllStrings.tla) and harvested css test literals with mutations,
// in both modes.
func Record(args []string) {
	fs := flag.NewFlagSet("cssp record", flag.ExitOnError)
	cases := fs.String("cases", "", "ndjson {fam, cls} from AllStrings (only fam css is used)")
	out := fs.String("out", "", "trace file")
	seed := fs.Int64("seed", 1, "seed")
	per := fs.Int("harvest", 300, "harvested literals")
	muts := fs.Int("muts", 6, "mutations per literal")
	extra := fs.String("extra", "", "optional ndjson {input:[bytes]} of further stylesheets")
	fs.Parse(args)
	rng := rand.New(rand.NewSource(*seed))
	w := tr.NewWriter(*out)
	sum := summary{Suite: "cssp", Mode: "record"}
	tid := 0
	seen := map[string]bool{}
	one := func(input []byte, gen tr.E) {
		for _, inline := range []bool{false, true} {
			key := fmt.Sprint(inline, string(input))
			if seen[key] {
				continue
			}
			seen[key] = true
			tid++
			w.Begin(tid)
			sum.Executions++
			if len(Run(w, input, inline, gen)) >= 4 {
				sum.Nontrivial++
			}
			w.End(true)
		}
	}
	if *cases != "" {
		err := tr.ReadCases(*cases, func(line int, raw []byte) {
			var c struct {
				Fam string   `json:"fam"`
				Cls []string `json:"cls"`
			}
			if json.Unmarshal(raw, &c) != nil || c.Fam != "css" {
				return
			}
			sum.Cases++
			one(lexers.Concretise(c.Cls, caseRng(*seed, c.Cls)), tr.E{"cls": c.Cls})
		})
		if err != nil {
			fmt.Fprintln(os.Stderr, err)
			os.Exit(2)
		}
	}
	lits := lexers.HarvestLiterals(reg.Repo())["css"]
	rng.Shuffle(len(lits), func(i, j int) { lits[i], lits[j] = lits[j], lits[i] })
	subst := [][]byte{{0}, {0xFF}, {'{'}, {'}'}, {';'}, {'('}, {')'}, {'*'}, {'\\'}, {'"'}, {'@'}, {':'}}
	for i := 0; i < len(lits) && i < *per; i++ {
		s := []byte(lits[i])
		sum.Cases++
		one(s, tr.E{"harvest": 0})
		if len(sum.Samples) < 2 && len(s) > 10 {
			sum.Samples = append(sum.Samples, map[string]interface{}{"literal": lits[i]})
		}
		for m := 0; m < *muts && len(s) > 0; m++ {
			b := append([]byte{}, s...)
			switch rng.Intn(3) {
			case 0:
				b = b[:rng.Intn(len(b))]
			case 1:
				k := rng.Intn(len(b))
				b = append(append(append([]byte{}, b[:k]...), subst[rng.Intn(len(subst))]...), b[k+1:]...)
			default:
				k := rng.Intn(len(b) + 1)
				b = append(append(append([]byte{}, b[:k]...), subst[rng.Intn(len(subst))]...), b[k:]...)
			}
			one(b, tr.E{"harvest": m + 1})
		}
	}
	if *extra != "" {
		tr.ReadCases(*extra, func(line int, raw []byte) {
			var c struct {
				Input []int `json:"input"`
			}
			if json.Unmarshal(raw, &c) == nil {
				b := make([]byte, len(c.Input))
				for i, v := range c.Input {
					b[i] = byte(v)
				}
				one(b, tr.E{"extra": true})
			}
		})
	}
	w.Close()
	sum.Traces, sum.Events = w.Traces, w.Events
	json.NewEncoder(os.Stdout).Encode(sum)
}

// File: run the inputs of an ndjson file {input:[bytes], inline:bool} (rerun / --replay).
func File(args []string) {
	fs := flag.NewFlagSet("cssp file", flag.ExitOnError)
	in := fs.String("in", "", "ndjson {input, inline}")
	out := fs.String("out", "", "trace file")
	fs.Parse(args)
	w := tr.NewWriter(*out)
	sum := summary{Suite: "cssp", Mode: "file"}
	tid := 0
	tr.ReadCases(*in, func(line int, raw []byte) {
		var c struct {
			Input  []int `json:"input"`
			Inline bool  `json:"inline"`
		}
		if json.Unmarshal(raw, &c) != nil {
			os.Exit(2)
		}
		b := make([]byte, len(c.Input))
		for i, v := range c.Input {
			b[i] = byte(v)
		}
		tid++
		w.Begin(tid)
		Run(w, b, c.Inline, nil)
		w.End(true)
		sum.Executions++
	})
	w.Close()
	sum.Traces, sum.Events = w.Traces, w.Events
	json.NewEncoder(os.Stdout).Encode(sum)
}

func init() {
	reg.Register("cssp", "record", Record)
	reg.Register("cssp", "file", File)
}
