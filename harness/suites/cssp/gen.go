package cssp

// Generator half of C08: well-formed stylesheets / inline declaration lists derived by TLC from spec/css/CssGrammar.tla,
// each with the grammar stream the property statement prescribes. `replay` spells the atoms, parses the document with
// css.Parser (Run) in the mode the case names, compares the observed units field by field with the expectation TLC emitted
// and writes traces for spec/css/CssGrammarTrace.tla; `grammarfile` re-runs one concretised case.

import (
	"bytes"
	"encoding/json"
	"flag"
	"fmt"
	"hash/fnv"
	"math/rand"
	"os"
	"sort"
	"strings"

	"github.com/tdewolff/parse/v2/css"

	"verif/harness/internal/reg"
	"verif/harness/internal/tr"
)

type gval struct {
	T string `json:"t"`
	I int    `json:"i"`
	J int    `json:"j"`
}

type gunit struct {
	G  string `json:"g"`
	C  string `json:"c"`
	TT string `json:"tt"`
	D  int    `json:"d"`
	V  []gval `json:"v"`
}

type gcase struct {
	Mode  string   `json:"mode"`
	Atoms []string `json:"atoms"`
	Units []gunit  `json:"units"`
	Prods []string `json:"prods"`
	// only in grammarfile input: the concretised document
	Input []int `json:"input"`
	Cuts  []int `json:"cuts"`
}

// spellings of the atoms of CssGrammar.tla (one token each, except the separators and the custom-property groups)
var gspell = map[string][]string{
	"ident":     {"a", "b", "Foo", "x-y", "_z9", "DIV", "h1", "solid", `\0000411`, `x\00004a9`}, // (six-digit escapes followed by a further hex digit)
	"prop":      {"color", "Margin-Top", "B", "x", "WIDTH", "-webkit-Box", "font"},
	"important": {"important", "IMPORTANT", "Important"},
	"num":       {"0", "1", "42", "1.5", ".5", "1e3", "-1", "+2", "1e+3", "2.5E+1", "4e-2"},
	"dim":       {"1px", "2em", ".5s", "10Q", "-3deg", "1e+3px", "2E-1em"},
	"pct":       {"50%", "0%", "1.5%", "100%"},
	"str":       {`"s"`, `'s'`, `"a b"`, `'x;y'`, `"{"`, `""`, `"/*"`, `'}'`},
	"hash":      {"#fff", "#id", "#A1b2", "#-x"},
	"url":       {"url(x)", `url("y")`, "url( z )", "URL(w)", "url()", `url('a b')`},
	"func":      {"f(", "rgb(", "Calc(", "var(", "-x-g("},
	"pfunc":     {"not(", "is(", "where(", "NOT("},
	"comma":     {","}, "colon": {":"}, "semi": {";"}, "lbrace": {"{"}, "rbrace": {"}"},
	"lparen": {"("}, "rparen": {")"}, "lbrack": {"["}, "rbrack": {"]"},
	"slash": {"/"}, "bang": {"!"}, "eq": {"="}, "gt": {">"}, "plus": {"+"}, "tilde": {"~"}, "dot": {"."}, "star": {"*"}, "amp": {"&"},
	"incl":          {"~="},
	"cpname":        {"--x", "--my-var", "--a1", "--_"},
	"cdo":           {"<!--"},
	"cdc":           {"-->"},
	"comment":       {"/* c */", "/**/", "/* a{b:c} */", "/*\n*/", "/* ; } */"},
	"at.import":     {"@import", "@IMPORT"},
	"at.charset":    {"@charset", "@Charset"},
	"at.namespace":  {"@namespace", "@NameSpace"},
	"at.layer":      {"@layer", "@LAYER"},
	"at.media":      {"@media", "@MEDIA", "@Media"},
	"at.supports":   {"@supports", "@Supports"},
	"at.document":   {"@document", "@-moz-document", "@Document"},
	"at.keyframes":  {"@keyframes", "@KeyFrames"},
	"at.wkeyframes": {"@-webkit-keyframes", "@-moz-keyframes", "@-O-Keyframes"},
	"at.fontface":   {"@font-face", "@Font-Face", "@FONT-FACE"},
	"at.page":       {"@page", "@Page"},
	"at.unknown":    {"@foo", "@-x-bar", "@Custom", "@font-feature-values", "@container"},
	// separators: whitespace-bearing run, comment only, pure whitespace
	// (the last gS3 spellings of S are three tokens long)
	"S": {" ", "\n", "\t", "  ", "\r\n", "\f", " /* c */", "/* c */ ", " /**/ ", "\n/* ; */\n"},
	"C": {"/* c */", "/**/", "/*;*/", "/*}*/", "/* { */"},
	"W": {" ", "\n", "\t", " \n ", "\r\n"},
	// token groups inside a custom property value
	"cpblock": {"{a:b;c}", "{}", "{x{y}}"},
	"cpparen": {"(a;b)", "[;]", "f(;)"},
}

// Run's locator of custom property values (cssp.go) looks for the value at most three tokens after the name: between a custom
// property name and its colon only the one- and two-token spellings of S are used.
const gS3 = 2

var gmulti = map[string]bool{"S": true, "C": true, "W": true, "cpblock": true, "cpparen": true}

// every spelling of a one-token atom must be exactly one token of css.Lexer, separators only whitespace / comments
func gselfcheck() {
	for a, ss := range gspell {
		for _, s := range ss {
			toks := lexAll([]byte(s))
			ok := len(toks) == 1
			if a == "S" || a == "C" || a == "W" {
				ok = len(toks) >= 1
				ws := false
				for _, t := range toks {
					if t.tt != css.WhitespaceToken && t.tt != css.CommentToken {
						ok = false
					}
					ws = ws || t.tt == css.WhitespaceToken
				}
				ok = ok && (a == "C") != ws && (a != "W" || len(toks) == 1)
			} else if gmulti[a] {
				ok = len(toks) >= 2
			}
			if !ok {
				fmt.Fprintf(os.Stderr, "cssp: spelling %q of atom %s is not what the table says (%d tokens)\n", s, a, len(toks))
				if a == "S" || a == "C" || a == "W" || gmulti[a] {
					os.Exit(2)
				}
				// a one-token atom (each spelling is one token by CSS Syntax 4) that css.Lexer splits: not the harness's
				// error -- the documents are run all the same and the units that hold the pieces are judged against the
				// expectation, which names the atom's whole text as ONE token of Values()
			}
		}
	}
}

func gconcretise(c *gcase, rng *rand.Rand) ([]byte, []int) {
	var b []byte
	cuts := make([]int, 0, len(c.Atoms)+1)
	for i, a := range c.Atoms {
		ss, ok := gspell[a]
		if !ok {
			fmt.Fprintln(os.Stderr, "cssp: unknown atom", a)
			os.Exit(2)
		}
		cuts = append(cuts, len(b))
		if a == "S" && i > 0 && c.Atoms[i-1] == "cpname" {
			ss = ss[:len(ss)-gS3]
		}
		b = append(b, ss[rng.Intn(len(ss))]...)
	}
	cuts = append(cuts, len(b))
	return b, cuts
}

var gnamed = map[string]bool{"AtRule": true, "BeginAtRule": true, "Declaration": true, "CustomProperty": true}
var ghasValues = map[string]bool{"AtRule": true, "BeginAtRule": true, "BeginRuleset": true, "Declaration": true, "CustomProperty": true}

type gdoc struct {
	c     *gcase
	input []byte
	cuts  []int
}

func (d *gdoc) text(i, j int) []byte {
	if i < 1 || j > len(d.c.Atoms) || i > j {
		return []byte{}
	}
	return d.input[d.cuts[i-1]:d.cuts[j]]
}

func (d *gdoc) valText(v gval) []byte {
	if v.I == 0 {
		return []byte(" ")
	}
	return d.text(v.I, v.J)
}

func (d *gdoc) valAtom(v gval) string {
	if v.I == 0 {
		return " "
	}
	if v.I != v.J || v.I > len(d.c.Atoms) {
		return "text"
	}
	return d.c.Atoms[v.I-1]
}

// compare one observed unit with the expected one; "" if they agree
func (d *gdoc) diff(x gunit, o Unit) (string, tr.E) {
	if o.GT != x.G {
		return "gt", nil
	}
	if x.G == "Error" {
		if !o.EOF || o.PErr {
			return "eof", tr.E{"err": firstLine(o.Err)}
		}
		return "", nil
	}
	if o.PErr {
		return "parse-error", tr.E{"err": firstLine(o.Err)}
	}
	if x.D > 0 {
		if o.TT != x.TT {
			return "tt", tr.E{"xtt": x.TT, "ott": o.TT}
		}
		want := d.text(x.D, x.D)
		if gnamed[x.G] {
			want = bytes.ToLower(want) // the unit's lower-cased name
		}
		if !bytes.Equal(want, o.Data) {
			what := "data"
			if gnamed[x.G] {
				what = "name"
			}
			return what, tr.E{"xd": tr.Ints(want), "od": tr.Ints(o.Data)}
		}
	}
	if ghasValues[x.G] {
		same := len(x.V) == len(o.Values)
		for i := 0; same && i < len(x.V); i++ {
			same = x.V[i].T == o.Values[i].TokenType.String() && bytes.Equal(d.valText(x.V[i]), o.Values[i].Data)
		}
		if !same {
			xv := []interface{}{}
			for _, v := range x.V {
				xv = append(xv, []interface{}{v.T, d.valAtom(v), tr.Ints(d.valText(v))})
			}
			ov := []interface{}{}
			for _, v := range o.Values {
				ov = append(ov, []interface{}{v.TokenType.String(), tr.Ints(v.Data)})
			}
			return "values", tr.E{"xv": xv, "ov": ov}
		}
	}
	return "", nil
}

func firstLine(s string) string {
	if i := strings.IndexByte(s, '\n'); i >= 0 {
		return s[:i]
	}
	return s
}

// grun parses the document and writes its trace: Open{expected units}, one Unit event per observed unit with the index
// of the expected unit it equals (or -1), Finish. Returns whether the observed list equals the expected list.
func grun(w *tr.Writer, d *gdoc, extra tr.E) bool {
	obs := Run(nil, d.input, d.c.Mode == "inline", nil)
	exp := make([]string, len(d.c.Units))
	for i, u := range d.c.Units {
		exp[i] = u.G
	}
	open := tr.E{"mode": d.c.Mode, "atoms": d.c.Atoms, "input": tr.Ints(d.input), "cuts": d.cuts, "n": len(exp), "exp": exp, "units": d.c.Units}
	for k, v := range extra {
		open[k] = v
	}
	w.Ev("Open", open)
	ok := true
	next := 0
	for _, o := range obs {
		// inline lists: a comment between declarations reported as a unit of its own where none is expected (left open)
		if d.c.Mode == "inline" && o.GT == "Comment" && (next >= len(d.c.Units) || d.c.Units[next].G != "Comment") {
			w.Ev("Unit", tr.E{"k": next + 1, "gt": "Comment", "m": -1, "optional": true})
			continue
		}
		k := next
		next++
		ev := tr.E{"k": k + 1, "gt": o.GT, "m": k + 1}
		if k >= len(d.c.Units) {
			ev["m"], ev["diff"] = -1, "extra"
			ok = false
		} else if df, det := d.diff(d.c.Units[k], o); df != "" {
			ev["m"], ev["diff"], ev["xg"], ev["xc"] = -1, df, d.c.Units[k].G, d.c.Units[k].C
			for a, b := range det {
				ev[a] = b
			}
			ok = false
		}
		w.Ev("Unit", ev)
	}
	ok = ok && next == len(exp)
	w.Ev("Finish", tr.E{"n": len(obs)})
	return ok
}

type gsummary struct {
	Suite      string         `json:"suite"`
	Mode       string         `json:"mode"`
	Cases      int            `json:"cases"`
	Executions int            `json:"executions"`
	Traces     int            `json:"traces"`
	Events     int            `json:"events"`
	Nontrivial int            `json:"distinct_nontrivial"`
	Mismatches int            `json:"mismatches"`
	Inputs     int            `json:"inputs"`
	Samples    []interface{}  `json:"samples"`
	Atoms      map[string]int `json:"atoms"`
	Prods      map[string]int `json:"prods"`
	Kinds      map[string]int `json:"kinds"`
}

func ghash(b []byte) uint64 {
	h := fnv.New64a()
	h.Write(b)
	return h.Sum64()
}

// GReplay: the cases of CssGrammar.tla, several spellings each.
func GReplay(args []string) {
	fs := flag.NewFlagSet("cssp replay", flag.ExitOnError)
	cases := fs.String("cases", "", "comma-separated ndjson files {mode, atoms, units, prods} written by TLC")
	out := fs.String("out", "", "trace file (mismatching cases and every keep-th matching one)")
	inputs := fs.String("inputs", "", "ndjson {input:[bytes]} of every concretised document (for the all-input monitor)")
	seed := fs.Int64("seed", 1, "seed")
	variants := fs.Int("variants", 2, "spellings per case")
	keep := fs.Int("keep", 50, "keep every n-th matching case as a trace (by hash)")
	inVariants := fs.Int("inputvariants", 0, "write only the first n spellings of a case to -inputs (0: all)")
	inEvery := fs.Int("inputevery", 1, "write only every n-th document (by hash) to -inputs")
	fs.Parse(args)
	gselfcheck()
	w := tr.NewWriter(*out)
	var inw *os.File
	if *inputs != "" {
		var err error
		if inw, err = os.Create(*inputs); err != nil {
			fmt.Fprintln(os.Stderr, err)
			os.Exit(2)
		}
	}
	sum := gsummary{Suite: "cssp", Mode: "replay", Atoms: map[string]int{}, Prods: map[string]int{}, Kinds: map[string]int{}}
	seen := map[uint64]bool{}
	seenIn := map[string]bool{}
	type samp struct {
		h uint64
		v interface{}
	}
	var samples []samp
	tid := 0
	var inbuf bytes.Buffer
	for _, path := range strings.Split(*cases, ",") {
		if path == "" {
			continue
		}
		err := tr.ReadCases(path, func(line int, raw []byte) {
			h := ghash(raw)
			if seen[h] {
				return
			}
			seen[h] = true
			var c gcase
			if err := json.Unmarshal(raw, &c); err != nil || len(c.Units) == 0 {
				fmt.Fprintln(os.Stderr, "cssp: bad case", err)
				os.Exit(2)
			}
			sum.Cases++
			for _, a := range c.Atoms {
				sum.Atoms[a]++
			}
			for _, p := range c.Prods {
				sum.Prods[p]++
			}
			for _, u := range c.Units {
				sum.Kinds[u.G+"@"+u.C]++
			}
			if len(c.Units) >= 4 {
				sum.Nontrivial++
			}
			for v := 0; v < *variants; v++ {
				rng := rand.New(rand.NewSource(int64(h) ^ (*seed * 1000003) ^ int64(v)*7919))
				input, cuts := gconcretise(&c, rng)
				if inw != nil && (*inVariants == 0 || v < *inVariants) && (*inEvery <= 1 || ghash(input)%uint64(*inEvery) == 0) && !seenIn["*"+string(input)] {
					seenIn["*"+string(input)] = true
					b, _ := json.Marshal(map[string]interface{}{"input": tr.Ints(input)})
					inbuf.Write(b)
					inbuf.WriteByte('\n')
					sum.Inputs++
					if inbuf.Len() > 1<<20 {
						inw.Write(inbuf.Bytes())
						inbuf.Reset()
					}
				}
				if seenIn[c.Mode+string(input)] {
					continue
				}
				seenIn[c.Mode+string(input)] = true
				d := &gdoc{&c, input, cuts}
				tid++
				w.Begin(tid)
				sum.Executions++
				ok := grun(w, d, nil)
				if !ok {
					sum.Mismatches++
				}
				w.End(!ok || (*keep > 0 && (h+uint64(v))%uint64(*keep) == 0))
				if len(c.Units) >= 6 && len(c.Atoms) >= 12 && (h>>8)%97 == 0 {
					samples = append(samples, samp{h + uint64(v), map[string]interface{}{"mode": c.Mode, "atoms": strings.Join(c.Atoms, " "), "input": string(input)}})
				}
			}
		})
		if err != nil {
			fmt.Fprintln(os.Stderr, err)
			os.Exit(2)
		}
	}
	if inw != nil {
		inw.Write(inbuf.Bytes())
		inw.Close()
	}
	sort.Slice(samples, func(i, j int) bool { return samples[i].h < samples[j].h })
	for i := 0; i < len(samples) && i < 3; i++ {
		sum.Samples = append(sum.Samples, samples[i].v)
	}
	w.Close()
	sum.Traces, sum.Events = w.Traces, w.Events
	json.NewEncoder(os.Stdout).Encode(sum)
}

// GFile: re-run concretised cases {mode, atoms, units, input, cuts} (reproduction / --replay).
func GFile(args []string) {
	fs := flag.NewFlagSet("cssp grammarfile", flag.ExitOnError)
	in := fs.String("in", "", "ndjson {mode, atoms, units, input, cuts}")
	out := fs.String("out", "", "trace file")
	fs.Parse(args)
	w := tr.NewWriter(*out)
	sum := gsummary{Suite: "cssp", Mode: "grammarfile"}
	tid := 0
	err := tr.ReadCases(*in, func(line int, raw []byte) {
		var c gcase
		if err := json.Unmarshal(raw, &c); err != nil || len(c.Cuts) != len(c.Atoms)+1 {
			fmt.Fprintln(os.Stderr, "cssp: bad concretised case", err)
			os.Exit(2)
		}
		b := make([]byte, len(c.Input))
		for i, v := range c.Input {
			b[i] = byte(v)
		}
		sum.Cases++
		sum.Executions++
		tid++
		w.Begin(tid)
		if !grun(w, &gdoc{&c, b, c.Cuts}, nil) {
			sum.Mismatches++
		}
		w.End(true)
	})
	if err != nil {
		fmt.Fprintln(os.Stderr, err)
		os.Exit(2)
	}
	w.Close()
	sum.Traces, sum.Events = w.Traces, w.Events
	json.NewEncoder(os.Stdout).Encode(sum)
}

func init() {
	reg.Register("cssp", "replay", GReplay)
	reg.Register("cssp", "grammarfile", GFile)
}
