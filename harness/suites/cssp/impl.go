package cssp

// Differential conformance of spec/css/CssImpl.tla (the implementation-shaped model of css.Parser's control structure)
// with the code. TLC writes every token-class sequence up to the bound, in both modes, with the unit list the model
// predicts: {inline, cls:[class...], units:[[GrammarType, HasParseError, Err()==io.EOF]...]}. `impl` spells every class
// with a representative token text chosen by -seed such that css.Lexer really delivers that class sequence (checked by
// lexing), parses the text with css.Parser (Run) and compares the GrammarType sequence and the two flags with the
// prediction. A difference is MODEL DRIFT (reported in the summary, never a violation); the traces of all differing cases
// and of every keep-th agreeing one are written for spec/css/CssStreamTrace.tla, which alone decides about violations.

import (
	"bytes"
	"encoding/json"
	"flag"
	"fmt"
	"math/rand"
	"os"
	"sort"
	"strings"

	"github.com/tdewolff/parse/v2"
	"github.com/tdewolff/parse/v2/css"

	"verif/harness/internal/reg"
	"verif/harness/internal/tr"
)

// spellings of the token classes of CssImpl.tla (every spelling is one token of css.Lexer of that class)
var ispell = map[string][]string{
	"ident":   {"a", "b", "Foo", "x-y", "color", "DIV", "_z9", "-webkit-box"},
	"delim":   {".", "&", ">", "+", "~", "!", "/", "=", "%", "|", "$", "^", "<", "?", "@", "#", "-", "\\"},
	"star":    {"*"},
	"open":    {"(", "[", "f(", "rgb(", "Calc(", "(", "["},
	"close":   {")", "]"},
	"lbrace":  {"{"},
	"rbrace":  {"}"},
	"colon":   {":"},
	"semi":    {";"},
	"atrl":    {"@media", "@MEDIA", "@supports", "@document", "@-moz-document", "@keyframes", "@-webkit-keyframes", "@layer", "@Layer"},
	"atdl":    {"@font-face", "@Font-Face", "@page", "@PAGE", "@-x-page"},
	"atun":    {"@foo", "@import", "@charset", "@namespace", "@-x-bar", "@container", "@font-feature-values", "@-media", "@Custom"},
	"ws":      {" ", "\n", "\t", "  ", "\r\n", "\f"},
	"comment": {"/**/", "/* c */", "/*;*/", "/*}*/", "/* { */", "/*\n*/"},
	"cpname":  {"--x", "--my-var", "--_", "--A1"},
	"cdo":     {"<!--", "-->"},
	"other": {"#fff", "#id", "1", "1.5", ".5", "50%", "1px", "2em", `"s"`, `'x;y'`, `"}"`, ",", "url(x)", `url("y")`, "~=", "|=", "^=", "$=", "*=", "||",
		"U+1F", `"{"`, "1e3", "+2", "-1"},
}

// the class of one lexer token, as parse.go distinguishes them
func iclass(t ltok) string {
	switch t.tt {
	case css.IdentToken:
		return "ident"
	case css.FunctionToken, css.LeftParenthesisToken, css.LeftBracketToken:
		return "open"
	case css.RightParenthesisToken, css.RightBracketToken:
		return "close"
	case css.LeftBraceToken:
		return "lbrace"
	case css.RightBraceToken:
		return "rbrace"
	case css.ColonToken:
		return "colon"
	case css.SemicolonToken:
		return "semi"
	case css.WhitespaceToken:
		return "ws"
	case css.CommentToken:
		return "comment"
	case css.CustomPropertyNameToken:
		return "cpname"
	case css.CDOToken, css.CDCToken:
		return "cdo"
	case css.DelimToken:
		if len(t.text) == 1 && t.text[0] == '*' {
			return "star"
		}
		return "delim"
	case css.AtKeywordToken:
		// as parseAtRule names the rule: lower case, vendor prefix skipped
		name := parse.ToLower(parse.Copy(t.text))
		if len(name) > 1 && name[1] == '-' {
			if i := bytes.IndexByte(name[2:], '-'); i != -1 {
				name = name[i+2:]
			}
		}
		switch css.ToHash(name[1:]) {
		case css.Font_Face, css.Page:
			return "atdl"
		case css.Document, css.Keyframes, css.Layer, css.Media, css.Supports:
			return "atrl"
		}
		return "atun"
	}
	return "other"
}

func lexesTo(b []byte, cls []string) bool {
	toks := lexAll(b)
	if len(toks) != len(cls) {
		return false
	}
	for i, t := range toks {
		if iclass(t) != cls[i] {
			return false
		}
	}
	return true
}

// ispellCase spells the class sequence left to right (depth-first over the spellings in an order drawn from rng); a
// spelling is accepted if the text so far lexes to the classes so far.
func ispellCase(cls []string, rng *rand.Rand) ([]byte, bool) {
	budget := 4000
	var rec func(k int, b []byte) ([]byte, bool)
	rec = func(k int, b []byte) ([]byte, bool) {
		if k == len(cls) {
			return b, true
		}
		ss := ispell[cls[k]]
		if len(ss) == 0 {
			fmt.Fprintln(os.Stderr, "cssp impl: unknown class", cls[k])
			os.Exit(2)
		}
		for _, j := range rng.Perm(len(ss)) {
			if budget--; budget < 0 {
				return nil, false
			}
			cand := append(append([]byte{}, b...), ss[j]...)
			if lexesTo(cand, cls[:k+1]) {
				if r, ok := rec(k+1, cand); ok {
					return r, true
				}
			}
		}
		return nil, false
	}
	return rec(0, nil)
}

type icase struct {
	Inline bool            `json:"inline"`
	Cls    []string        `json:"cls"`
	Units  [][]interface{} `json:"units"`
}

type isummary struct {
	Suite       string         `json:"suite"`
	Mode        string         `json:"mode"`
	Cases       int            `json:"cases"`
	Executions  int            `json:"executions"`
	Traces      int            `json:"traces"`
	Events      int            `json:"events"`
	Nontrivial  int            `json:"distinct_nontrivial"`
	Mismatches  int            `json:"mismatches"`
	Unspellable int            `json:"unspellable"`
	MaxLen      int            `json:"maxlen"`
	Classes     map[string]int `json:"classes"`
	Kinds       map[string]int `json:"kinds"`
	Spellings   int            `json:"spellings_used"`
	Drift       []interface{}  `json:"drift_samples"`
	DriftKinds  map[string]int `json:"drift_kinds"`
	Unspelled   []interface{}  `json:"unspellable_samples"`
	Samples     []interface{}  `json:"samples"`
}

func iunitList(us []Unit) [][]interface{} {
	out := make([][]interface{}, len(us))
	for i, u := range us {
		out[i] = []interface{}{u.GT, u.PErr, u.EOF}
	}
	return out
}

// Impl: replay the cases of CssImpl.tla.
func Impl(args []string) {
	fs := flag.NewFlagSet("cssp impl", flag.ExitOnError)
	cases := fs.String("cases", "", "comma-separated ndjson files {inline, cls, units} written by TLC")
	out := fs.String("out", "", "trace file (differing cases and every keep-th agreeing one), judged by CssStreamTrace.tla")
	seed := fs.Int64("seed", 1, "seed")
	keep := fs.Int("keep", 40, "keep every n-th agreeing case as a trace (by hash)")
	fs.Parse(args)
	// every spelling must be one token of its class
	for c, ss := range ispell {
		for _, s := range ss {
			if !lexesTo([]byte(s), []string{c}) {
				fmt.Fprintf(os.Stderr, "cssp impl: spelling %q is not one token of class %s\n", s, c)
				os.Exit(2)
			}
		}
	}
	w := tr.NewWriter(*out)
	sum := isummary{Suite: "cssp", Mode: "impl", Classes: map[string]int{}, Kinds: map[string]int{}, DriftKinds: map[string]int{}}
	used := map[string]bool{}
	type samp struct {
		h uint64
		v interface{}
	}
	var samples []samp
	tid := 0
	for _, path := range strings.Split(*cases, ",") {
		if path == "" {
			continue
		}
		err := tr.ReadCases(path, func(line int, raw []byte) {
			var c icase
			if err := json.Unmarshal(raw, &c); err != nil || len(c.Units) == 0 {
				fmt.Fprintln(os.Stderr, "cssp impl: bad case", err, string(raw))
				os.Exit(2)
			}
			sum.Cases++
			if len(c.Cls) > sum.MaxLen {
				sum.MaxLen = len(c.Cls)
			}
			for _, k := range c.Cls {
				sum.Classes[k]++
			}
			for _, u := range c.Units {
				sum.Kinds[fmt.Sprint(u[0])]++
			}
			h := ghash(raw)
			rng := rand.New(rand.NewSource(int64(h) ^ (*seed * 1000003)))
			input, ok := ispellCase(c.Cls, rng)
			if !ok {
				sum.Unspellable++
				if len(sum.Unspelled) < 10 {
					sum.Unspelled = append(sum.Unspelled, strings.Join(c.Cls, " "))
				}
				return
			}
			if len(used) < 1<<20 {
				used[string(input)] = true
			}
			sum.Executions++
			obs := Run(nil, input, c.Inline, nil)
			// first index at which prediction and observation differ
			at := 0
			for at < len(obs) && at < len(c.Units) && len(c.Units[at]) == 3 && obs[at].GT == c.Units[at][0] && obs[at].PErr == c.Units[at][1] && obs[at].EOF == c.Units[at][2] {
				at++
			}
			same := at == len(obs) && at == len(c.Units)
			if len(c.Units) >= 4 {
				sum.Nontrivial++
			}
			if !same {
				sum.Mismatches++
				kind := fmt.Sprintf("%d units predicted, %d observed", len(c.Units), len(obs))
				if at < len(obs) && at < len(c.Units) {
					kind = fmt.Sprintf("%v/%v/%v predicted, %s/%v/%v observed", c.Units[at][0], c.Units[at][1], c.Units[at][2], obs[at].GT, obs[at].PErr, obs[at].EOF)
				}
				sum.DriftKinds[kind]++
				if len(sum.Drift) < 12 {
					sum.Drift = append(sum.Drift, map[string]interface{}{"inline": c.Inline, "cls": strings.Join(c.Cls, " "), "input": string(input),
						"first_difference_at_unit": at + 1, "predicted": c.Units, "observed": iunitList(obs)})
				}
			}
			if !same || (*keep > 0 && h%uint64(*keep) == 0) {
				tid++
				w.Begin(tid)
				Run(w, input, c.Inline, tr.E{"impl": true, "cls": c.Cls, "drift": !same})
				w.End(true)
			}
			if len(c.Units) >= 5 && (h>>8)%211 == 0 {
				samples = append(samples, samp{h, map[string]interface{}{"inline": c.Inline, "cls": strings.Join(c.Cls, " "), "input": string(input), "units": c.Units}})
			}
		})
		if err != nil {
			fmt.Fprintln(os.Stderr, err)
			os.Exit(2)
		}
	}
	sort.Slice(samples, func(i, j int) bool { return samples[i].h < samples[j].h })
	for i := 0; i < len(samples) && i < 3; i++ {
		sum.Samples = append(sum.Samples, samples[i].v)
	}
	sum.Spellings = len(used)
	w.Close()
	sum.Traces, sum.Events = w.Traces, w.Events
	json.NewEncoder(os.Stdout).Encode(sum)
}

func init() {
	reg.Register("cssp", "impl", Impl)
}
