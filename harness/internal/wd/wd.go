// Package wd is a watchdog for the drivers: a call into the library that never returns cannot be interrupted in Go, but
// it can be noticed. The driver announces the case it is about to run; if no new announcement arrives for the limit,
// the watchdog writes that case to <path> and ends the process with exit status 3 ("a call did not return").
package wd

import (
	"encoding/json"
	"os"
	"strconv"
	"sync/atomic"
	"time"
)

var (
	cur   atomic.Value // interface{}: description of the case being run
	ticks int64
)

// Start arms the watchdog. limit is the time one case may take.
func Start(path string, limit time.Duration) {
	if k, err := strconv.Atoi(os.Getenv("VERIF_WD_SCALE")); err == nil && k > 1 {
		limit *= time.Duration(k) // confirmation run: see lib/vcheck.py drive()
	}
	go func() {
		last := int64(-1)
		since := time.Now()
		for {
			time.Sleep(200 * time.Millisecond)
			t := atomic.LoadInt64(&ticks)
			if t != last {
				last, since = t, time.Now()
				continue
			}
			if t > 0 && time.Since(since) > limit {
				b, _ := json.Marshal(map[string]interface{}{"hang": true, "case": cur.Load(), "seconds": limit.Seconds()})
				os.WriteFile(path, b, 0o644)
				os.Exit(3)
			}
		}
	}()
}

// Case announces the case that is about to run (any JSON-marshalable description).
func Case(desc interface{}) {
	cur.Store(desc)
	atomic.AddInt64(&ticks, 1)
}

// Idle tells the watchdog that no case is running (e.g. while writing files).
func Idle() { atomic.AddInt64(&ticks, 1) }
