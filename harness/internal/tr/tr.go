// Package tr writes ndjson traces: one event per public call, at its return.
package tr

import (
	"bufio"
	"encoding/json"
	"fmt"
	"os"
)

// E is one event. Keys "t", "i" and "ev" are filled in by the Writer.
type E map[string]interface{}

// Writer appends traces to an ndjson file. Not safe for concurrent use: one Writer per goroutine.
type Writer struct {
	f      *os.File
	w      *bufio.Writer
	T      int // current trace id
	i      int
	Events int
	Traces int
	buf    []E // events of the trace being built (only flushed if Keep() is called or Always is set)
	Always bool
}

func NewWriter(path string) *Writer {
	f, err := os.Create(path)
	if err != nil {
		fmt.Fprintln(os.Stderr, "tr:", err)
		os.Exit(2)
	}
	return &Writer{f: f, w: bufio.NewWriterSize(f, 1<<20), Always: true}
}

// Begin starts a new trace; the previous one is flushed if Always or discarded otherwise (unless End(true)).
func (w *Writer) Begin(id int) {
	w.T = id
	w.i = 0
	w.buf = w.buf[:0]
}

// Ev records an event of the current trace.
func (w *Writer) Ev(name string, e E) {
	if e == nil {
		e = E{}
	}
	e["t"] = w.T
	e["i"] = w.i
	e["ev"] = name
	if _, ok := e["out"]; !ok {
		e["out"] = "ret"
	}
	w.i++
	w.buf = append(w.buf, e)
}

// End finishes the current trace, writing it if keep is true.
func (w *Writer) End(keep bool) {
	if keep && len(w.buf) > 0 {
		for _, e := range w.buf {
			b, err := json.Marshal(e)
			if err != nil {
				fmt.Fprintln(os.Stderr, "tr: marshal:", err)
				os.Exit(2)
			}
			w.w.Write(b)
			w.w.WriteByte('\n')
			w.Events++
		}
		w.Traces++
	}
	w.buf = w.buf[:0]
}

func (w *Writer) Close() {
	w.w.Flush()
	w.f.Close()
}

// Ints converts bytes to a JSON array of numbers (a []byte would be marshalled as base64).
func Ints(b []byte) []int {
	r := make([]int, len(b))
	for i, c := range b {
		r[i] = int(c)
	}
	return r
}

// ReadCases reads the ndjson emitted by TLC through CSVWrite: every line is a JSON *string* holding JSON.
func ReadCases(path string, fn func(line int, raw []byte)) error {
	f, err := os.Open(path)
	if err != nil {
		return err
	}
	defer f.Close()
	sc := bufio.NewScanner(f)
	sc.Buffer(make([]byte, 1<<20), 1<<26)
	n := 0
	for sc.Scan() {
		n++
		b := sc.Bytes()
		if len(b) == 0 {
			continue
		}
		if b[0] == '"' {
			var s string
			if err := json.Unmarshal(b, &s); err != nil {
				return fmt.Errorf("line %d: %v", n, err)
			}
			fn(n, []byte(s))
		} else {
			c := make([]byte, len(b))
			copy(c, b)
			fn(n, c)
		}
	}
	return sc.Err()
}

// Buf returns the events of the trace being built (they may be annotated before End writes them).
func (w *Writer) Buf() []E { return w.buf }

// SetBuf replaces the events of the trace being built.
func (w *Writer) SetBuf(b []E) { w.buf = b }
