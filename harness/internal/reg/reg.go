// Package reg is the registry of suites: every suite package registers its modes from init(), and
// cmd/vdrive/suites.go imports the suite packages for effect.
package reg

import "os"

type Cmd func(args []string)

var Suites = map[string]map[string]Cmd{}

func Register(suite, mode string, c Cmd) {
	if Suites[suite] == nil {
		Suites[suite] = map[string]Cmd{}
	}
	Suites[suite][mode] = c
}

// Repo is the checkout of github.com/tdewolff/parse/v2 this binary was built against: /repo, or $VERIF_REPO when the
// framework is pointed at a scratch clone (mutation runs).
func Repo() string {
	if d := os.Getenv("VERIF_REPO"); d != "" {
		return d
	}
	return "/repo"
}
