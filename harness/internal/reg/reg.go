// Package reg is the registry of suites: every suite package registers its modes from init(), and
// cmd/vdrive/suites.go imports the suite packages for effect.
package reg

type Cmd func(args []string)

var Suites = map[string]map[string]Cmd{}

func Register(suite, mode string, c Cmd) {
	if Suites[suite] == nil {
		Suites[suite] = map[string]Cmd{}
	}
	Suites[suite][mode] = c
}
