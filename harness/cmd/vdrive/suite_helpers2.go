package main

import _ "verif/harness/suites/helpers2"
