package main

import _ "verif/harness/suites/rw"
