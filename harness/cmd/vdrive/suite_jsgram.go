package main

import _ "verif/harness/suites/jsgram"
