// vdrive is the Go side of the conformance checks: it replays TLC-generated cases on the real code and
// records traces of the real code for TLC to validate. It never decides a property by itself, except for
// comparing an observation with the expectation a specification emitted.
package main

import (
	"fmt"
	"os"

	"verif/harness/internal/reg"
)

func main() {
	if len(os.Args) < 3 {
		fmt.Fprintln(os.Stderr, "usage: vdrive <suite> <mode> [flags]")
		os.Exit(2)
	}
	s, ok := reg.Suites[os.Args[1]]
	if !ok {
		fmt.Fprintln(os.Stderr, "unknown suite", os.Args[1])
		os.Exit(2)
	}
	m, ok := s[os.Args[2]]
	if !ok {
		fmt.Fprintln(os.Stderr, "unknown mode", os.Args[2])
		os.Exit(2)
	}
	m(os.Args[3:])
}
